"""Dev tool: write seeded/<id>/meta.json from seeded/own.tsv (+ notes) and regenerate the table of DESIGN.md section 8."""
import json
import os
import re

HERE = os.path.dirname(os.path.abspath(__file__))

DESC = {
    "C01-1": "cumsum VJP flips the wrong axis for a negative `axis` on rank>=2 input",
    "C01-2": "rfft/irfft Nyquist factor guard reads the array's last dim instead of the transformed axis",
    "C01-3": "diff VJP empty-output guard off by one (exactly one surviving difference gets a zero cotangent)",
    "C01-4": "nuclear-norm VJP: rollaxis replaced by moveaxis but the rollaxis index correction kept (row axis after column axis)",
    "C02-1": "pad JVP forwards `constant_values` into the tangent",
    "C02-2": "norm JVP loses the normalisation of negative entries in an axis pair (nuc, mixed signs)",
    "C02-3": "JVP `broadcast()` helper repeats the wrong axis for lower-rank operands that also have a size-1 axis",
    "C02-4": "logaddexp JVP rewritten as exp(x)/exp(ans): overflows at large-magnitude regular points",
    "C03-1": "trace() accepts a box of an enclosing trace as its own output",
    "C03-2": "defvjp's >=3-argument path builds a one-shot generator (second backward pass gets nothing)",
    "C03-3": "untake uses `A[idx] += x` unless the index is an ndarray (a value consumed several times by one indexing op)",
    "C03-4": "checkpoint drops keyword arguments when replaying the sub-program for the backward pass",
    "C04-1": "pad JVP becomes affine (same site as C02-1)",
    "C04-2": "p-norm JVP sums over all elements instead of the requested axis",
    "C05-1": "cross VJP unbroadcasts the second operand's cotangent to the first operand's shape",
    "C05-2": "translate_vjp(None) zero of the output's space instead of the argument's",
    "C05-3": "array(x, ndmin=k) VJP squeezes all unit axes, not only the prepended ones",
    "C05-4": "sequence + () slices the left gradient with `g[:-0]` (same site as C12-1)",
    "C06-1": "ArrayBox.reshape(*ints, order=) drops keywords",
    "C06-2": "SequenceBox.__radd__ appends instead of prepends",
    "C07-1": "reshape/ravel VJP drops `order` (first order of ravel(order='F') stays right, rev-over-rev wrong)",
    "C07-2": "hessian_tensor_product ignores argnum in its outer grad",
    "C07-3": "trace() accepts any box (mixed partials with an inner function constant in its own variable)",
    "C07-4": "sqrt VJP guarded by where(g == 0, 0, ...): right for every g, wrong derivative with respect to g at g = 0",
    "C08-1": "trace() compares node kind instead of trace level (same-mode nested levels confused)",
    "C08-2": "make_jvp returns a fully unboxed primal (outer derivative of the primal lost)",
    "C09-1": "same site as C01-2, shown through a real->complex->real program",
    "C09-2": "solve VJP skips the projection to real when shapes already match (real operand, complex partner)",
    "C09-3": "pinv VJP loses a conj in the (I - pinv(x) x) term (complex wide / rank-deficient matrices)",
    "C09-4": "inner VJP casts to the kind of the other operand (mixed real/complex)",
    "C10-1": "add_outgrads scatters a sparse contribution straight into a not-owned dense cotangent (real dtypes)",
    "C10-2": "ContainerVSpace._mut_add accumulates into the incoming contribution",
    "C10-3": "rfft VJP rescales the incoming cotangent in place (`g /= fac`)",
    "C10-4": "backward_pass accumulates in a mutable default dict (stale entries after a failed pass)",
    "C11-1": "untake uses `A[idx] += x` unless an ndarray index is present (nested list with repeats)",
    "C11-2": "untake wraps negative integer-array entries against the wrong axis after Ellipsis/None",
    "C12-1": "sequence + () slices the left gradient with `g[:-0]`",
    "C12-2": "tuple/list constructor JVP indexes tangents by traced-argument position",
    "C12-3": "container_untake slice branch overwrites instead of accumulating",
    "C12-4": "flatten ravels leaves with order='A' (Fortran-contiguous leaves round-trip permuted)",
    "C13-1": "np.complex64 / clongdouble scalars registered with the real vector space",
    "C13-2": "DictVSpace pairs entries positionally instead of by key",
    "C14-1": "trace() uses `<=` on trace levels (inner constant wrt own variable picks up the outer derivative)",
    "C14-2": "same site as C05-2, shown through where(cond=traced float)",
    "C15-1": "rollaxis guards merged with `and` (exactly one negative index no longer raises)",
    "C15-2": "defjvp skips arguments without a rule instead of raising",
    "C16-1": "elementwise_grad computed in forward mode (row sums instead of column sums)",
    "C16-2": "hessian_tensor_product drops keyword arguments",
    "C17-1": "same site as C05-2, shown through a user primitive registered with None",
    "C17-2": "checkpoint unboxes the other positional arguments before recomputing",
    "C18-1": "check_grads order-2 recursion only follows the last mode when both are requested",
    "C18-2": "ComplexArrayVSpace.randn draws purely real directions",
    "C19-1": "new_trace resets the depth to -1 on any exception",
    "C19-2": "backward pass keeps pending cotangents on the nodes (stale after a failed pass)",
    "C04-3": "add_outgrads skips the defensive copy before a sparse scatter for real arrays (same mutation as C11-4, shown through <g,Jv> != <J^T g,v>)",
    "C04-4": "cumsum VJP takes the axis-None branch for negative axes (JVP stays exact)",
    "C08-3": "hessian_tensor_product's outer grad ignores argnum (same site as C07-2)",
    "C08-4": "new_trace resets the depth to -1 when an exception passes (same idea as C19-1)",
    "C18-3": "DictVSpace loses _covector (complex entries in dict arguments are not conjugated by the checker)",
    "C18-4": "check_vjp/check_jvp draw both probe vectors from the same restored RNG state (x_v == y_v: transposed rules pass)",
    "C20-5": "tensor_jacobian_product keeps the tensor in a closure variable shared by concurrent calls of one operator object",
    "C20-6": "hessian_tensor_product caches the last forward pass per operator object (key and value written at different times)",
    "C06-3": "stack() normalises a negative axis with the inputs' rank instead of the result's",
    "C06-4": "ArrayBox.__matmul__/__rmatmul__ dispatch to dot instead of matmul (right operand of rank >= 3)",
    "C11-3": "getitem VJP sends every non-top-level index array to a buffered `A[idx] += g` (repeats inside tuples)",
    "C11-4": "add_outgrads skips the defensive copy before a sparse scatter for real arrays (dense-then-indexed, shared cotangent)",
    "C13-3": "real inner product wrapped in float(): longdouble spaces lose range and precision",
    "C13-4": "VSpace.mut_add(None, x) returns a shallow copy (containers share their leaves)",
    "C14-3": "make_vjp's zero branch builds the zeros once and returns the same object from every call",
    "C14-4": "no-trace primitives are re-dispatched without their keyword arguments",
    "C15-3": "rfft odd-length guard only runs when the length is inferred (explicit odd n silently wrong)",
    "C15-4": "diff VJP zero shortcut off by one (same site as C01-3)",
    "C16-3": "jacobian 'single output' fast path drops the output axes of size-1 outputs of rank >= 1",
    "C16-4": "deriv passes the scalar 1.0 as tangent instead of ones of the argument's space",
    "C17-3": "defvjp's >=3-argument path looks rules up by position among the differentiated arguments",
    "C17-4": "translate_jvp(None) zero of the argument's space instead of the output's",
    "C19-3": "trace() compares the output's level with trace_stack.top (wrong after a leaked level from a caught failure)",
    "C19-4": "np.gradient VJP keeps a generator over the axes (second backward pass returns zeros)",
    "C01-7": "two edits: grad_diagonal pads by (axis2, axis1) sizes + make_diagonal accepts every spelling of the last two axes (non-square input: transposed cotangent shape)",
    "C01-8": "repeat_to_match_shape trusts its keepdims argument (a dtype passed in NumPy's positional order lands in that slot: sum/mean/prod(x, axis, dtype))",
    "C02-7": "two edits: JVPNode drops keyword arguments equal to None + sort JVP computes for N-d input (sort(X, axis=None) gets an X-shaped tangent)",
    "C02-8": "linspace JVP wrt start builds its zero partner from g instead of stop (start smaller than stop: tangent not broadcast)",
    "C03-7": "two edits: backward_pass seeds a parent from a passed-through accumulated buffer as mutable + add_outgrads returns g uncopied onto (None, flag) (two parents share one accumulator)",
    "C03-8": "new_trace resets the depth to -1 when an exception passes (same idea as C19-1), shown through exception-steered control flow",
    "C05-7": "two edits: dot_adjoint_0 2-D fast path skips the dtype cast + dot_vjp_0 drops match_complex (real 2-D A, complex B: complex gradient)",
    "C05-8": "diag VJP crop guarded by a condition that is never true (non-square 2-D input, offset toward the long side: oversized gradient)",
    "C06-7": "two edits: isinstance replacement passes boxes through for autograd's container classes + their metaclasses strip one box level only (False at depth >= 2)",
    "C06-8": "trace() compares the output's level with trace_stack.top (a box is returned as the primal after a caught inner failure)",
    "C08-7": "hessian rewritten as jacobian(jacobian(fun, argnum)): the outer level falls back to argument 0",
    "C08-8": "two edits: operator results carry .argnum + operators default argnum to fun.argnum (grad(grad(f, 1)) differentiates twice wrt argument 1)",
    "C10-7": "two edits: mut_add onto nothing returns x * 1.0 + scaling a float64 array by exactly 1 returns the array itself (scatter writes into the caller's cotangent)",
    "C10-8": "container_untake slice branch zips (cotangent, accumulator) in the wrong order (accumulates into the caller's cotangent arrays)",
    "C19-7": "two edits: make_vjp restores the depth when its trace raises + grad pops one level when make_vjp raises (depth popped twice after a failed nested grad)",
    "C19-8": "make_jvp restores the depth captured when the operator object was built, not when it is called (stored jvp function failing at a deeper level)",
    "C04-5": "two edits: repeat_to_match_shape returns the array only + the max/min JVP's tuple-axis branch indexes its result with [0] (NaN tangents for tuple axes without axis 0)",
    "C04-6": "untake uses buffered `A[idx] += x` unless the index is a single ndarray (tuple indices holding integer arrays with repeats)",
    "C07-5": "two edits: the eigh VJP guard tests isbox on the whole cotangent record + namedtuple cotangents are written into a plain zero record (eigenvector term lost at a zero traced cotangent)",
    "C07-6": "checkpoint recomputes on fully unboxed saved inputs (second and higher derivatives through a checkpointed function vanish)",
    "C09-5": "two edits: dot_adjoint fast path skips the dtype cast + dot VJPs drop match_complex (real 2-D left operand, complex 2-D right operand)",
    "C09-6": "p-norm JVP loses the conjugate of x (forward mode, complex input, ord not in {None, 2, fro, nuc})",
    "C11-5": "two edits: ArrayVSpace.zeros returns a numpy scalar for rank 0 + mut_add onto nothing ignores _mut_add's return value (rank-0 value: dense then indexed contribution)",
    "C11-6": "sparse_add restarts from zeros when the accumulator is a float/complex scalar (np.float64 is a float subclass): rank-0 value with two dense contributions then an indexed one",
    "C12-5": "two edits: _make_dict builds its result in sorted key order + its VJP walks the keys of the result (values receive each other's cotangents for unsorted keys)",
    "C12-6": "SequenceVSpace._subval writes a slice entry by entry without the step",
    "C13-5": "two edits: ContainerVSpace caches a fingerprint (child class, size) + __eq__ compares fingerprints only (shape / dtype / nesting of children ignored)",
    "C13-6": "container inner product zips the values of its operands (dict entries paired by iteration order, not by key)",
    "C14-5": "two edits: new_trace restores the depth in a finally + make_jvp pops the depth when its trace raises (depth popped twice after a caught forward-mode failure)",
    "C14-6": "translate_jvp(None) builds the zero tangent in the argument's space instead of the output's (same idea as C17-4)",
    "C15-5": "two edits: nograd_functions extended by numpy_boxes.nondiff_methods + take/compress moved to nondiff_methods (silently constant in both modes)",
    "C15-6": "matrix norm guard lets ord=2 through (Frobenius formula for the spectral norm)",
    "C16-5": "two edits: ArrayVSpace._mut_add returns a new wider array when dtypes differ + container_untake drops the accumulated entry's return value (float32 argument selected by a tuple argnum gets zeros)",
    "C16-6": "unary_to_nary builds unary_f once per operator and reads the extra arguments from cells overwritten by every call (a make_jvp result used after a later evaluation)",
    "C17-5": "two edits: wraps copies the wrapped function's __dict__ + primitive() unwraps anything flagged as a primitive (checkpoint(grad(p)) computes p)",
    "C17-6": "trace() no longer compares the output's trace with its own (checkpoint at order >= 2 with an argument that does not affect the output)",
    "C18-5": "two edits: VJPNode prefers a rule stored on the primitive + defvjp_argnums stores only the first registration there (re-registered rules ignored in reverse mode)",
    "C18-6": "combo_check builds the keyword combinations as single-use iterators (only the first positional combination is checked)",
    "C20-7": "two edits: one shared reverse-mode root node per nesting depth + cotangents accumulated on node slots (interleaved backward passes of two threads)",
    "C20-8": "unary_to_nary keeps the current call's extra arguments in a list shared by all calls of one operator object",
    "C01-9": "tensordot_adjoint_1 wraps the second operand's negative axes with the first operand's rank",
    "C01-10": "two edits: resolve_order returns None for order='A' on a both-contiguous array + the reshape VJP falls back to the raw order (the cotangent's layout decides)",
    "C02-9": "pad JVP forwards the padding keywords to the tangent (constant_values / end_values leak into the derivative)",
    "C02-10": "two edits: resolve_order's 'K' branch prefers 'F' for both-contiguous arrays + the reshape JVP resolves 'A' through 'K' (vectors reshaped with order='A')",
    "C03-9": "container_untake slice branch adds the slice cotangent into fresh zeros instead of the accumulator",
    "C03-10": "two edits: ArrayVSpace._add returns _scalar_mul(x, 1) for an all-zero term + _scalar_mul(x, 1) returns x itself (an aliased array becomes a mutable accumulator)",
    "C05-9": "unbroadcast sums only axes whose cotangent length is > 1 (length-one axis broadcast against a zero-length axis)",
    "C05-10": "two edits: match_complex asks vspace(target).iscomplex + the ndarray vspace registration calls only complex128 complex (complex64 arguments get real gradients)",
    "C06-9": "_astype default order 'K' -> 'C' (result loses the operand's memory layout; visible through a later order='K'/'A' read)",
    "C06-10": "two edits: wrap_if_boxes_inside skips the reshape for ndim <= 1 + select reuses that helper (scalar select returns shape (1,))",
    "C08-9": "two edits: add_outgrads calls the raw _mut_add + ArrayVSpace._mut_add skips all-zero contributions (a zero-valued cotangent that depends on an outer variable is dropped)",
    "C08-10": "resolve_order inspects onp.asarray(x) without getval (inside a nested differentiation x is a box: order='A' of a Fortran array resolves to 'C')",
    "C10-9": "two edits: conj returns real arrays unchanged + the svd VJP divides v in place (the returned vt factor is modified by every backward pass)",
    "C10-10": "np.gradient VJP keeps map(int, axis) (an iterator) in its closure (second call of the VJP function returns zeros)",
    "C19-9": "defvjp_argnum builds its rules lazily at the first backward pass and memoises a partially built list when a later rule fails",
    "C19-10": "two edits: one shared ArrayVSpace instance per (shape, dtype) + ones() memoised on the instance (a caller's in-place update of a returned gradient changes later seeds)",
    "C04-7": "p-norm JVP drops the conjugate of x (complex vector norms with ord not in {None, 2, fro}); same site as C09-6",
    "C04-8": "two edits: repeat_to_match_shape honours keepdims is True + grad_np_sum turns its keepdims slot into a bool (a dtype passed positionally lands in that slot)",
    "C09-7": "solve VJP wrt b takes its metadata from the solution instead of b (complex matrix, real right-hand side: complex gradient)",
    "C09-8": "two edits: unbroadcast_einsum sums itself without projecting + grad_einsum applies match_complex only without Ellipsis (real operand, complex partner, sublist form with Ellipsis)",
    "C11-7": "two edits: backward_pass stores an owned first dense contribution as mutable + the add VJP hands one reduced array to both operands (two accumulators share memory)",
    "C11-8": "sparse_add restarts from zeros when the accumulator is not writeable (rank-0 value: two dense contributions, then an indexed one)",
    "C12-7": "grad_container_take rewrites a slice through slice.indices (negative step through index 0 becomes an empty slice: zero cotangent)",
    "C12-8": "two edits: ArrayVSpace.zeros returns a numpy scalar for rank 0 + mut_add onto nothing relies on in-place accumulation (scalar leaves: dense then sparse contribution)",
    "C13-7": "two edits: one shared space object per NumPy scalar type + SequenceVSpace._kv_pairs skips a child object it has already seen (standard_basis incomplete)",
    "C13-8": "vspace() caches the last (value, space) pair by identity (stale after an in-place change of the value)",
    "C15-7": "empty_like / full_like added to the non-differentiable functions (a traced fill_value is silently a constant)",
    "C15-8": "two edits: make_diagonal supports offsets for axes (-1, -2) + grad_diagonal rewrites (-2, -1) to (-1, -2) without negating the offset",
    "C17-7": "two edits: defvjp_argnums also indexes rules by the undecorated function + VJPNode falls back to that index (a rule-less primitive borrows another wrapper's rule)",
    "C17-8": "translate_jvp(None) zero of the argument's space instead of the output's (same idea as C17-4 / C14-6)",
    "C18-7": "DictVSpace._map pairs dict entries by position instead of by key (gradient dicts built in another key order)",
    "C18-8": "two edits: JVPNode prefers a rule stored on the primitive + defjvp_argnums stores only the first registration there (forward-mode twin of C18-5)",
    "C20-9": "two edits: one shared root node per node type + make_jvp sets the tangent on that shared root afterwards (forward-mode traces of two threads share a tangent)",
    "C20-10": "checkpoint memoises its recomputed VJP per checkpointed function in two dicts written at different times (threads sharing a checkpointed function)",
    "C01-11": 'power VJP for the base rewritten as y*ans/x with x==0 replaced by 1 (exponent exactly 1 at a zero base gets cotangent 0 instead of 1)',
    "C01-12": 'two edits: a new VJP rule for np.flip built on reverse_axis + reverse_axis rewritten so that a literal axis 0 counts from the back (flip along axis 0 of rank>=2 reverses the last axis of the cotangent)',
    "C02-11": 'p-norm JVP divides by ans**(ord-1) inside the contraction (reduced norm broadcast against the unreduced array: axis not first)',
    "C02-12": 'two edits: log_of_base projects log(x) to the kind of its second argument + the power JVP passes the exponent there (complex base, real exponent)',
    "C03-11": 'multiply VJP returns where(g == 0, 0, y*g): first order unchanged, derivative of the backward pass at a zero cotangent lost',
    "C03-12": "two edits: defjvp_argnum sums tangent terms in place into the first one + sparse_add's JVP returns its tangent itself (forward over reverse with a value feeding a sum and an index)",
    "C04-9": "tensordot_adjoint_0 sorts the contracted axes instead of ordering them by the partner's axes (axes=([0,1],[1,0]))",
    "C04-10": 'two edits: rollaxis VJP accepts negative axis/start (correct) + rollaxis JVP rewritten with moveaxis, wrong for negative arguments',
    "C05-11": "concatenate VJP builds the piece's slice as (slice(None),)*axis + ...: a negative axis slices axis 0",
    "C05-12": "two edits: repeat_to_match_shape returns g unchanged for kept size-1 reductions + std's complex promotion only for 0-d input (complex std over size-1 axes with keepdims gives a real gradient)",
    "C06-11": 'array() passes ndmin (and every other argument) down to each element of a list argument',
    "C06-12": 'two edits: dict() returns the plain dict unless a value is boxed + _make_dict sorts its entries (iteration order differs under tracing)',
    "C07-9": 'logaddexp VJP rewritten in the logistic form g/(1+exp(y-x)): second order is nan at saturated arguments',
    "C07-10": 'two edits: the second-order rule of dot_adjoint_1 loses match_complex + dot_adjoint_0 returns early without the dtype cast for stacked right operands (real A, complex B of rank>=3, both depending on the input)',
    "C08-11": 'find_top_boxed_args rewritten with itertools.groupby: top-level boxes separated by a lower-level box are dropped (three or more traced arguments in one call)',
    "C08-12": 'two edits: nodes of primitives tagged backward_only unbox their non-differentiated operands + dot/tensordot adjoints and untake are tagged (depth>=3 around a matrix product)',
    "C09-9": 'ifftshift VJP loses its outer conjugation (complex input)',
    "C09-10": "two edits: unbroadcast decides the projection to real from the dtype slot of its metadata + grad_cross puts the result's dtype there (cross of a real with a complex operand)",
    "C10-11": 'two edits: reduction VJPs take their zero block from a kept per-(shape,dtype) cache for >= 2**16 entries + make_rfft_factors takes its factor array from the same cache and fills it in place',
    "C10-12": 'replace_zero patches exact zeros in the array it was given (abs at 0 and power with a zero base modify the primal result / the operand)',
    "C13-9": 'vspace() memoises spaces by id(value) (a list or dict changed in place keeps its old space)',
    "C13-10": 'two edits: ndarray spaces decided by membership of the dtype in complex_scalar_types + clongdouble registered outside that list (clongdouble arrays get a real space)',
    "C14-9": "two edits: _make_dict VJP reads the cotangent by position + DictVSpace._map iterates sorted keys (a constant dict entry receives its neighbour's gradient)",
    "C14-10": 'nan_to_num VJP/JVP multiply by isfinite(x) instead of selecting with where (0*inf = nan when an infinite (co)tangent reaches a replaced entry)',
    "C15-9": "grad_eigh treats every UPLO other than 'L' as upper (lower-case 'l' used to fail loudly, now differentiates the wrong triangle)",
    "C15-10": 'two edits: repeat_to_match_shape swallows extra keywords + grad_np_sum forwards **kwargs (sum(where=mask) no longer raises in reverse mode and ignores the mask)',
    "C16-9": 'grad_named memoises the argument position by (module, qualname, argname): two functions of the same qualified name share it',
    "C16-10": 'two edits: SequenceVSpace._subval misses negative indices + VSpace._mut_add no longer updates in place (gradient entries read with negative indices come back zero)',
    "C18-9": 'two edits: Python int registered with ArrayVSpace + with ArrayBox (an int point gets an integer space whose random directions are zero: forward check accepts anything)',
    "C18-10": 'make_numerical_jvp rewinds the global RNG state before every evaluation (tangent and projection vector coincide: antisymmetric Jacobian errors pass)',
    "C20-11": "two edits: unbroadcast skips the projection to real while a module flag is set + holomorphic_grad sets that flag for the duration of the call (another thread's backward pass sees it)",
    "C20-12": 'const_graph keeps its replay value table in the closure instead of per call (concurrent replays of one recorded function mix values)',
    "C11-9": 'concatenate VJP takes a stack-like shortcut when the result has as many entries along the axis as there are pieces (an empty piece among indexed selections)',
    "C11-10": 'two edits: find_top_boxed_args keeps occurrences of the same box adjacent + defvjp_argnum builds its VJPs over sorted(argnums) (concatenate([y, z, y]) swaps cotangents)',
    "C12-9": 'two edits: DictVSpace._map builds results in sorted key order + _make_dict VJP reads the cotangent by position (dict(...) of traced values with unsorted keys)',
    "C12-10": 'container_untake accumulates slice cotangents with `a + b` (nested sequences are concatenated instead of added)',
    "C17-9": 'find_top_boxed_args sorts (trace, argnum, box) descending: argnums / parents / tangents arrive in descending position order (positional-style defvjp_argnums / defjvp_argnums rules)',
    "C17-10": "two edits: defjvp_argnums also stores rules under the raw function + JVPNode falls back to that entry (a primitive without a forward rule borrows a sibling wrapper's)",
    "C19-11": "unary_to_nary keeps the call's (args, kwargs) in a dict owned by the operator object (a lazily evaluated make_jvp result runs with the arguments of the last call)",
    "C19-12": "two edits: roots built from plain Python numbers are cached and reused + make_jvp zeroes its root's tangent after the evaluation (a second forward-mode call with an equal tangent gets a zero tangent)",
    "C20-3": "TraceStack.__init__ with a mutable default list shared by all threads",
    "C20-4": "trace() saves/restores the depth through a module-level list shared by all threads",
}

ALSO = {  # other quick checks observed to report the change in targeted runs (not an exhaustive matrix)
    "C03-1": ["C08", "C14"], "C04-1": ["C02"], "C04-2": ["C02"], "C05-1": ["C01"], "C05-2": ["C01", "C14", "C17"], "C06-2": ["C12"],
    "C07-1": ["C01"], "C07-2": ["C16"], "C09-1": ["C01"], "C09-2": ["C05"], "C14-1": ["C08"], "C14-2": ["C01", "C05", "C17"],
    "C15-2": ["C17"], "C17-1": ["C01", "C14"], "C03-2": ["C17"], "C01-2": ["C09"], "C05-4": ["C12"], "C03-3": ["C11"], "C07-3": ["C03", "C08", "C14"], "C19-4": ["C10"], "C04-3": ["C10", "C11"], "C04-4": ["C01"], "C08-3": ["C07", "C16"], "C08-4": ["C19"], "C11-4": ["C10"], "C15-4": ["C01"], "C13-4": ["C10"],
}


def main():
    own = {}
    tsv = os.path.join(HERE, "seeded", "own.tsv")
    if os.path.exists(tsv):
        for l in open(tsv):
            p = l.rstrip("\n").split("\t")
            if len(p) >= 5:
                own[p[0]] = (p[1], p[2], p[3], p[4])
    rows = []
    for d in sorted(os.listdir(os.path.join(HERE, "seeded"))):
        path = os.path.join(HERE, "seeded", d)
        if not os.path.isfile(os.path.join(path, "patch.diff")):
            continue
        prop = d.split("-")[0]
        notes = open(os.path.join(path, "notes.md")).read() if os.path.exists(os.path.join(path, "notes.md")) else ""
        files = sorted(set(re.findall(r"^\+\+\+ b/(\S+)", open(os.path.join(path, "patch.diff")).read(), re.M)))
        ver = open(os.path.join(path, "verify.log")).read() if os.path.exists(os.path.join(path, "verify.log")) else ""
        o = own.get(d)
        meta = {
            "id": d, "breaks_property": prop, "one_line": DESC.get(d, ""), "files_touched": files,
            "origin": "independent sub-agent given only the property text and a scratch worktree of /repo (nothing from /verif)",
            "needs_to_manifest": next((ln.strip("- *").strip() for ln in notes.splitlines() if re.search(r"[Tt]rigger|needed|manifest", ln)), notes[:300]),
            "what_i_ran": [
                f"seeded/verify.sh {d}: demo.py exits 0 on a clean scratch copy of /repo; the patch applies; the repository's test suite passes with it "
                "(496 passed, 1 skipped); demo.py exits non-zero with it",
                f"mutants/run_mutant.sh seeded/{d}/patch.diff {prop}: quick check of the property against a patched scratch copy (VERIF_REPO); /repo is never modified",
            ],
            "verify_log_tail": ver[-400:],
            "detected_by_own_property_check": bool(o and o[1] == "1"),
            "own_check_result": {"check": o[0], "exit": int(o[1]), "violations": int(o[2]), "first": o[3]} if o else None,
            "also_detected_by": ALSO.get(d, []),
        }
        json.dump(meta, open(os.path.join(path, "meta.json"), "w"), indent=1)
        det = f"**{o[0]}**" if o and o[1] == "1" else "-"
        rows.append(f"| {d} | {DESC.get(d, '')} | {det} | {', '.join(ALSO.get(d, []))} |")
    p = os.path.join(HERE, "DESIGN.md")
    s = open(p).read()
    head = "| id | change | own check | also |\n|---|---|---|---|\n"
    i = s.index(head) + len(head)
    j = s.index("\n\n", i)
    s = s[:i] + "\n".join(rows) + s[j:]
    open(p, "w").write(s)
    missed = [r.split("|")[1].strip() for r in rows if "| - |" in r]
    print(len(rows), "seeded changes;", "not detected by own check:", missed)


if __name__ == "__main__":
    main()
