#!/bin/sh
# dev tool: run every registered quick (or $1=thorough) check and print one line each with its exit code
cd "$(dirname "$0")"
tier=${1:-quick}
for p in $(/venv/bin/python -c "import json; print(' '.join(c['property_id'] for c in json.load(open('MANIFEST.json'))['checks']))"); do
  out=$(./check $p --tier $tier 2>&1); rc=$?
  echo "$p exit=$rc $(echo "$out" | grep -c '^VIOLATION') violations; $(echo "$out" | tail -1 | cut -c1-200)"
  [ $rc -ne 0 ] && echo "$out" | grep -E "^VIOLATION|^HARNESS|bucket=" | head -10
done
