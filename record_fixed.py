"""Dev tool: rebuild the `fixed` section of known_findings.json from /repo's `fix:` commits and the pin table below."""
import json
import subprocess

PINS = {  # substring of the commit subject -> (property, [pinned replay files])
    "transpose VJP": ("C01", ["regress/C01/transpose-neg-axes.json"]),
    "repeat VJP": ("C01", ["regress/C01/repeat-neg-axis.json"]),
    "tile VJP": ("C01", ["regress/C01/tile-short-reps.json"]),
    "where VJP": ("C01", ["regress/C01/where-broadcast.json"]),
    "full VJP": ("C01", ["regress/C01/full-array-fill.json"]),
    "triu/tril": ("C01", ["regress/C01/tri-1d.json"]),
    "outer VJP": ("C01", ["regress/C01/outer-nd.json"]),
    "cross VJP unbroadcasts to the operand": ("C01", ["regress/C01/cross-broadcast.json"]),
    "rfft/irfft VJPs honour": ("C01", ["regress/C01/rfft-norm.json", "regress/C01/irfft-norm.json"]),
    "fft2/fftn VJPs": ("C01", ["regress/C01/fftn-repeated-axes.json"]),
    "norm raises for ord=inf": ("C01", ["regress/C01/norm-inf.json"]),
    "kron VJP": ("C01", ["regress/C01/kron-nd.json"]),
    "diag VJP": ("C01", ["regress/C01/diag-nonsquare.json"]),
    "1-D FFT VJPs": ("C01", ["regress/C01/rfft-n-keyword.json"]),
    "matrix norm rules": ("C01", ["regress/C01/norm-negative-axis-pair.json", "regress/C01/norm-nuc-mixed-axis.json"]),
    "diagonal VJP": ("C01", ["regress/C01/diagonal-nonsquare.json"]),
    "diff VJP returns zeros": ("C01", ["regress/C01/diff-n-ge-len.json"]),
    "array() VJP accounts": ("C01", ["regress/C01/array-ndmin.json"]),
    "solve VJPs": ("C01", ["regress/C01/solve-broadcast.json"]),
    "sort/partition JVPs": ("C02", ["regress/C02/sort-jvp-nd.json", "regress/C02/partition-jvp-nd.json"]),
    "array() JVP": ("C02", ["regress/C02/array-ndmin-jvp.json"]),
    "max/min JVP": ("C02", ["regress/C02/chooser-jvp-mixed-sign-axes.json"]),
    "concatenate VJP returns a real": ("C09", ["regress/C09/concat-real-with-complex.json"]),
    "array() VJP returns a real": ("C09", ["regress/C09/array-real-with-complex.json"]),
    "linspace VJP returns a real": ("C09", ["regress/C09/linspace-real-with-complex.json"]),
    "inner VJP returns a real": ("C09", ["regress/C09/inner-real-with-complex.json"]),
    "einsum (operand/sublist form)": ("C09", ["regress/C09/einsum-list-real-with-complex.json"]),
    "make_diagonal keeps": ("C09", ["regress/C09/diagonal-complex.json"]),
    "norm VJP/JVP follow the complex": ("C09", ["regress/C09/norm-complex-rev.json", "regress/C09/norm-complex-fwd.json"]),
    "slogdet VJP includes": ("C09", ["regress/C09/slogdet-complex-sign.json"]),
    "pinv VJP is correct for complex": ("C09", ["regress/C09/pinv-complex-nonsquare.json"]),
}
PINS.update({
    "diff VJP zero cotangent": ("C05", ["regress/C05/diff-empty-complex.json"]),
    "linspace JVP returns a tangent": ("C05", ["regress/C05/linspace-jvp-mixed.json"]),
    "where JVP returns a tangent in the output's space": ("C05", ["regress/C05/where-jvp-mixed.json"]),
})
PINS["select returns numpy"] = ("C06", ["regress/C06/select-mixed-dtype.json"])
PINS["gradient of x[list_of_bools]"] = ("C11", ["regress/C11/bool-list-index.json"])
PINS["indexed and dense contributions to a 0-d"] = ("C11", ["regress/C11/rank0-sparse-dense.json"])
PINS["trace-depth counter is per thread"] = ("C20", ["regress/C20/shared-trace-counter.json"])
PINS["cumsum VJP returns a cotangent of the argument"] = ("C15", ["regress/C15/cumsum-0d-axis.json"])
PINS["linspace VJP unbroadcasts"] = ("C01", ["regress/C01/linspace-broadcast.json"])
PINS["linspace JVP broadcasts"] = ("C02", ["regress/C02/linspace-broadcast-jvp.json"])
PINS["absolute has a finite"] = ("C01", ["regress/C01/absolute-at-zero.json", "regress/C02/absolute-at-zero-jvp.json"])
PINS["linspace VJP contracts the sample axis"] = ("C01", ["regress/C01/linspace-rank2.json"])
PINS["eigh VJP keeps the eigenvector term"] = ("C07", ["regress/C07/eigh-zero-cotangent-guard.json"])
PINS["list-form einsum VJP sums the broadcast axes"] = ("C01", ["regress/C01/einsum-list-trailing-ellipsis.json"])
PINS["einsum VJP repeats a labelled axis"] = ("C05", ["regress/C05/einsum-size-one-label.json"])
PINS["diff JVP gives the prepend/append constants"] = ("C02", ["regress/C02/diff-prepend-jvp.json"])
PINS["sum JVP leaves the initial= constant"] = ("C02", ["regress/C02/sum-initial-jvp.json"])
PINS["pad JVP keeps the keywords"] = ("C02", ["regress/C02/pad-mode-kwargs-jvp.json"])
PINS["reshape/ravel rules treat lower-case order"] = ("C02", ["regress/C02/ravel-lowercase-order-jvp.json"])
PINS["max/min/var/std JVPs also accept a 0-d integer array"] = ("C02", ["regress/C02/chooser-jvp-0d-array-axis.json"])
PINS["array(x, dtype=complex) VJP returns a real cotangent"] = ("C01", ["regress/C01/array-dtype-complex-real-input.json"])
PINS["sum(x, dtype=complex) VJP returns a real cotangent"] = ("C01", ["regress/C01/sum-dtype-complex-real-input.json"])
PINS["cholesky VJP handles complex Hermitian"] = ("C09", ["regress/C09/cholesky-complex-hermitian.json"])
PINS["trace levels are unique and increasing"] = ("C20", ["regress/C20/nested-differentiation-in-worker-thread.json"])
PINS["conversions to an integer or boolean type"] = ("C14", ["regress/C14/cast-to-int-passes-gradient.json"])
PINS["arccosh rules follow the principal branch"] = ("C09", ["regress/C09/arccosh-left-half-plane.json"])
PINS["power rules use the complex logarithm"] = ("C09", ["regress/C09/power-negative-base-complex-exponent.json"])
PINS["cross VJP reduces broadcast batch axes"] = ("C01", ["regress/C01/cross-axis-kwargs-broadcast.json"])
PINS["solve VJP treats a 1-D right-hand side"] = ("C01", ["regress/C01/solve-stacked-matrices-vector-rhs.json"])
PINS["split / array_split VJP for cut points"] = ("C01", ["regress/C01/split_cuts_not_tiling.json", "regress/C01/array_split_cuts_not_tiling.json"])
PINS["tanh rules use (1 + tanh x)(1 - tanh x)"] = ("C07", ["regress/C07/tanh-saturated-forward-over-reverse.json"])
PINS["maximum/minimum/fmax/fmin JVPs return a tangent of the output"] = ("C05", ["regress/C05/maximum-jvp-complex-partner.json"])
PINS["power rule for the base replaces the exponent only at"] = ("C07", ["regress/C07/power-traced-exponent-zero.json"])
PINS["grad_and_aux refuses non-scalar and complex first outputs"] = ("C15", ["regress/C15/grad-and-aux-array-output.json", "regress/C15/grad-and-aux-complex-output.json"])
PINS["grad_named counts positions among the parameters"] = ("C16", ["regress/C16/grad-named-bound-method.json", "regress/C16/grad-named-callable-object.json"])
PINS["resolve a negative argnum among the function"] = ("C16", ["regress/C16/htp-negative-argnum.json", "regress/C16/tjp-negative-argnum.json"])
PINS["traced tuples, lists and dicts compare by value"] = ("C06", ["regress/C06/traced-sequence-equality.json", "regress/C06/traced-dict-equality.json"])
PINS["concat (NumPy 2"] = ("C15", ["regress/C15/concat-alias-rev.json", "regress/C15/concat-alias-fwd.json"])
PINS["const_graph keeps its function until a recording call has succeeded"] = ("C19", ["regress/C19/recorded-graph-first-call-fails.json"])
PINS["signbit, isin, digitize, lexsort, nanargmax"] = ("C14", ["regress/C14/signbit-is-not-differentiable.json", "regress/C14/isin-is-not-differentiable.json", "regress/C14/isrealobj-is-a-type-query.json"])
PINS["ArrayVSpace.scalar_mul stays in its space"] = ("C13", ["regress/C13/scalar-mul-float32-array.json", "regress/C13/scalar-mul-complex64.json"])
PINS["rfft/irfft family VJPs resolve an entry -1"] = ("C01", ["regress/C01/rfftn-s-minus-one.json"])
PINS["transform the cotangent with the resolved lengths"] = ("C01", ["regress/C01/rfft2-s-last-minus-one.json"])
PINS["applies to floating-point inputs only"] = ("C15", ["regress/C15/int-stack-forward-tangent.json"])
PINS["clip VJP reduces its cotangent"] = ("C01", ["regress/C01/clip-array-bounds-broadcast.json"])
PINS["max/min/var/std JVPs accept an axis"] = ("C02", ["regress/C02/chooser-jvp-numpy-int-axis.json"])
PINS["FFT VJPs recognise a repeated axis"] = ("C01", ["regress/C01/fftn-repeated-axes-mixed-sign.json"])
PINS["reshape/ravel rules resolve order"] = ("C01", ["regress/C01/ravel-order-A-fortran-input.json", "regress/C02/reshape-order-A-fortran-input.json"])
PINS["broadcast_to VJP also sums an axis"] = ("C05", ["regress/C05/broadcast-to-empty-target.json"])
PINS["where JVP returns a tangent of the output's shape"] = ("C05", ["regress/C05/where-jvp-small-condition.json"])
EXTRA = {}


def main():
    import os
    here = os.path.dirname(os.path.abspath(__file__))
    log = subprocess.check_output(["git", "-C", "/repo", "log", "--format=%h %s", "--reverse"]).decode().splitlines()
    kf = json.load(open(os.path.join(here, "known_findings.json")))
    kf["fixed"] = []
    missing = []
    for line in log:
        sha, msg = line.split(" ", 1)
        if not msg.startswith("fix:"):
            continue
        hit = [(k, v) for k, v in PINS.items() if k in msg]
        if len(hit) != 1:
            missing.append(msg)
            continue
        prop, pins = hit[0][1]
        for p in pins:
            assert os.path.exists(os.path.join(here, p)), p
        kf["fixed"].append({"status": "fixed", "property": prop, "commit": sha, "what": msg[5:], "pinned": pins,
                            "line": f"fixed: property={prop} {sha} {msg[5:]}"})
    json.dump(kf, open(os.path.join(here, "known_findings.json"), "w"), indent=1)
    print(len(kf["fixed"]), "fixed records;", "UNMAPPED:" if missing else "", missing)


if __name__ == "__main__":
    main()
