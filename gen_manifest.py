"""Regenerate MANIFEST.json from the table below (dev tool; the committed MANIFEST.json is what counts)."""
import json

CHECKS = {}


def check(pid, category, text, note, technique, design_ref):
    CHECKS[pid] = {
        "property_id": pid,
        "quick_cmd": f"./check {pid} --tier quick",
        "thorough_cmd": f"./check {pid} --tier thorough",
        "evidence_file": f"evidence/{pid}.json",
        "replay_cmd_template": f"./check {pid} --replay {{path}}",
        "engine": "vh",
        "level_claimed": {"category": category, "text": text, "design_ref": design_ref},
        "level_note": note,
        "technique": technique,
    }


check("C01", "exploration",
      "Generated call configurations of every templated primitive (ranks 0-4, broadcast patterns, axis forms, kwargs, argnum, call form) "
      "are differentiated in reverse mode and compared with a Ridders-extrapolated Jacobian of raw NumPy; explicit kink cases are checked "
      "against one-sided derivatives. Held on everything explored; absence of violations outside the explored set is not shown.",
      "Trusted: NumPy primal functions, Hypothesis, the oracle code (self-tested each run). Generic points only; sizes <= 4 per side.",
      "property-based testing (Hypothesis) with a numerical-differentiation oracle on raw NumPy", "DESIGN.md 3.1, C01")
check("C02", "exploration",
      "Same generated configurations in forward mode: make_jvp tangents against Ridders directional derivatives of raw NumPy, tangent "
      "shape/kind equal to the NumPy output's.",
      "Trusted: NumPy primal functions, Hypothesis, the oracle code (self-tested each run). Generic points only.",
      "property-based testing (Hypothesis) with a numerical-differentiation oracle on raw NumPy", "DESIGN.md C02")

check("C03", "exploration",
      "Generated scalar programs over logged user primitives and built-in ops (multi-edges, diamonds, dead results, value-steered "
      "if/loop/recursion) are differentiated in both modes and compared with a reference tape; every derivative rule's call count and "
      "the cotangent it saw are compared with the reference's liveness and total cotangents; toposort is checked on explicit multigraphs.",
      "Trusted: the ~100-line reference tape (its forward and reverse sweeps are cross-checked on every case), Hypothesis.",
      "property-based testing (Hypothesis): generated programs against a reference-model interpreter; validity predicate for toposort", "DESIGN.md C03")
check("C08", "exploration",
      "Generated expression trees with nested differential operators (depth 2-4, every level's mode drawn independently, closures over "
      "any enclosing variable, evaluation points depending on outer variables) are evaluated by autograd and by a reference symbolic "
      "differentiator with unique binders; plus vector-valued nestings against closed forms.",
      "Trusted: the reference symbolic differentiator (no shared code with autograd), float evaluation at 1e-9.",
      "property-based testing (Hypothesis): generated nested-derivative programs against a symbolic reference differentiator", "DESIGN.md C08")

check("C09", "exploration",
      "Every complex-capable template with each argument independently real or complex: reverse mode against conj(J_R^T conj g) and forward "
      "mode against J_R v, J_R from Ridders differentiation of raw NumPy along real and imaginary directions; cotangent complex iff the "
      "argument is; generated holomorphic programs (holomorphic_grad == complex derivative, Cauchy-Riemann verified on the oracle side), real "
      "losses of complex parameters, and real->real programs through FFT round trips against purely real implementations.",
      "Trusted: NumPy's complex primal functions, the Ridders oracle (self-tested), closed-form real implementations of the round-trip programs.",
      "property-based testing (Hypothesis) with a realified numerical-differentiation oracle and metamorphic real/complex relations", "DESIGN.md C09")

check("C04", "exploration",
      "Every template case and generated array compositions in which both modes return: <g, jvp(v)> == <vjp(g), v> and linearity of both "
      "maps at 1e-10 relative - exact algebraic identities between the two independently written rule tables, no finite differences.",
      "Trusted: floating-point rounding model behind the 1e-10 tolerance; identities say nothing when both rule tables share the same mistake (C01/C02 cover that).",
      "property-based testing (Hypothesis) with algebraic-identity oracles (adjointness, linearity)", "DESIGN.md C04")
check("C05", "exploration",
      "Every template case under kind mixing (real/complex, scalar carriers, broadcast partners, reduced-precision dtypes): vspace(result) == "
      "vspace(argument) for make_vjp / elementwise_grad / grad / value_and_grad and vspace(tangent) == vspace(output) for make_jvp.",
      "Trusted: autograd.core.vspace as the structure predicate (the suite's own assertion).",
      "property-based testing (Hypothesis) with a structural (vector-space equality) oracle", "DESIGN.md C05")

check("C06", "exploration",
      "Every template case under generated mode stacks of depth 1-3 and through value_and_grad / grad_and_aux, ~110 argument forms of the "
      "re-implemented wrappers and methods, and isinstance/type queries on boxes: the primal value must equal raw NumPy's result exactly "
      "(structure, shape, dtype, bits), contain no tracer, and leave inputs unmodified.",
      "Trusted: raw NumPy as the reference. Scalar Python-operator expressions are compared to 4 ulp (they are evaluated by different scalar/array kernels, not re-executed NumPy calls).",
      "property-based testing (Hypothesis) with a differential oracle against raw NumPy (exact equality)", "DESIGN.md C06")
check("C07", "exploration",
      "Every real template case post-composed with a smooth nonlinearity, and generated array compositions: Hessian-vector products by "
      "rev/rev, fwd/rev, rev/fwd, fwd/fwd must agree (1e-9), be symmetric, and match the second central difference of raw NumPy (1e-6); scalar "
      "expression programs at orders 3-4 under every mode sequence against the symbolic reference differentiator.",
      "Trusted: second-difference oracle (self-tested, regularity guard), symbolic reference differentiator.",
      "property-based testing (Hypothesis): metamorphic mode-agreement/symmetry relations plus numerical and symbolic oracles", "DESIGN.md C07")

check("C11", "exploration",
      "Generated NumPy index expressions of every kind (ints, negative, stepped / out-of-range slices, Ellipsis, None, integer arrays and "
      "nested lists with repeats and broadcasting, boolean masks as arrays and lists, 0-d integer arrays, empty lists, chained indexing) on "
      "arrays of rank 0-4 against the bincount scatter model; generated mixing programs with k sparse and m dense / pass-through uses of one "
      "value in every order and association against the sum of dense contributions.",
      "Trusted: NumPy's indexing applied to arange(size) as the position oracle.",
      "property-based testing (Hypothesis) with a reference model (dense scatter by bincount)", "DESIGN.md C11")

check("C10", "exploration",
      "Model-based histories over one (vjp, jvp) pair of a generated program (array compositions with pass-through rules, fan-out, sparse "
      "and dense uses, captured constants; container programs built with autograd's tuple/list/dict): after every step all user-visible "
      "buffers are byte-identical to their snapshots (and read-only, so writes raise), every vjp(g) equals bitwise a freshly built VJP "
      "called once, and scaling is linear.",
      "Trusted: SHA-256 snapshots; deterministic backward pass for an identical graph. Histories are drawn step sequences (<= 30 steps) in the "
      "same choice-sequence framework as every other check, so they shrink and replay as one value.",
      "stateful / model-based property testing (Hypothesis-drawn operation sequences with invariants after every step)", "DESIGN.md C10")
check("C12", "exploration",
      "Generated nested tuples/lists/dicts and access programs (index, slice, + on either side, iteration, unpacking, dict methods, "
      "re-packing with constants, inner functions): gradient leaves against routing computed by running the same program on plain "
      "containers of ids; structure equality; primal equality; forward mode; container-valued outputs; flatten round trips, linearity and "
      "commutation with grad.",
      "Trusted: plain Python container semantics as the routing oracle.",
      "property-based testing (Hypothesis) with a reference model (plain-container routing) and round-trip laws", "DESIGN.md C12")
check("C13", "exploration",
      "Values of every registered type/dtype/shape/nesting (incl. 0-d, size 0, reduced and extended precision, dicts with different key "
      "order): vector-space laws (exact where the law is exact), inner-product laws, basis orthonormality/completeness/size, closure, "
      "space equality iff structure/shape/dtype agree, freshness of mut_add(None, x).",
      "Trusted: dyadic-rational test values make exact laws exactly checkable; tolerances 64*eps*(size+1) elsewhere.",
      "property-based testing (Hypothesis) with algebraic-law oracles", "DESIGN.md C13")

check("C14", "exploration",
      "Generated constant programs (output independent of the argument, or dependent only through shape/type queries, comparisons, the "
      "non-differentiable set, a where-condition, or an enclosing level's variable) x output kinds x argument kinds x 12 operators, also "
      "evaluated inside an outer reverse/forward differentiation: the result must be exact zeros of the right space. Every entry of the "
      "non-differentiable list (enumerated at run time, all 49 covered) in every positional slot: plain NumPy-equal value and type, local "
      "constancy confirmed by NumPy, composition law exact in both modes.",
      "Trusted: raw NumPy for reference values and local constancy.",
      "property-based testing (Hypothesis) with exact-zero / differential oracles and a metamorphic composition law", "DESIGN.md C14")

check("C16", "exploration",
      "Closed-form tensor functions (input and output ranks 0-3) and a two-argument scalar function under drawn signatures (extra positional "
      "and keyword parameters, argnum as int / tuple / list / name): every public differential operator is compared with the closed-form "
      "Jacobian / Hessian and their contractions at 1e-10.",
      "Trusted: the closed-form derivatives of the generated function family, evaluated with raw NumPy.",
      "property-based testing (Hypothesis) with closed-form oracles", "DESIGN.md C16")

check("C17", "exploration",
      "Generated user primitives (arity 1-5, polynomial with closed-form partials, keyword parameter) registered through every public "
      "registration API with rule / None / missing patterns, arguments assigned to trace levels of a depth-2 nesting: first derivatives, "
      "mixed partials, forward mode, logged ans/args/kwargs, rule routing, loud failure for missing rules, zeros of the argument's space for "
      "None positions, VJP reuse; checkpoint: value and reverse derivatives of order 1-3 incl. mixed partials equal the un-wrapped function.",
      "Trusted: closed-form partials of the polynomial family.",
      "property-based testing (Hypothesis) with closed-form oracles and a differential (checkpoint vs plain) oracle", "DESIGN.md C17")

check("C18", "exploration",
      "Cells (primitive family x shape x planted defect x defective rule x requested modes x order) x 100/300 seeded trials of "
      "autograd.test_util.check_grads: correct primitives must never be rejected; for defect cells the miss count is tested against the "
      "stated 0.99 rejection probability with an exact one-sided binomial tail at 1e-6.",
      "Statistical decision rule (deterministic given the seeds); numpy.random's global generator is seeded per trial from the case and restored.",
      "property-based testing (Hypothesis-generated cells) with a planted-defect oracle and a binomial decision rule", "DESIGN.md C18")

check("C19", "fault_enumeration",
      "Model-based histories over the process: successful nested differentiations, injected faults (k-th forward operation, backward/forward "
      "rule, trace exit via warning-as-error) at nesting depth 1-3 under every mode assignment, caught at every enclosing level (which then "
      "continues and must return the closed-form value) or not at all, VJP closures that fail part-way and are called again, re-entrant rules "
      "and recursion; after every step a 25-entry canary table is bitwise equal to the table of a fresh subprocess and registries are preserved.",
      "Trusted: the fresh-subprocess canary table as 'fresh interpreter' reference; faults are injected through user code only.",
      "stateful / model-based property testing with fault injection (Hypothesis-drawn histories, invariants after every step)", "DESIGN.md C19")

check("C20", "exploration",
      "Generated sets of 2-4 thread programs (first-order, nested with closures, mixed-mode, HVP, jacobian, depth 3) with yield points at trace "
      "entry, between operations, before trace exit and between API calls, run under a drawn schedule by a deterministic one-thread-at-a-time "
      "scheduler; each thread's result must be bitwise equal to its solo run. Plus a bounded-exhaustive sweep of all schedules of length 8/12 "
      "for canonical 2-thread pairs.",
      "The scheduler owns interleavings at yield-point granularity (user code); pre-emption inside one autograd-internal statement is not explored.",
      "property-based testing over thread schedules (Hypothesis-drawn schedules on a deterministic scheduler) plus bounded-exhaustive schedule enumeration", "DESIGN.md C20")

check("C15", "exploration",
      "Namespace sweep over every exported callable with a NumPy twin (numpy, linalg, fft, random) and every ndarray method/attribute on a traced "
      "array x 35 typed argument templates with the differentiated array in slot 0/1/2: applicable pairs (NumPy accepts, float output varies "
      "smoothly) must either raise or return the Ridders derivative of raw NumPy - never zero/independent/wrong; explicit contracts that must "
      "raise (grad of array/complex outputs, non-differentiable input types, assignment into traced arrays, mixed rule/no-rule arguments); "
      "~110 pinned unsupported-option configurations under the raise-or-right oracle; integer arrays as the differentiated argument (45 function families, both modes) under a raise-or-equal-the-float-input-result oracle.",
      "A callable is accused only for templates NumPy accepts from the typed pools; callables with no applicable template are listed in the evidence.",
      "property-based testing / API fuzzing (Hypothesis) with a three-way oracle (raise, or match the numerical derivative of raw NumPy)", "DESIGN.md C15")

NOT_YET = {}


def main():
    import os
    props = [json.loads(l) for l in open(os.path.join(os.path.dirname(__file__), "properties.jsonl"))]
    ids = [p["id"] for p in props]
    man = {
        "version": 1,
        "setup_cmd": "./setup.sh",
        "hooks": {
            "guard": "HIPS_AUTOGRAD_VERIF",
            "enable": "no source hooks are needed: checks import autograd from /repo's working tree (VERIF_REPO overrides) and observe it through the public API",
            "baseline_off_cmd": "cd /repo && /venv/bin/python -m pytest -q -p no:cacheprovider",
            "source_commits": [],
            "add_only": True,
        },
        "engines": [{"name": "vh", "path": "vh/", "serves_properties": sorted(CHECKS), "kind_free_text":
                     "Hypothesis-driven property-based testing harness: choice-sequence cases, sharded runs, collect-then-shrink, replay files"}],
        "checks": [CHECKS[i] for i in ids if i in CHECKS],
        "not_applicable": [{"property_id": i, "reason": NOT_YET.get(i, "check not built yet in this revision (planned, see DESIGN.md section 3)")}
                           for i in ids if i not in CHECKS],
        "notes": "All checks: exit 0 held / 1 with VIOLATION lines / 2 harness error. VERIF_SEED and VERIF_TIER are honoured. "
                 "Genuine defects found were repaired by fix: commits in /repo (known_findings.json lists them under 'fixed' with their pinned replay "
                 "cases); five defects are recorded as open known findings instead (known_findings.json 'findings': C15 integer-array gradients "
                 "rounded to integers; C15 np.sign of a complex value treated as a constant; C17 checkpoint of a function closing over a value traced at "
                 "the same level; C05 a list / tuple argument passed whole to a NumPy function gets an ndarray gradient; C08 a fixed_point map closing over a value another level differentiates): the check prints a KNOWN-FINDING "
                 "line for each and exits 0, any other violation of those properties is still a VIOLATION.",
    }
    with open(os.path.join(os.path.dirname(__file__), "MANIFEST.json"), "w") as f:
        json.dump(man, f, indent=1)


if __name__ == "__main__":
    main()
