"""Hypothesis driver shared by all properties.

* seeding: every shard of every test is `@hypothesis.seed(mix64(VERIF_SEED, test, shard, round))`
* sharding over a fork pool (<= 16 workers)
* collect-then-shrink: failures matching an open known finding are counted and generation goes on;
  an unmatched failure is shrunk (bounded), saved as a replay file, its bucket excluded, and the
  test re-run (<= 4 further rounds) so root causes behind the first one are also reported
* evidence writing and exit codes (0 held / 1 VIOLATION / 2 harness error)
"""
import ast
import collections
import fnmatch
import glob
import json
import multiprocessing
import os
import sys
import time
import traceback

import hypothesis
from hypothesis import HealthCheck, Phase, given, settings
from hypothesis import strategies as st

from . import env
from .case import Case, HypCase, Outcome, Reject, ReplayCase, StaleReplay, UniformCase

SHRINK_CAP = {"quick": 250, "thorough": 1500}
MAX_ROUNDS = 5


CASE_TIMEOUT_S = int(os.environ.get("VERIF_CASE_TIMEOUT", "30"))
MEM_LIMIT = int(os.environ.get("VERIF_MEM_LIMIT_GB", "6")) << 30


class CaseFailure(Exception):
    pass


class CaseTimeout(BaseException):
    """Harness safety only: a single case exceeded CASE_TIMEOUT_S (counted as inconclusive, never a violation)."""


def _on_alarm(signum, frame):
    raise CaseTimeout()


def run_body(test, case):
    """Run one case under the watchdog."""
    import signal

    old = signal.signal(signal.SIGALRM, _on_alarm)
    signal.alarm(CASE_TIMEOUT_S)
    try:
        return test.body(case)
    except CaseTimeout:
        return Outcome("inconclusive", kind="harness_timeout", detail=f"case exceeded {CASE_TIMEOUT_S}s")
    except MemoryError:
        return Outcome("inconclusive", kind="harness_memory", detail="case exceeded the memory limit")
    except (Reject, StaleReplay):
        raise
    except Exception as e:
        # An exception that escaped the body: if it passed through autograd code it is autograd's behaviour on a generated
        # case (a failure, or an allowed "missing rule" signal); anything else is a harness bug and propagates (exit 2).
        from .case import describe_exc, exc_bucket, from_autograd

        if type(e).__module__.startswith("hypothesis") or not from_autograd(e):
            raise
        if isinstance(e, NotImplementedError) and "not defined" in str(e) and ("VJP of" in str(e) or "JVP of" in str(e)):
            return Outcome("raised", kind=exc_bucket(e), detail=str(e)[:200])
        return Outcome("fail", kind="unexpected_exception", detail="uncaught: " + describe_exc(e), bucket=f"{test.name}|uncaught_exception")
    finally:
        signal.alarm(0)
        signal.signal(signal.SIGALRM, old)


def _limit_memory():
    try:
        import resource

        resource.setrlimit(resource.RLIMIT_AS, (MEM_LIMIT, MEM_LIMIT))
    except Exception:
        pass


class Test:
    def __init__(self, name, body, quick, thorough, shard_size=200, group=None):
        self.name = name
        self.body = body
        self.cases = {"quick": quick, "thorough": thorough}
        self.shard_size = shard_size
        self.group = group or name


class Prop:
    def __init__(self, pid, tests, rule, level="exploration", assumptions=(), finalize=None, selftest=None,
                 extra_main=None):
        self.pid = pid
        self.tests = tests
        self.rule = rule
        self.level = level
        self.assumptions = list(assumptions)
        self.finalize = finalize  # callable(agg) -> dict of extra coverage keys
        self.selftest = selftest  # callable() raising HarnessError
        self.extra_main = extra_main  # callable(tier, seed) -> (evaluations, nontrivial_keys, samples, violations, extra)


# ------------------------------------------------------------------------------------------------
# known findings


def load_known(pid):
    path = os.path.join(env.VERIF_DIR, "known_findings.json")
    if not os.path.exists(path):
        return []
    with open(path) as f:
        recs = json.load(f)
    return [r for r in recs.get("findings", []) if r.get("status") == "open" and r.get("property") == pid]


_ALLOWED_NODES = (
    ast.Expression, ast.BoolOp, ast.And, ast.Or, ast.UnaryOp, ast.Not, ast.USub, ast.Compare, ast.Eq, ast.NotEq,
    ast.Lt, ast.LtE, ast.Gt, ast.GtE, ast.In, ast.NotIn, ast.Is, ast.IsNot, ast.Name, ast.Load, ast.Constant,
    ast.Tuple, ast.List, ast.Call, ast.BinOp, ast.Add, ast.Sub, ast.Mult, ast.Mod, ast.Subscript,
)
_FUNCS = {"min": min, "max": max, "len": len, "abs": abs, "any": any, "all": all, "str": str, "int": int}


def eval_when(expr, features):
    if not expr:
        return True
    tree = ast.parse(expr, mode="eval")
    for node in ast.walk(tree):
        if not isinstance(node, _ALLOWED_NODES):
            raise env.HarnessError(f"known_findings 'when' uses forbidden syntax {type(node).__name__}: {expr}")
        if isinstance(node, ast.Call) and not (isinstance(node.func, ast.Name) and node.func.id in _FUNCS):
            raise env.HarnessError(f"known_findings 'when' calls a forbidden function: {expr}")
    names = dict(_FUNCS)
    names.update({"None": None, "True": True, "False": False})

    class F(dict):
        def __missing__(self, k):
            return None

    scope = F(names)
    scope.update(features)
    try:
        return bool(eval(compile(tree, "<when>", "eval"), {"__builtins__": {}}, scope))
    except Exception:
        return False


def match_known(known, test_name, out, features):
    for rec in known:
        if not fnmatch.fnmatchcase(test_name, rec.get("test", "*")):
            continue
        kinds = rec.get("kind")
        if kinds and out.kind not in (kinds if isinstance(kinds, list) else [kinds]):
            continue
        if eval_when(rec.get("when"), features):
            return rec["id"]
    return None


# ------------------------------------------------------------------------------------------------
# per-shard execution


class Stats:
    def __init__(self):
        self.status = collections.Counter()
        self.labels = collections.Counter()
        self.raised = collections.Counter()
        self.known = collections.Counter()
        self.inconclusive = collections.Counter()
        self.excluded = 0
        self.keys = set()
        self.samples = []
        self.per_test = collections.defaultdict(collections.Counter)
        self.raised_examples = {}
        self.prims = collections.Counter()
        self.lines = set()

    def merge(self, o):
        self.status.update(o.status)
        self.labels.update(o.labels)
        self.raised.update(o.raised)
        self.known.update(o.known)
        self.inconclusive.update(o.inconclusive)
        self.excluded += o.excluded
        self.keys |= o.keys
        self.samples.extend(o.samples)
        for k, v in o.per_test.items():
            self.per_test[k].update(v)
        for k, v in o.raised_examples.items():
            self.raised_examples.setdefault(k, v)
        self.prims.update(o.prims)
        self.lines |= o.lines


def _record(stats, test, out, case):
    stats.status[out.status] += 1
    stats.per_test[test.name][out.status] += 1
    for lab in out.labels:
        stats.labels[lab] += 1
    if out.status == "raised":
        stats.raised[out.kind] += 1
        if out.kind not in stats.raised_examples:
            stats.raised_examples[out.kind] = {"test": test.name, "msg": out.detail, "case": out.sample}
    if out.status == "inconclusive":
        stats.inconclusive[f"{test.name}|{out.kind or 'oracle'}|{str(out.detail)[:60]}"] += 1
    if out.status == "ok" and out.nontrivial:
        key = out.key if out.key is not None else json.dumps(case.choices)
        stats.keys.add("%016x" % env.strhash(test.group + "|" + key))
        stats.per_test[test.name]["nontrivial"] += 1
        if len(stats.samples) < 2:
            stats.samples.append({"test": test.name, "case": out.sample, "choices": list(case.choices)[:60]})


_CTX = {}


def run_shard(test, shard, n, tier, seed, known, excluded_init=()):
    stats = Stats()
    failures = []
    excluded = set(excluded_init)
    harness = [None]
    # two generation modes per shard: every choice drawn through Hypothesis (fully shrinkable), and every choice taken from a uniform
    # stream keyed by one Hypothesis-drawn integer (Hypothesis shrinks the key; the smallest failing choice sequence seen is saved).
    # The saved replay is the choice sequence itself in both modes.
    plan = [("hyp", n - n // 2, rnd) for rnd in range(MAX_ROUNDS)] + [("uni", n // 2, rnd) for rnd in range(MAX_ROUNDS)]
    skip_mode = None
    for mode, n_mode, rnd in plan:
        if n_mode <= 0 or mode == skip_mode or harness[0] is not None:
            continue
        state = {"first": None, "best": None, "calls": 0}

        def body(data):
            if harness[0] is not None:
                return
            if state["first"] is not None and state["calls"] > SHRINK_CAP[tier]:
                return
            case = UniformCase(data.draw(st.integers(0, 2 ** 62))) if mode == "uni" else HypCase(data)
            try:
                out = run_body(test, case)
            except Reject:
                if state["first"] is None:
                    stats.status["rejected"] += 1
                return
            except (hypothesis.errors.HypothesisException, KeyboardInterrupt):
                raise
            except BaseException as e:  # harness code failed: exit 2, never a violation
                if type(e).__module__.startswith("hypothesis"):
                    raise
                harness[0] = traceback.format_exc()
                return
            shrinking = state["first"] is not None
            if not shrinking:
                _record(stats, test, out, case)
            if out.status != "fail":
                return
            fid = match_known(known, test.name, out, case.features)
            if fid:
                if not shrinking:
                    stats.known[fid] += 1
                return
            if out.bucket in excluded:
                if not shrinking:
                    stats.excluded += 1
                return
            if state["first"] is None:
                state["first"] = out.bucket
            if out.bucket != state["first"]:
                return
            state["calls"] += 1
            cand = (len(case.choices), [abs(c) for c in case.choices])
            if state["best"] is None or cand < state["best"][0]:
                state["best"] = (cand, {
                    "test": test.name, "bucket": out.bucket, "kind": out.kind, "detail": out.detail,
                    "choices": list(case.choices), "features": _jsonable(case.features), "case": out.sample,
                })
            raise CaseFailure(out.bucket)

        hseed = env.mix64(seed, env.strhash(test.name), shard, rnd, 0 if mode == "hyp" else 0x756E69) & 0x7FFFFFFF
        runner = settings(
            max_examples=n_mode, database=None, deadline=None, derandomize=False, report_multiple_bugs=False,
            suppress_health_check=list(HealthCheck), phases=(Phase.generate, Phase.shrink), print_blob=False,
        )(hypothesis.seed(hseed)(given(st.data())(body)))
        try:
            with open(os.devnull, "w") as devnull:
                old = sys.stdout, sys.stderr
                try:
                    sys.stdout = sys.stderr = devnull
                    runner()
                finally:
                    sys.stdout, sys.stderr = old
        except CaseFailure:
            pass
        except BaseException as e:
            if state["best"] is None and harness[0] is None:
                harness[0] = "".join(traceback.format_exception(type(e), e, e.__traceback__))
        if harness[0] is not None:
            break
        if state["best"] is None:
            skip_mode = mode  # this mode found nothing (more): no further rounds for it
            continue
        failures.append(state["best"][1])
        excluded.add(state["first"])
    return stats, failures, harness[0]


def _jsonable(o):
    try:
        json.dumps(o)
        return o
    except Exception:
        if isinstance(o, dict):
            return {str(k): _jsonable(v) for k, v in o.items()}
        if isinstance(o, (list, tuple)):
            return [_jsonable(v) for v in o]
        return repr(o)


_RECORDED = collections.Counter()
_LINES = set()
_REACH_INSTALLED = [False]


def resolve_reach_functions(names):
    """'autograd.core:add_outgrads' -> function object (attribute paths allowed after the colon)."""
    import importlib

    out = []
    for n in names:
        mod, attr = n.split(":")
        obj = importlib.import_module(mod)
        for part in attr.split("."):
            obj = getattr(obj, part)
        obj = getattr(obj, "fun", obj)  # autograd primitives keep the raw function in .fun
        out.append((n, obj))
    return out


def install_line_reach(names):
    """Evidence only: record which source lines of the anchored mechanism functions execute (sys.monitoring LINE events on those
    code objects only; every line is disabled after its first hit, so the cost is negligible)."""
    if _REACH_INSTALLED[0] or not hasattr(sys, "monitoring"):
        return
    _REACH_INSTALLED[0] = True
    mon = sys.monitoring
    tool = 4
    try:
        mon.use_tool_id(tool, "vh-reach")
    except ValueError:
        return
    codes = {}
    for n, fn in resolve_reach_functions(names):
        code = getattr(fn, "__code__", None)
        if code is not None:
            codes[code] = n
            # nested closures (e.g. the mut_add closure inside untake) are separate code objects
            for const in code.co_consts:
                if hasattr(const, "co_code"):
                    codes[const] = n + "/" + const.co_name

    def on_line(code, lineno):
        _LINES.add((codes.get(code, code.co_name), lineno))
        return mon.DISABLE

    mon.register_callback(tool, mon.events.LINE, on_line)
    for code in codes:
        mon.set_local_events(tool, code, mon.events.LINE)


def install_primitive_recorder():
    """Evidence only: count which primitives get a VJP / JVP node built, by wrapping the node constructors in this process."""
    from autograd import core

    if getattr(core, "_vh_recorder", False):
        return
    core._vh_recorder = True
    for cls, tag in ((core.VJPNode, "vjp"), (core.JVPNode, "jvp")):
        orig = cls.__init__

        def init(self, value, fun, args, kwargs, parent_argnums, parents, _orig=orig, _tag=tag):
            _RECORDED[_tag + ":" + getattr(fun, "__name__", repr(fun))] += 1
            return _orig(self, value, fun, args, kwargs, parent_argnums, parents)

        cls.__init__ = init


def _worker(task):
    tidx, shard, n = task
    c = _CTX
    _limit_memory()
    if c.get("record_primitives"):
        install_primitive_recorder()
        _RECORDED.clear()
    if c.get("reach"):
        install_line_reach(c["reach"])
    test = c["tests"][tidx]
    t0 = time.time()
    try:
        stats, failures, harness = run_shard(test, shard, n, c["tier"], c["seed"], c["known"])
    except BaseException:
        return tidx, shard, None, [], traceback.format_exc(), time.time() - t0
    if c.get("record_primitives"):
        stats.prims.update(_RECORDED)
    if c.get("reach"):
        stats.lines |= _LINES
    return tidx, shard, stats, failures, harness, time.time() - t0


# ------------------------------------------------------------------------------------------------
# replay


def replay_file(prop, path, known=None):
    with open(path) as f:
        spec = json.load(f)
    tests = {t.name: t for t in prop.tests}
    if spec.get("test") not in tests:
        raise StaleReplay(f"{path}: unknown test {spec.get('test')!r}")
    case = ReplayCase(spec["choices"])
    try:
        out = run_body(tests[spec["test"]], case)
    except Reject:
        raise StaleReplay(f"{path}: generator rejects the recorded case")
    fid = None
    if out.status == "fail" and known is not None:
        fid = match_known(known, spec["test"], out, case.features)
    return out, case, fid


# ------------------------------------------------------------------------------------------------
# main entry for a property


def run_property(prop, tier, seed, only=None):
    t0 = time.time()
    pid = prop.pid
    known_all = load_known(pid)
    violations = []  # (bucket, replay path, detail)
    harness_errors = []
    if prop.selftest:
        try:
            prop.selftest()
        except Exception:
            print(f"HARNESS-ERROR property={pid} oracle self-test failed\n{traceback.format_exc()}")
            return 2

    agg = Stats()
    known_hits = collections.Counter()
    for old_file in glob.glob(os.path.join(env.OUT_DIR, "replays", pid, "*.json")):
        os.remove(old_file)  # replays/ holds the violations of the latest run only
    # ---- replay tier: regress/<ID>/*.json ---------------------------------------------------
    regress = sorted(glob.glob(os.path.join(env.VERIF_DIR, "regress", pid, "*.json")))
    n_regress = 0
    pinned_seen = set()
    for path in regress:
        rel = os.path.relpath(path, env.VERIF_DIR)
        try:
            out, case, fid = replay_file(prop, path, known_all)
        except StaleReplay as e:
            harness_errors.append(f"stale replay {rel}: {e}")
            continue
        except Exception:
            harness_errors.append(f"replay {rel} crashed:\n{traceback.format_exc()}")
            continue
        n_regress += 1
        agg.status["regress_" + out.status] += 1
        if out.status == "fail":
            if fid:
                known_hits[fid] += 1
                pinned_seen.add(fid)
            else:
                violations.append((out.bucket, rel, f"{out.kind}: {out.detail}"))

    # ---- generation ---------------------------------------------------------------------------
    tests = [t for t in prop.tests if only is None or fnmatch.fnmatchcase(t.name, only)]
    tasks = []
    for i, t in enumerate(tests):
        n = t.cases[tier]
        if n <= 0:
            continue
        nsh = max(1, -(-n // t.shard_size))
        per = -(-n // nsh)
        for s in range(nsh):
            tasks.append((i, s, per))
    # biggest first for better packing
    tasks.sort(key=lambda t: -t[2])
    _CTX.update(tests=tests, tier=tier, seed=seed, known=known_all, record_primitives=getattr(prop, "record_primitives", False),
                reach=getattr(prop, "reach_functions", None))
    found = {}
    slow = []
    if tasks:
        nproc = max(1, min(env.NPROC, len(tasks)))
        if nproc == 1:
            results = map(_worker, tasks)
        else:
            ctx = multiprocessing.get_context("fork")
            pool = ctx.Pool(nproc)
            results = pool.imap_unordered(_worker, tasks, chunksize=1)
        for tidx, shard, stats, failures, harness, dt in results:
            if harness:
                harness_errors.append(f"test {tests[tidx].name} shard {shard}:\n{harness}")
            if stats is not None:
                agg.merge(stats)
            for fl in failures:
                b = fl["bucket"]
                if b not in found or (len(fl["choices"]), fl["choices"]) < (len(found[b]["choices"]), found[b]["choices"]):
                    found[b] = fl
            if dt > 120:
                slow.append((tests[tidx].name, shard, round(dt, 1)))
        if nproc > 1:
            pool.close()
            pool.join()
    known_hits.update(agg.known)

    os.makedirs(os.path.join(env.OUT_DIR, "replays", pid), exist_ok=True)
    for b, fl in sorted(found.items()):
        name = "".join(ch if ch.isalnum() or ch in "-_." else "_" for ch in b)[:80]
        h = "%08x" % (env.strhash(json.dumps(fl["choices"])) & 0xFFFFFFFF)
        rel = os.path.join("replays", pid, f"{name}-{h}.json")
        with open(os.path.join(env.OUT_DIR, rel), "w") as f:
            json.dump({"property": pid, **fl}, f, indent=1, default=repr)
        violations.append((b, rel, f"{fl['kind']}: {fl['detail']}"))

    extra = {}
    extra_eval = 0
    if prop.extra_main:
        try:
            ev, keys, samples, viols, ex = prop.extra_main(tier, seed)
            extra_eval = ev
            agg.keys |= set(keys)
            agg.samples.extend(samples)
            extra.update(ex)
            for b, replay, detail in viols:
                violations.append((b, replay, detail))
        except Exception:
            harness_errors.append("extra_main crashed:\n" + traceback.format_exc())

    # ---- report ----------------------------------------------------------------------------------
    for rec in known_all:
        if known_hits.get(rec["id"]):
            print(f"KNOWN-FINDING: property={pid} {rec['what']} [id={rec['id']} hits={known_hits[rec['id']]}]")
        else:
            print(f"NOTE: known finding {rec['id']} was not reproduced by this run")
    for b, rel, detail in violations:
        print(f"VIOLATION property={pid} replay={rel}")
        print(f"  bucket={b} {str(detail)[:300]}")
    for h in harness_errors:
        print(f"HARNESS-ERROR property={pid} {h}")

    evaluations = sum(v for k, v in agg.status.items() if not k.startswith("regress_")) + n_regress + extra_eval
    coverage = {
        "evaluations": int(evaluations),
        "distinct_nontrivial": len(agg.keys),
        "rule": prop.rule,
        "samples": _pick_samples(agg.samples),
        "outcomes": dict(agg.status),
        "labels": dict(sorted(agg.labels.items())),
        "raised_buckets": dict(agg.raised.most_common(60)),
        "raised_examples": {k: v for k, v in list(agg.raised_examples.items())[:25]},
        "known_finding_hits": dict(known_hits),
        "inconclusive_reasons": dict(agg.inconclusive.most_common(40)),
        "excluded_by_bucket": agg.excluded,
        "per_test": {k: dict(v) for k, v in sorted(agg.per_test.items())},
        "regress_replayed": n_regress,
        "violation_buckets": sorted({b for b, _, _ in violations}),
        "slow_shards": slow,
    }
    weak, mostly_raised = [], []
    for name, c in agg.per_test.items():
        tot = sum(v for k, v in c.items() if k != "nontrivial")
        if name.startswith("empty:"):
            continue  # zero-size inputs: NumPy itself rejects many of them (max of nothing, mean of nothing): expected, not a generator problem
        if tot >= 10 and (c.get("ok", 0) + c.get("fail", 0) + c.get("raised", 0)) < 0.3 * tot:
            weak.append(name)  # most cases rejected / inconclusive: the generator needs work
        elif tot >= 10 and (c.get("ok", 0) + c.get("fail", 0)) < 0.3 * tot:
            mostly_raised.append(name)  # autograd raises for most configurations (allowed outcome; reported)
    coverage["weak_generators"] = sorted(weak)
    coverage["mostly_raised"] = sorted(mostly_raised)
    if getattr(prop, "reach_functions", None):
        try:
            coverage["line_reach"] = line_reach_report(prop.reach_functions, agg.lines)
        except Exception:
            coverage["line_reach"] = {"error": traceback.format_exc()[-300:]}
    if prop.finalize:
        try:
            coverage.update(prop.finalize(agg))
        except Exception:
            harness_errors.append("finalize crashed:\n" + traceback.format_exc())
            print(f"HARNESS-ERROR property={pid} finalize crashed")
    coverage.update(extra)
    ev = {
        "property_id": pid, "tier": tier, "seed": int(seed), "level": prop.level, "coverage": coverage,
        "assumptions": prop.assumptions, "wall_s": round(time.time() - t0, 2), "violations": len(violations),
    }
    os.makedirs(os.path.join(env.OUT_DIR, "evidence"), exist_ok=True)
    with open(os.path.join(env.OUT_DIR, "evidence", f"{pid}.json"), "w") as f:
        json.dump(ev, f, indent=1, default=repr, sort_keys=True)
    st_line = ", ".join(f"{k}={v}" for k, v in sorted(agg.status.items()))
    print(f"{pid} tier={tier} seed={seed} evaluations={evaluations} distinct_nontrivial={len(agg.keys)} [{st_line}] "
          f"violations={len(violations)} wall={ev['wall_s']}s")
    if weak:
        print(f"WEAK-GENERATOR tests={','.join(sorted(weak)[:20])}")
    if violations:
        return 1
    if harness_errors:
        return 2
    return 0


def line_reach_report(names, lines):
    """Per anchored function: executable lines (from the code object) vs lines seen executing in this run."""
    import dis

    rep = {}
    hit = {}
    for name, ln in lines:
        hit.setdefault(name, set()).add(ln)
    for n, fn in resolve_reach_functions(names):
        code = getattr(fn, "__code__", None)
        if code is None:
            continue
        todo = [(n, code)] + [(n + "/" + c.co_name, c) for c in code.co_consts if hasattr(c, "co_code")]
        for label, co in todo:
            execl = sorted({l for _, l in dis.findlinestarts(co) if l is not None and l != co.co_firstlineno})
            got = sorted(hit.get(label, set()) & set(execl))
            rep[label] = {"executable_lines": len(execl), "reached": len(got), "not_reached": [l for l in execl if l not in got]}
    return rep


def _pick_samples(samples, n=12):
    seen = set()
    out = []
    for s in samples:
        if s["test"] in seen:
            continue
        seen.add(s["test"])
        out.append(s)
    step = max(1, len(out) // n)
    picked = out[::step][:n]
    return picked or samples[:n]


# ------------------------------------------------------------------------------------------------
# development tool: search for a (shrunk) case whose features satisfy an expression and save it as a
# regress/ replay spec.  Never used by registered checks.


def pin_case(prop, test_pattern, when, name, statuses=("ok", "fail"), max_examples=3000):
    class Found(Exception):
        pass

    tests = [t for t in prop.tests if fnmatch.fnmatchcase(t.name, test_pattern)]
    if not tests:
        raise env.HarnessError(f"no test matches {test_pattern}")
    if prop.selftest:
        prop.selftest()  # (some properties build their reference tables there)
    for test in tests:
        best = [None]

        def body(data):
            case = HypCase(data)
            try:
                out = test.body(case)
            except Reject:
                return
            if out.status in statuses and eval_when(when, dict(case.features, status=out.status, kind=out.kind)):
                cand = (len(case.choices), [abs(c) for c in case.choices])
                if best[0] is None or cand < best[0][0]:
                    best[0] = (cand, list(case.choices), out, _jsonable(case.features))
                raise Found()

        runner = settings(max_examples=max_examples, database=None, deadline=None, suppress_health_check=list(HealthCheck),
                          phases=(Phase.generate, Phase.shrink), report_multiple_bugs=False)(
            hypothesis.seed(12345)(given(st.data())(body)))
        try:
            runner()
        except Found:
            pass
        if best[0] is not None:
            _, choices, out, feats = best[0]
            d = os.path.join(env.VERIF_DIR, "regress", prop.pid)
            os.makedirs(d, exist_ok=True)
            path = os.path.join(d, name + ".json")
            with open(path, "w") as f:
                json.dump({"property": prop.pid, "test": test.name, "choices": choices, "when": when,
                           "status_when_pinned": out.status, "kind": out.kind, "detail": out.detail,
                           "case": out.sample, "features": feats}, f, indent=1, default=repr)
            print(f"pinned {path}: status={out.status} kind={out.kind} {out.detail}")
            return path
    print("no case found")
    return None
