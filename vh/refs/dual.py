"""Reference forward sweep for the array programs of vh/progs.py: values carry their full Jacobian with respect to the flattened
program input (dense, exact closed-form local derivatives on raw NumPy).  Independent of autograd: no tracing, no accumulation
order, no in-place updates - the Jacobian of every value is rebuilt from its operands' Jacobians by the chain rule."""
import numpy as onp


class Dual:
    __array_ufunc__ = None  # ndarray <op> Dual defers to Dual's reflected operators
    __array_priority__ = 1000.0

    def __init__(self, val, jac):
        self.val = onp.asarray(val, dtype=float)
        self.jac = onp.asarray(jac, dtype=float)  # shape val.shape + (n,)
        assert self.jac.shape[:-1] == self.val.shape, (self.jac.shape, self.val.shape)

    @property
    def shape(self):
        return self.val.shape

    @property
    def n(self):
        return self.jac.shape[-1]

    # ---- helpers
    @staticmethod
    def lift(x, n):
        if isinstance(x, Dual):
            return x
        v = onp.asarray(x, dtype=float)
        return Dual(v, onp.zeros(v.shape + (n,)))

    def _bin(self, other, f, da, db):
        o = Dual.lift(other, self.n)
        a, b = onp.broadcast_arrays(self.val, o.val)
        ja = onp.broadcast_to(self.jac, a.shape + (self.n,)) if self.jac.shape[:-1] != a.shape else self.jac
        jb = onp.broadcast_to(o.jac, a.shape + (self.n,)) if o.jac.shape[:-1] != a.shape else o.jac
        return Dual(f(a, b), da(a, b)[..., None] * ja + db(a, b)[..., None] * jb)

    def _un(self, f, d):
        return Dual(f(self.val), d(self.val)[..., None] * self.jac)

    # ---- operators
    def __add__(self, o):
        return self._bin(o, lambda a, b: a + b, lambda a, b: onp.ones_like(a), lambda a, b: onp.ones_like(a))

    __radd__ = __add__

    def __sub__(self, o):
        return self._bin(o, lambda a, b: a - b, lambda a, b: onp.ones_like(a), lambda a, b: -onp.ones_like(a))

    def __rsub__(self, o):
        return Dual.lift(o, self.n).__sub__(self)

    def __mul__(self, o):
        return self._bin(o, lambda a, b: a * b, lambda a, b: b, lambda a, b: a)

    __rmul__ = __mul__

    def __truediv__(self, o):
        return self._bin(o, lambda a, b: a / b, lambda a, b: 1.0 / b, lambda a, b: -a / (b * b))

    def __rtruediv__(self, o):
        return Dual.lift(o, self.n).__truediv__(self)

    def __pow__(self, k):
        assert not isinstance(k, Dual)
        return self._un(lambda v: v ** k, lambda v: k * v ** (k - 1))

    def __rmatmul__(self, m):
        return DualNS.dot(m, self)

    def __neg__(self):
        return Dual(-self.val, -self.jac)

    def __getitem__(self, i):
        idx = i if isinstance(i, tuple) else (i,)
        if any(e is Ellipsis for e in idx):  # the Jacobian carries one more (last) axis, which an Ellipsis must not swallow
            return Dual(self.val[i], self.jac[idx + (slice(None),)])
        return Dual(self.val[i], self.jac[i])


class DualNS:
    """The subset of the numpy namespace that progs.run uses, on Dual values."""

    @staticmethod
    def sin(a):
        return a._un(onp.sin, onp.cos)

    @staticmethod
    def cos(a):
        return a._un(onp.cos, lambda v: -onp.sin(v))

    @staticmethod
    def tanh(a):
        return a._un(onp.tanh, lambda v: 1.0 - onp.tanh(v) ** 2)

    @staticmethod
    def exp(a):
        return a._un(onp.exp, onp.exp)

    @staticmethod
    def maximum(a, k):
        assert not isinstance(k, Dual)
        return Dual(onp.maximum(a.val, k), (a.val > k).astype(float)[..., None] * a.jac)

    @staticmethod
    def where(cond, a, b):
        # the condition is read for its truth value only
        cv = cond.val if isinstance(cond, Dual) else onp.asarray(cond)
        n = next(p.n for p in (a, b) if isinstance(p, Dual))
        a, b = Dual.lift(a, n), Dual.lift(b, n)
        A, B, Cc = onp.broadcast_arrays(a.val, b.val, cv)
        ja = onp.broadcast_to(a.jac, A.shape + (n,))
        jb = onp.broadcast_to(b.jac, A.shape + (n,))
        return Dual(onp.where(Cc, A, B), onp.where(Cc.astype(bool)[..., None], ja, jb))

    @staticmethod
    def reshape(a, shape):
        shape = tuple(shape)
        return Dual(a.val.reshape(shape), a.jac.reshape(shape + (a.n,)))

    @staticmethod
    def ravel(a):
        return Dual(a.val.ravel(), a.jac.reshape((-1, a.n)))

    @staticmethod
    def sum(a, axis):
        return Dual(a.val.sum(axis=axis), a.jac.sum(axis=axis))

    @staticmethod
    def dot(m, a):
        assert not isinstance(m, Dual)
        return Dual(onp.dot(m, a.val), onp.tensordot(m, a.jac, axes=([1], [0])))

    @staticmethod
    def matmul(m, a):
        return DualNS.dot(m, a)

    @staticmethod
    def concatenate(parts, axis=0):
        n = next(p.n for p in parts if isinstance(p, Dual))
        parts = [Dual.lift(p, n) for p in parts]
        return Dual(onp.concatenate([p.val for p in parts], axis=axis), onp.concatenate([p.jac for p in parts], axis=axis))


def jacobian(run, prog, x):
    """(value, Jacobian of shape (out_size, x.size)) of progs.run(prog, ., ns) at x."""
    x = onp.asarray(x, dtype=float)
    n = x.size
    seed = Dual(x, onp.eye(n).reshape(x.shape + (n,)))
    out = run(prog, seed, DualNS)
    if not isinstance(out, Dual):  # the outputs do not depend on the input
        v = onp.asarray(out, dtype=float)
        return v, onp.zeros((v.size, n))
    return out.val, out.jac.reshape((out.val.size, n))


def selftest():
    """The reference against central differences on a fixed program exercising every statement kind."""
    from .. import progs
    from ..env import HarnessError

    prog = {"shape": [3, 2], "stmts": [["u", "sin", 0], ["b", "add", 0, 1], ["u", "sq", 2], ["b", "mul", 0, 1], ["b", "div_s", 3, 4],
                                       ["k", "subc_left", 5], ["idx", 6, 1], ["sum", 6, 1], ["dot", 6], ["b", "sub", 9, 7], ["cat", 10, 2],
                                       ["shared", 11, 2, True], ["k", "reshape_same", 12], ["u", "exp_s", 13], ["b", "mul", 14, 7]],
            "out": [15, 8]}
    x = onp.array([[0.3, -0.7], [1.1, 0.2], [-0.4, 0.9]])
    y, J = jacobian(progs.run, prog, x)
    y2 = progs.run(prog, x, onp)
    if not onp.allclose(y, y2, rtol=1e-13, atol=1e-13):
        raise HarnessError("dual reference: primal differs from the raw NumPy run")
    h = 1e-6
    for k in range(x.size):
        d = onp.zeros(x.size)
        d[k] = h
        d = d.reshape(x.shape)
        num = (progs.run(prog, x + d, onp) - progs.run(prog, x - d, onp)) / (2 * h)
        if not onp.allclose(num, J[:, k], rtol=1e-6, atol=1e-7):
            raise HarnessError(f"dual reference: Jacobian column {k} differs from central differences")
