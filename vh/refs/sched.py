"""Deterministic one-thread-at-a-time scheduler.

Each thread program calls `s.yp()` at its yield points; exactly one thread runs between two yield points while all others
are blocked on their semaphores, so the interleaving IS the schedule (a list of thread choices), reproducible and shrinkable.
"""
import threading


class Sched:
    def __init__(self, n, schedule):
        self.n = n
        self.sems = [threading.Semaphore(0) for _ in range(n)]
        self.main = threading.Semaphore(0)
        self.done = [False] * n
        self.schedule = list(schedule)
        self.pos = 0
        self.tls = threading.local()
        self.switches = 0
        self.inside = [0] * n  # how many differentiations thread i is inside of (maintained by the programs)
        self.overlap = False
        self.nested_overlap = False

    def yp(self):
        i = self.tls.i
        self.main.release()
        self.sems[i].acquire()

    def enter(self):
        self.inside[self.tls.i] += 1

    def leave(self):
        self.inside[self.tls.i] -= 1

    def run(self, progs, timeout=60.0):
        res = [None] * self.n

        def body(i):
            self.tls.i = i
            self.sems[i].acquire()
            try:
                res[i] = ("ok", progs[i](self))
            except BaseException as e:  # noqa: BLE001 - the thread's outcome is its value or its exception
                res[i] = ("exc", type(e).__name__ + ": " + str(e)[:200])
            self.done[i] = True
            self.main.release()

        ths = [threading.Thread(target=body, args=(i,), daemon=True) for i in range(self.n)]
        for t in ths:
            t.start()
        last = None
        while not all(self.done):
            alive = [i for i in range(self.n) if not self.done[i]]
            ch = self.schedule[self.pos] if self.pos < len(self.schedule) else 0
            self.pos += 1
            i = alive[ch % len(alive)]
            if last is not None and i != last:
                self.switches += 1
                active = [j for j in range(self.n) if self.inside[j] > 0]
                if len(active) >= 2:
                    self.overlap = True
                    if any(self.inside[j] >= 2 for j in active):
                        self.nested_overlap = True
            last = i
            self.sems[i].release()
            if not self.main.acquire(timeout=timeout):
                raise TimeoutError("scheduler: a thread did not reach its next yield point")
        for t in ths:
            t.join(timeout)
        return res
