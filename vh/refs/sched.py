"""Deterministic one-thread-at-a-time scheduler.

Each thread program calls `s.yp()` at its yield points; exactly one thread runs between two yield points while all others
are blocked on their semaphores, so the interleaving IS the schedule (a list of thread choices), reproducible and shrinkable.
"""
import threading


class Sched:
    def __init__(self, n, schedule):
        self.n = n
        self.sems = [threading.Semaphore(0) for _ in range(n)]
        self.main = threading.Semaphore(0)
        self.done = [False] * n
        self.schedule = list(schedule)  # thread choices, or (thread choice, run length) pairs
        self.pos = 0
        self.left = 0
        self.yields = 0
        self.fine = False  # are function entries inside autograd yield points too (set by the caller)?
        self.last_kind = [False] * n  # did thread i last stop at an autograd-internal yield point?
        self.internal_switches = 0  # context switches away from a thread stopped inside autograd's own code
        self.tls = threading.local()
        self.switches = 0
        self.inside = [0] * n  # how many differentiations thread i is inside of (maintained by the programs)
        self.overlap = False
        self.nested_overlap = False

    def yp(self, internal=False):
        i = self.tls.i
        self.last_kind[i] = internal
        self.main.release()
        self.sems[i].acquire()

    def enter(self):
        self.inside[self.tls.i] += 1

    def leave(self):
        self.inside[self.tls.i] -= 1

    def run(self, progs, timeout=60.0):
        res = [None] * self.n

        def body(i):
            self.tls.i = i
            self.sems[i].acquire()
            try:
                res[i] = ("ok", progs[i](self))
            except BaseException as e:  # noqa: BLE001 - the thread's outcome is its value or its exception
                res[i] = ("exc", type(e).__name__ + ": " + str(e)[:200])
            self.done[i] = True
            self.main.release()

        ths = [threading.Thread(target=body, args=(i,), daemon=True) for i in range(self.n)]
        for t in ths:
            t.start()
        last = None
        while not all(self.done):
            alive = [i for i in range(self.n) if not self.done[i]]
            self.yields += 1
            if self.left > 0 and last is not None and not self.done[last]:
                self.left -= 1  # the current run of the same thread continues
                i = last
            else:
                ch = self.schedule[self.pos] if self.pos < len(self.schedule) else 0
                self.pos += 1
                if isinstance(ch, (tuple, list)):
                    ch, ln = ch
                    self.left = max(0, ln - 1)
                i = alive[ch % len(alive)]
            if last is not None and i != last:
                self.switches += 1
                if self.last_kind[last] and not self.done[last]:
                    self.internal_switches += 1
                active = [j for j in range(self.n) if self.inside[j] > 0]
                if len(active) >= 2:
                    self.overlap = True
                    if any(self.inside[j] >= 2 for j in active):
                        self.nested_overlap = True
            last = i
            self.sems[i].release()
            if not self.main.acquire(timeout=timeout):
                raise TimeoutError("scheduler: a thread did not reach its next yield point")
        for t in ths:
            t.join(timeout)
        return res
