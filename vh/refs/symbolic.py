"""Reference symbolic differentiator over expression trees with uniquely named binders.

Expressions are tuples:
  ('c', v) ('v', name) ('+', a, b) ('*', a, b) ('/', a, b) ('sin', a) ('cos', a) ('exp', a) ('tanh', a)
  ('pow', a, n)   integer n >= 0
  ('D', mode, var, body, at)   derivative of (lambda var: body) evaluated at `at`; mode is ignored here
  ('H', mode, var, body, at)   second derivative of (lambda var: body) at `at`
  ('F', e)                     e, evaluated after a failing inner differentiation was caught (no effect on the value)
  ('P', mode, var, body, at)   the primal value (lambda var: body)(at) as returned by a differential operator
  ('M', spec, (va, vb), body, ('pair', at_a, at_b))   mixed second partial d/dv_j d/dv_i of (lambda va, vb: body) at (at_a, at_b),
                               spec = (outer mode, j, inner mode, i, ...) - two stacked operators on a two-argument function

  ('A3k0'|'A3k1'|'A3k2', a, b, c)   three operands handed to ONE operation (an array constructor, a three-operand einsum, a
                               concatenation): defined by desugar() as a*b + sin(c/2), a*b*c, a/2 - 3b/2 + 2c

resolve(D(λy.B)(A)) = subst(∂_y resolve(B), y := resolve(A)); binders are unique so capture cannot
occur and the reference cannot exhibit perturbation confusion.  No simplification; evaluation in floats.
Nothing here imports autograd.
"""
import math


def d(e, x):
    t = e[0]
    if t == "c":
        return ("c", 0.0)
    if t == "v":
        return ("c", 1.0 if e[1] == x else 0.0)
    if t == "+":
        return ("+", d(e[1], x), d(e[2], x))
    if t == "*":
        return ("+", ("*", d(e[1], x), e[2]), ("*", e[1], d(e[2], x)))
    if t == "/":
        return ("/", ("+", ("*", d(e[1], x), e[2]), ("*", ("c", -1.0), ("*", e[1], d(e[2], x)))), ("*", e[2], e[2]))
    if t == "sin":
        return ("*", ("cos", e[1]), d(e[1], x))
    if t == "cos":
        return ("*", ("*", ("c", -1.0), ("sin", e[1])), d(e[1], x))
    if t == "exp":
        return ("*", e, d(e[1], x))
    if t == "tanh":
        return ("*", ("+", ("c", 1.0), ("*", ("c", -1.0), ("*", e, e))), d(e[1], x))
    if t == "pow":
        if e[2] == 0:
            return ("c", 0.0)
        return ("*", ("*", ("c", float(e[2])), ("pow", e[1], e[2] - 1)), d(e[1], x))
    raise ValueError(t)


def desugar(t, a, b, c):
    if t == "A3k0":
        return ("+", ("*", a, b), ("sin", ("*", ("c", 0.5), c)))
    if t == "A3k1":
        return ("*", ("*", a, b), c)
    if t == "A3k2":
        return ("+", ("+", ("*", ("c", 0.5), a), ("*", ("c", -1.5), b)), ("*", ("c", 2.0), c))
    raise ValueError(t)


def subst(e, x, r):
    t = e[0]
    if t == "c":
        return e
    if t == "v":
        return r if e[1] == x else e
    if t == "pow":
        return ("pow", subst(e[1], x, r), e[2])
    return (t,) + tuple(subst(a, x, r) for a in e[1:])


def resolve(e):
    t = e[0]
    if t in ("c", "v"):
        return e
    if t == "pow":
        return ("pow", resolve(e[1]), e[2])
    if t == "D":
        _, mode, var, body, at = e
        return subst(d(resolve(body), var), var, resolve(at))
    if t == "H":  # second derivative of (lambda var: body) at `at` (Hessian-vector-product operators on a scalar)
        _, mode, var, body, at = e
        return subst(d(d(resolve(body), var), var), var, resolve(at))
    if t == "F":  # "a caught failing differentiation happens first, then e": no effect on the value
        return resolve(e[1])
    if t == "P":  # the primal value of (lambda var: body)(at) as handed back by a differential operator
        _, mode, var, body, at = e
        return subst(resolve(body), var, resolve(at))
    if t == "M":
        _, spec, (va, vb), body, at = e
        vs = (va, vb)
        r = d(d(resolve(body), vs[spec[3]]), vs[spec[1]])
        return subst(subst(r, va, resolve(at[1])), vb, resolve(at[2]))
    if t.startswith("A3"):
        return desugar(t, *(resolve(a) for a in e[1:]))
    return (t,) + tuple(resolve(a) for a in e[1:])


def ev(e, env):
    # iterative-friendly recursion; trees are small
    t = e[0]
    if t == "c":
        return e[1]
    if t == "v":
        return env[e[1]]
    if t == "+":
        return ev(e[1], env) + ev(e[2], env)
    if t == "*":
        return ev(e[1], env) * ev(e[2], env)
    if t == "/":
        return ev(e[1], env) / ev(e[2], env)
    if t == "pow":
        return ev(e[1], env) ** e[2]
    return getattr(math, t)(ev(e[1], env))


def mentions(e, name):
    t = e[0]
    if t == "c":
        return False
    if t == "v":
        return e[1] == name
    if t == "pow":
        return mentions(e[1], name)
    if t in ("D", "P", "H", "M"):
        return mentions(e[3], name) or mentions(e[4], name)
    return any(mentions(a, name) for a in e[1:])


def ndepth(e):
    t = e[0]
    if t in ("c", "v"):
        return 0
    if t == "pow":
        return ndepth(e[1])
    if t in ("D", "P", "H", "M"):
        return (2 if t in ("H", "M") else 1) + max(ndepth(e[3]), ndepth(e[4]))
    return max(ndepth(a) for a in e[1:])


def size(e):
    t = e[0]
    if t in ("c", "v"):
        return 1
    if t == "pow":
        return 1 + size(e[1])
    if t in ("D", "P", "H", "M"):
        return 1 + size(e[3]) + size(e[4])
    return 1 + sum(size(a) for a in e[1:])
