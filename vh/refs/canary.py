"""Canary table: a fixed list of differentiations whose results must be bit-identical in a fresh interpreter and after any history.

Run as a module (`python -m vh.refs.canary`) it prints the table as JSON; `compute()` returns it in-process.
"""
import json
import sys
import warnings


def _hex(v):
    import numpy as onp

    if isinstance(v, (tuple, list)):
        return [_hex(e) for e in v]
    if isinstance(v, dict):
        return {k: _hex(e) for k, e in sorted(v.items())}
    a = onp.asarray(v)
    return [str(a.dtype), list(a.shape), a.tobytes().hex()]


_PRIM = {}


def _prim():
    if not _PRIM:
        import autograd.numpy as anp
        from autograd.extend import defjvp, defvjp, primitive

        @primitive
        def cube(x):
            return x * x * x

        defvjp(cube, lambda ans, x: lambda g: g * 3 * x * x)
        defjvp(cube, lambda g, ans, x: g * 3 * x * x)
        _PRIM["cube"] = cube
    return _PRIM["cube"]


def compute():
    import numpy as onp

    import autograd
    import autograd.numpy as anp
    from autograd import builtins as ab
    from autograd import checkpoint, deriv, elementwise_grad, grad, hessian, jacobian, make_jvp, make_vjp, value_and_grad

    cube = _prim()
    x = onp.array([0.3, -1.2, 0.7])
    A = onp.array([[0.5, -1.0, 2.0], [1.5, 0.25, -0.75]])
    out = []
    with warnings.catch_warnings():
        warnings.simplefilter("ignore")
        out.append(grad(lambda t: anp.sum(anp.sin(t) * t))(x))
        out.append(grad(lambda t: t * anp.exp(t))(0.5))
        out.append(deriv(lambda t: anp.tanh(t) ** 2)(0.3))
        out.append(jacobian(lambda t: anp.dot(A, t * t))(x))
        out.append(hessian(lambda t: anp.sum(anp.sin(t) * t[::-1]))(x))
        out.append(grad(lambda a: a * grad(lambda b: a * b * b)(a))(2.0))
        out.append(grad(lambda a: deriv(lambda b: anp.sin(a * b))(0.7) * a)(1.1))
        out.append(make_jvp(lambda a: grad(lambda b: anp.sum(a * b * b))(a))(x)(onp.ones(3))[1])
        out.append(grad(lambda a: grad(lambda b: grad(lambda c: a * b * c * c)(b))(a))(1.3))
        out.append(make_vjp(lambda t: anp.dot(A, t))(x)[0](onp.array([1.0, -2.0])))
        out.append(make_jvp(lambda t: anp.dot(A, anp.cos(t)))(x)(onp.array([0.1, 0.2, 0.3]))[1])
        out.append(grad(lambda d: anp.sum(d["a"] * d["b"][0]))({"a": x, "b": (x * 2, 1.0)}))
        out.append(grad(lambda t: anp.sum(t[[0, 0, 2]] ** 2 + t[1:] .sum()))(x))
        out.append(grad(lambda t: anp.sum(cube(t) * t))(x))
        out.append(grad(grad(lambda t: cube(t) * t))(0.4))
        out.append(grad(lambda t: anp.sum(checkpoint(lambda u: anp.sin(u) * u)(t)))(x))
        out.append(elementwise_grad(lambda t: anp.where(t > 0, t ** 2, -t))(x))
        out.append(value_and_grad(lambda t: anp.sum(anp.linalg.inv(anp.outer(t, t) + anp.eye(3))))(x))
        out.append(grad(lambda t: anp.real(anp.sum(anp.fft.fft(t) * anp.conj(anp.fft.fft(t)))))(x))
        out.append(grad(lambda t: anp.sum(ab.tuple((t, t * 2))[1]))(x))
        out.append(grad(lambda t: 3.0)(x))
        out.append(make_jvp(lambda t: 2.5)(x)(onp.ones(3))[1])
        out.append(grad(lambda t: anp.sum(anp.maximum(t, 0.0) * anp.floor(t + 2)))(x))
        out.append(jacobian(lambda t: anp.concatenate([t, t[::-1] * 2]))(x))
        out.append(grad(lambda t: anp.linalg.norm(anp.einsum("i,j->ij", t, t)))(x))
    return [_hex(v) for v in out]


if __name__ == "__main__":
    from vh import env

    env.load_autograd()
    json.dump(compute(), sys.stdout)
