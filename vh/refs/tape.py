"""Reference scalar differentiator: a tape of executed operations with closed-form local partials.

Used by C03 (and others) as the oracle for "sum over all dependency paths of the products of the
local derivatives": the reverse sweep gives the total cotangent of every executed operation (what a
derivative rule must be called with), the forward sweep gives the same gradient by path summation.
Nothing here imports autograd.
"""
import math

import numpy as _np


class RV:
    """A reference value: float plus the id of the tape entry that produced it (None for constants)."""

    __slots__ = ("v", "id")

    def __init__(self, v, id=None):
        self.v = float(v)
        self.id = id


class Tape:
    def __init__(self):
        self.entries = []  # (tag, [(parent_id or None, partial)], value)

    def new_input(self, v):
        self.entries.append(("input", [], float(v)))
        return RV(v, len(self.entries) - 1)

    def apply(self, tag, value, parents):
        """parents: list of (RV or float, partial)."""
        ps = []
        for p, d in parents:
            pid = p.id if isinstance(p, RV) else None
            ps.append((pid, float(d)))
        self.entries.append((tag, ps, float(value)))
        return RV(value, len(self.entries) - 1)

    def depends(self):
        """dep[i]: does entry i depend on any input?"""
        dep = []
        for tag, ps, _ in self.entries:
            dep.append(tag == "input" or any(pid is not None and dep[pid] for pid, _ in ps))
        return dep

    def reverse(self, out_id, seed=1.0):
        n = len(self.entries)
        adj = [0.0] * n
        live = [False] * n
        adj[out_id] = seed
        live[out_id] = True
        dep = self.depends()
        for i in range(n - 1, -1, -1):
            if not live[i]:
                continue
            for pid, d in self.entries[i][1]:
                if pid is not None and dep[pid]:
                    adj[pid] += adj[i] * d
                    live[pid] = True
        return adj, live, dep

    def forward(self, input_ids):
        """Gradient vectors of every entry wrt the inputs, by forward accumulation."""
        k = len(input_ids)
        grads = []
        pos = {iid: j for j, iid in enumerate(input_ids)}
        for i, (tag, ps, _) in enumerate(self.entries):
            if tag == "input":
                g = [0.0] * k
                g[pos[i]] = 1.0
            else:
                g = [0.0] * k
                for pid, d in ps:
                    if pid is not None:
                        gp = grads[pid]
                        for j in range(k):
                            g[j] += d * gp[j]
            grads.append(g)
        return grads


def val(x):
    return x.v if isinstance(x, RV) else float(x)


# logged user primitives: name -> (arity, f, partials)
LOGGED = {
    "u": (1, lambda x: math.sin(x) * 1.5, [lambda x: math.cos(x) * 1.5]),
    "b": (2, lambda x, y: x * y + 0.5 * x, [lambda x, y: y + 0.5, lambda x, y: x]),
    "t": (3, lambda x, y, z: x * y * z + y, [lambda x, y, z: y * z, lambda x, y, z: x * z + 1.0, lambda x, y, z: x * y]),
}

# built-in operations: name -> (arity, f, partials)
BUILTIN = {
    "add": (2, lambda x, y: x + y, [lambda x, y: 1.0, lambda x, y: 1.0]),
    "sub": (2, lambda x, y: x - y, [lambda x, y: 1.0, lambda x, y: -1.0]),
    "mul": (2, lambda x, y: x * y, [lambda x, y: y, lambda x, y: x]),
    "div": (2, lambda x, y: x / (y * y + 1.0), [lambda x, y: 1.0 / (y * y + 1.0), lambda x, y: -2.0 * x * y / (y * y + 1.0) ** 2]),
    # numpy scalar kernels, so that the primal path is bit-identical to what autograd.numpy evaluates
    "sin": (1, lambda x: float(_np.sin(x)), [lambda x: float(_np.cos(x))]),
    "exp": (1, lambda x: float(_np.exp(0.3 * x)), [lambda x: 0.3 * float(_np.exp(0.3 * x))]),
    "tanh": (1, lambda x: float(_np.tanh(x)), [lambda x: 1.0 - float(_np.tanh(x)) ** 2]),
    "sq": (1, lambda x: x * x, [lambda x: 2.0 * x]),
}
