"""C20 — concurrent differentiations in different threads do not interfere."""
import itertools
import json

import numpy as onp

from ..case import Outcome, fail, ok
from ..engine import Prop, Test
from ..refs.sched import Sched

RULE = (
    "2-4 thread programs (first-order grad, nested grad with the inner function closing over the outer variable, forward-over-"
    "reverse, reverse-over-forward, Hessian-vector product, array jacobian, depth-3 nesting; each at drawn parameter values) whose "
    "user functions contain yield points at function entry (right after autograd entered the trace), between operations, before "
    "return (right before autograd leaves the trace) and between API calls, plus a drawn schedule (list of thread choices). A "
    "deterministic scheduler runs exactly one thread between two yield points, so every ordering of trace-entry / operation / "
    "trace-exit events across threads is reachable and the interleaving is reproducible. Oracle: each thread's result (value or "
    "exception) is bitwise equal to the result of the same program run alone. Bounded-exhaustive sweep: ALL schedules of length "
    "8 (quick) / 12 (thorough) for canonical 2-thread pairs (reported with exhaustive=true for that sub-space). Non-trivial = a "
    "context switch happens while >= 2 threads are inside a differentiation and at least one of them is nested; distinct by "
    "(programs, schedule). Programs grad1_bwd / nested_bwd route values through a user primitive whose VJP and JVP rules are yield points "
    "(interleaved backward passes); shared_jvp / shared_args use operator objects built once per process with extra positional and keyword "
    "arguments that differ between threads. threads_fine: the same programs with EVERY FUNCTION ENTRY INSIDE THE AUTOGRAD PACKAGE as an "
    "additional yield point (sys.monitoring PY_START in the scheduled threads; the repository is not modified) and schedules of "
    "(thread, run length) pairs - pre-emption between autograd's own calls, e.g. between an operator wrapper storing its arguments and "
    "the trace reading them. Non-trivial there = a switch away from a thread stopped inside autograd's code."
    ' Thread programs added later: holomorphic, complex_mid, const_graph, shared_pushforward / shared_pullback, flatten (autograd.misc.flatten of same-structured parameters whose matrix leaf is C- or Fortran-ordered per thread; reference: closed form); shared:<kind> and shared_fine:<kind> tests run every shared-object program against itself.'
)

KINDS = ["grad1", "nested", "fwd_rev", "rev_fwd", "hvp", "jacobian", "nested3", "nested_jvp", "nested_twice", "two_calls",
         "shared_tjp", "shared_hvp_twice", "shared_grad", "grad1_bwd", "nested_bwd", "shared_jvp", "shared_args", "shared_ckpt", "nested_worker",
         "holomorphic", "complex_mid", "const_graph", "shared_pushforward", "shared_pullback", "flatten"]

# kinds whose result must equal that of another kind: the same arithmetic with the inner differentiation run in the calling thread
TWIN = {"nested_worker": "nested", "flatten": "flatten_ref"}  # (flatten_ref: the closed form in plain NumPy, not a kind that is drawn)

_TLS = __import__("threading").local()
_SHARED = {}


_YP = {}


def ypass():
    """A user primitive (identity) whose derivative rules are yield points: interleavings inside backward passes and JVP evaluation."""
    if not _YP:
        from autograd.extend import defjvp, defvjp, primitive

        @primitive
        def yp_identity(x):
            return x * 1.0

        def _yield(g):
            s = getattr(_TLS, "s", None)
            if s is not None:
                s.yp()
            return g

        defvjp(yp_identity, lambda ans, x: _yield)
        defjvp(yp_identity, lambda g, ans, x: _yield(g))
        _YP["f"] = yp_identity
    return _YP["f"]


def shared_ops():
    """Differential-operator objects built ONCE and used by every thread (e.g. a module-level `hvp = hessian_vector_product(f)`)."""
    if not _SHARED:
        import autograd
        import autograd.numpy as anp
        from autograd import differential_operators as do

        def f(x, c=1.0):
            s = _TLS.s
            s.enter(); s.yp()
            y = anp.sin(x) * c + x * x
            s.yp(); s.leave()
            return y

        def fs(x, c=1.0):
            s = _TLS.s
            s.enter(); s.yp()
            y = anp.sum(anp.sin(x) * c + x ** 3)
            s.yp(); s.leave()
            return y

        def fk(x, c, k=2.0, *, e=1.0):
            s = _TLS.s
            s.enter(); s.yp()
            y = anp.sum(anp.sin(x) * c + k * x ** 2) * e
            s.yp(); s.leave()
            return y

        from autograd.extend import defjvp as _defjvp, defvjp as _defvjp, primitive as _primitive
        from autograd.misc.tracers import const_graph

        @_primitive
        def yp_forward(x):  # identity that yields whenever it is EVALUATED (also when a recorded graph is replayed)
            s = getattr(_TLS, "s", None)
            if s is not None:
                s.yp()
            return x * 1.0

        _defvjp(yp_forward, lambda ans, x: lambda g: g)
        _defjvp(yp_forward, lambda g, ans, x: g)

        def model(x, k):
            return anp.sum(anp.sin(yp_forward(2.0 * x)) * yp_forward(x)) * k + anp.sum(yp_forward(x * x))

        cg = const_graph(model)
        prev_s = getattr(_TLS, "s", None)
        _TLS.s = None
        cg(onp.ones(3), 1.0)  # the recording call happens here, once (no yields), before any thread replays the function
        _TLS.s = prev_s
        _SHARED.update(cg=cg, cg_ref=model)
        # the FUNCTIONS returned by make_jvp / make_vjp at one fixed point (a linearisation computed once, applied by every thread to its
        # own tangent / cotangent); fv yields while it is evaluated, and its backward pass yields through the yield-point primitive
        yp_shared = ypass()

        def fv(x, c=1.5):
            s = getattr(_TLS, "s", None)
            if s is not None:
                s.enter(); s.yp()
            y = yp_forward(anp.sin(x) * c) + yp_shared(x * x)
            if s is not None:
                s.yp(); s.leave()
            return y

        X0 = onp.array([0.2, -0.4, 0.6, 1.1])
        _SHARED.update(pushfwd=autograd.make_jvp(fv)(X0), pullback=autograd.make_vjp(fv)(X0)[0])
        _SHARED.update(tjp=do.tensor_jacobian_product(f), hvp=autograd.hessian_vector_product(fs), grad=autograd.grad(fs),
                       vag=autograd.value_and_grad(fs), jac=autograd.jacobian(f), mjvp=autograd.make_jvp(fs),
                       gradk=autograd.grad(fk), egradk=autograd.elementwise_grad(fk), mjvpk=autograd.make_jvp(fk), ck=autograd.checkpoint(f))
    return _SHARED



def make_prog(kind, a):
    """Returns prog(s) -> JSON-able result; `a` is a parameter so that threads work on unrelated data."""
    import autograd
    import autograd.numpy as anp

    def conv(v):
        arr = onp.asarray(v)
        return [str(arr.dtype), list(arr.shape), arr.tobytes().hex()]

    if kind == "grad1":
        def prog(s):
            def f(x):
                s.enter(); s.yp()
                y = anp.sin(x) * x
                s.yp()
                z = y + a * x
                s.yp(); s.leave()
                return z
            r = autograd.grad(f)(0.5 + a)
            s.yp()
            return conv(r)
    elif kind in ("nested", "nested_jvp", "nested_worker"):
        def prog(s):
            def outer(x):
                s.enter(); s.yp()

                def inner(y):
                    if kind != "nested_worker":
                        s.enter(); s.yp()
                    r = x * y * y + a * y
                    if kind != "nested_worker":
                        s.yp(); s.leave()
                    return r
                if kind == "nested_worker":
                    # the inner differentiation (closing over the outer traced value) runs in a worker thread the function starts and joins
                    import threading as _th

                    box = []
                    w_ = _th.Thread(target=lambda: box.append(autograd.grad(inner)(x)))
                    w_.start(); w_.join()
                    gi = box[0]
                else:
                    gi = autograd.grad(inner)(x) if kind == "nested" else autograd.make_jvp(inner)(x)(1.0)[1]
                s.yp()
                out = x * gi
                s.yp(); s.leave()
                return out
            r = autograd.grad(outer)(1.0 + a)
            s.yp()
            return conv(r)
    elif kind == "nested_twice":
        def prog(s):
            def outer(x):
                s.enter(); s.yp()

                def inner1(y):
                    s.enter(); s.yp()
                    r = x * y * y
                    s.yp(); s.leave()
                    return r

                def inner2(y):
                    s.enter(); s.yp()
                    r = anp.sin(x * y) + a * y * x
                    s.yp(); s.leave()
                    return r
                g1 = autograd.grad(inner1)(x)
                s.yp()
                g2 = autograd.grad(inner2)(x)
                s.yp()
                out = g1 * x + g2
                s.yp(); s.leave()
                return out
            r = autograd.grad(outer)(0.6 + a)
            s.yp()
            return conv(r)
    elif kind == "two_calls":
        def prog(s):
            def f(x):
                s.enter(); s.yp()
                y = anp.exp(0.3 * x) * x + a
                s.yp(); s.leave()
                return y
            r1 = autograd.grad(f)(0.2 + a)
            s.yp()
            r2 = autograd.grad(f)(0.9 + a)
            s.yp()
            return conv(onp.array([r1, r2]))
    elif kind == "grad1_bwd":
        def prog(s):
            yp_ = ypass()

            def f(x):
                s.enter(); s.yp()
                y = yp_(anp.sin(x) * x)
                z = yp_(y + a * x) * x + y
                s.yp(); s.leave()
                return z
            r = autograd.grad(f)(0.5 + a)
            s.yp()
            r2 = autograd.make_jvp(f)(0.3 + a)(1.0)[1]
            return conv(onp.array([r, r2]))
    elif kind == "nested_bwd":
        def prog(s):
            yp_ = ypass()

            def outer(x):
                s.enter(); s.yp()

                def inner(y):
                    s.enter()
                    r = yp_(x * y) * y + a * yp_(y)
                    s.leave()
                    return r
                gi = autograd.grad(inner)(x)
                out = yp_(x * gi) + yp_(x) * a
                s.yp(); s.leave()
                return out
            r = autograd.grad(outer)(1.0 + a)
            s.yp()
            return conv(r)
    elif kind == "shared_ckpt":
        def prog(s):
            # one checkpointed function object (decorator style) used by every thread on its own data; its VJP is pulled back several times
            ops = shared_ops()
            x0 = onp.array([0.2, -0.4, 0.6, 1.1]) * (1.0 + a)
            v = onp.array([1.0, 0.5, -1.0, 2.0]) * (0.5 + a)
            jac = autograd.jacobian(lambda t: ops["ck"](t, a) * (1.0 + a))(x0)
            s.yp()
            vjp, y = autograd.make_vjp(lambda t: ops["ck"](anp.sin(t), 2.0 * a))(x0)
            s.yp()
            r1 = vjp(v)
            s.yp()
            r2 = vjp(2.0 * v)
            return conv(onp.concatenate([onp.ravel(jac), r1, r2, y]))
    elif kind in ("shared_jvp", "shared_args"):
        def prog(s):
            ops = shared_ops()
            x0 = onp.array([0.2, -0.4, 0.6, 1.1]) * (1.0 + a)
            v = onp.array([1.0, 0.5, -1.0, 2.0]) * (0.5 + a)
            if kind == "shared_jvp":
                # the operator object and the function it returns are used at different times
                j1 = ops["mjvp"](x0, a)
                s.yp()
                j2 = ops["mjvpk"](x0 + 0.1, a, 1.0 + a, e=2.0 * a)
                s.yp()
                r1 = j1(v)[1]
                s.yp()
                r2 = j2(v)[1]
                return conv(onp.array([r1, r2]))
            r1 = ops["gradk"](x0, a, 1.0 + a, e=2.0 * a)
            s.yp()
            r2 = ops["egradk"](x0, 2.0 * a, e=a)
            s.yp()
            r3 = ops["gradk"](x0, c=a)
            return conv(onp.concatenate([r1, r2, r3]))
    elif kind in ("shared_tjp", "shared_hvp_twice", "shared_grad"):
        def prog(s):
            ops = shared_ops()
            _TLS.s = s
            x0 = onp.array([0.2, -0.4, 0.6, 1.1]) * (1.0 + a)
            v = onp.array([1.0, 0.5, -1.0, 2.0]) * (0.5 + a)
            if kind == "shared_tjp":
                r1 = ops["tjp"](x0, v)
                s.yp()
                r2 = ops["jac"](x0)
                return conv(onp.concatenate([onp.ravel(r1), onp.ravel(r2)]))
            if kind == "shared_hvp_twice":
                r1 = ops["hvp"](x0, v)
                s.yp()
                g_ = autograd.grad(lambda t: (s.yp(), anp.sum(t * t))[1])(x0)  # an unrelated differentiation in between
                s.yp()
                r2 = ops["hvp"](x0, v * 2.0)
                return conv(onp.concatenate([r1, r2, g_]))
            r1 = ops["grad"](x0, a)
            s.yp()
            val, r2 = ops["vag"](x0 + 0.1, c=a)
            return conv(onp.concatenate([r1, r2, [val]]))
    elif kind == "holomorphic":
        def prog(s):
            # a holomorphic gradient of a complex function, with yield points inside the function and inside its backward pass
            yp_ = ypass()
            _TLS.s = s
            cw = onp.array([1.0 + 0.5j, -0.3 + 2.0j, 0.7 - 1.0j]) * (1.0 + a)

            def f(z):
                s.enter(); s.yp()
                y = anp.sum(yp_(anp.sin(z) * z) * cw)
                s.yp(); s.leave()
                return y
            z0 = onp.array([0.3 + 0.2j, -0.5 + 1.0j, 0.8 - 0.4j]) * (1.0 + a)
            r = autograd.holomorphic_grad(f)(z0)
            s.yp()
            return conv(r)
    elif kind in ("flatten", "flatten_ref"):
        def prog(s):
            # autograd.misc.flatten on a dict of parameters whose matrix leaf is C-ordered in some threads and Fortran-ordered in others (same structure,
            # shapes and dtypes): the gradient with respect to the flat vector.  The reference (flatten_ref) is the closed form in plain NumPy.
            _TLS.s = s
            W = onp.array([[0.3, -0.5, 0.8], [1.1, 0.2, -0.7]]) * (1.0 + a)
            if a in (0.5, 1.25):
                W = onp.asfortranarray(W)
            b = onp.array([0.4, -0.9]) * (1.0 + a)
            CW = onp.array([[1.0, 2.0, -1.5], [0.5, -2.5, 3.0]])
            if kind == "flatten_ref":
                return conv(onp.concatenate([onp.ravel(W), b, onp.ravel(CW * onp.cos(W)), b + b]))
            from autograd.misc.flatten import flatten

            flat, unflatten = flatten({"b": b, "W": W})
            s.yp()

            def loss(fl):
                s.enter(); s.yp()
                p_ = unflatten(fl)
                y = anp.sum(anp.sin(p_["W"]) * CW) + anp.sum(p_["b"] * p_["b"])
                s.yp(); s.leave()
                return y
            g = autograd.grad(loss)(flat)
            s.yp()
            return conv(onp.concatenate([flat, g]))
    elif kind == "complex_mid":
        def prog(s):
            # real in, real out, complex in between: complex cotangents reach real operands (through broadcasting operations)
            yp_ = ypass()
            _TLS.s = s
            cw = onp.array([[1.0 + 0.5j, -0.3 + 2.0j, 0.7 - 1.0j]]) * (1.0 + a)

            def f(x):
                s.enter(); s.yp()
                u = yp_(x * cw)
                s.yp()
                y = anp.real(anp.sum(u * u * (a + 0.5j))) + anp.sum(anp.real(yp_(x + 1j * a) * cw))
                s.yp(); s.leave()
                return y
            r = autograd.grad(f)(onp.array([0.3, -0.5, 0.8]) * (1.0 + a))
            s.yp()
            return conv(r)
    elif kind in ("shared_pushforward", "shared_pullback"):
        def prog(s):
            ops = shared_ops()
            _TLS.s = s
            v = onp.array([1.0, 0.5, -1.0, 2.0]) * (0.5 + a)
            fn = ops["pushfwd"] if kind == "shared_pushforward" else ops["pullback"]
            r1 = fn(v)
            s.yp()
            r2 = fn(2.0 * v + a)
            pick = (lambda r: r[1]) if kind == "shared_pushforward" else (lambda r: r)
            return conv(onp.concatenate([pick(r1), pick(r2)]))
    elif kind == "const_graph":
        def prog(s):
            # one recorded-graph function (autograd.misc.const_graph), recorded beforehand, replayed by every thread on its own data
            ops = shared_ops()
            _TLS.s = s
            x0 = onp.array([0.2, -0.4, 0.6]) * (1.0 + a)
            r1 = ops["cg"](x0, a)
            s.yp()
            r2 = autograd.grad(lambda t: ops["cg"](t, 1.0 + a))(x0 + 0.1)
            s.yp()
            r3 = ops["cg"](x0 * 2.0, 1.0)
            return conv(onp.concatenate([[r1], r2, [r3]]))
    elif kind == "fwd_rev":
        def prog(s):
            def f(x):
                s.enter(); s.yp()
                y = anp.sum(anp.sin(x) * x * a)
                s.yp(); s.leave()
                return y
            x0 = onp.array([0.3, 0.9]) + a
            r = autograd.make_jvp(autograd.grad(f))(x0)(onp.array([1.0, -0.5]))[1]
            s.yp()
            return conv(r)
    elif kind == "rev_fwd":
        def prog(s):
            def f(x):
                s.enter(); s.yp()
                y = anp.tanh(x * a) * x
                s.yp(); s.leave()
                return y
            r = autograd.grad(lambda x: autograd.make_jvp(f)(x)(1.0)[1])(0.4 + a)
            s.yp()
            return conv(r)
    elif kind == "hvp":
        def prog(s):
            def f(x):
                s.enter(); s.yp()
                y = anp.sum(x ** 3) * a + anp.sum(anp.outer(x, x))
                s.yp(); s.leave()
                return y
            x0 = onp.array([0.2, -0.4, 0.6]) + a
            hvp, g = autograd.make_hvp(f)(x0)
            s.yp()
            r = hvp(onp.array([1.0, 0.5, -1.0]))
            s.yp()
            return conv(r)
    elif kind == "jacobian":
        def prog(s):
            def f(x):
                s.enter(); s.yp()
                y = anp.sin(x) * a
                s.yp()
                z = anp.concatenate([y, x[::-1] * y])
                s.yp(); s.leave()
                return z
            r = autograd.jacobian(f)(onp.array([0.1, 0.7]) + a)
            s.yp()
            return conv(r)
    else:  # nested3
        def prog(s):
            def l1(x):
                s.enter(); s.yp()

                def l2(y):
                    s.enter(); s.yp()

                    def l3(z):
                        s.enter(); s.yp()
                        r = x * y * z * z * a
                        s.yp(); s.leave()
                        return r
                    g3 = autograd.grad(l3)(y)
                    s.yp(); s.leave()
                    return g3 * y
                g2 = autograd.grad(l2)(x)
                s.yp(); s.leave()
                return g2 * x
            r = autograd.grad(l1)(0.8 + a)
            s.yp()
            return conv(r)
    def prog_tls(s, _prog=prog):
        _TLS.s = s
        try:
            return _prog(s)
        finally:
            _TLS.s = None

    return prog_tls


def run_case(kinds, params, schedule):
    progs = [make_prog(k, a) for k, a in zip(kinds, params)]
    solo = [Sched(1, []).run([p])[0] for p in progs]
    for i, (k, a) in enumerate(zip(kinds, params)):
        if k in TWIN:  # the reference is the twin program (inner differentiation in the calling thread), not the program's own solo run
            solo[i] = Sched(1, []).run([make_prog(TWIN[k], a)])[0]
    sch = Sched(len(progs), schedule)
    got = sch.run(progs)
    return solo, got, sch


# kinds in which the threads share an object built once per process (operator objects, a checkpointed function, a recorded graph)
SHARED_KINDS = ["shared_tjp", "shared_hvp_twice", "shared_grad", "shared_jvp", "shared_args", "shared_ckpt", "const_graph", "shared_pushforward", "shared_pullback"]


def body(c, pool=None):
    n = c.int(2, 4)
    pool = pool or KINDS
    kinds = [pool[c.int(0, len(pool) - 1)] for _ in range(n)]
    if c.chance(1, 3):
        kinds = [kinds[0]] * n  # every thread runs the same kind of program (on its own data): shared operator objects meet themselves
    params = [c.choice([0.25, 0.5, 0.75, 1.25]) for _ in range(n)]
    schedule = [c.int(0, n - 1) for _ in range(c.int(0, 40))]
    sample = {"kinds": kinds, "params": params, "schedule": schedule}
    solo, got, sch = run_case(kinds, params, schedule)
    for i, (a, b) in enumerate(zip(solo, got)):
        if a != b:
            return fail("interference", f"thread {i} ({kinds[i]}) obtained {summ(b)} but alone it obtains {summ(a)} (schedule {schedule})",
                        "C20|interference", sample=sample)
    c.features.update(n=n, overlap=sch.overlap, nested_overlap=sch.nested_overlap)
    labels = [f"threads={n}"] + (["overlap"] if sch.overlap else []) + (["nested_overlap"] if sch.nested_overlap else [])
    return ok(nontrivial=sch.nested_overlap, key=json.dumps(sample), labels=labels, sample=sample)


_FINE = {"installed": False}


def _fine_events(on):
    """Every function entry inside the autograd package becomes a yield point of the scheduled threads (sys.monitoring PY_START;
    nothing in /repo is modified).  Switched on only while a fine-grained case runs."""
    import os
    import sys

    import autograd

    mon = sys.monitoring
    tool = 2
    if not _FINE["installed"]:
        mon.use_tool_id(tool, "vh-preempt")
        root = os.path.dirname(os.path.abspath(autograd.__file__)) + os.sep

        def on_start(code, offset):
            if not code.co_filename.startswith(root):
                return mon.DISABLE
            s = getattr(_TLS, "s", None)
            if s is not None and s.fine:
                s.yp(internal=True)

        mon.register_callback(tool, mon.events.PY_START, on_start)
        _FINE["installed"] = True
    mon.set_events(tool, mon.events.PY_START if on else 0)


def fine_body(c, pool=None):
    """Pre-emption inside autograd's own code: function entries of the package are yield points, the schedule is a list of
    (thread, run length) pairs."""
    n = c.int(2, 3)
    pool = pool or KINDS
    kinds = [pool[c.int(0, len(pool) - 1)] for _ in range(n)]
    if c.chance(1, 3):
        kinds = [kinds[0]] * n
    params = [c.choice([0.25, 0.5, 0.75, 1.25]) for _ in range(n)]
    schedule = [(c.int(0, n - 1), c.int(1, 60)) for _ in range(c.int(1, 40))]
    sample = {"kinds": kinds, "params": params, "schedule": [list(p) for p in schedule], "fine": True}
    progs = [make_prog(k, a) for k, a in zip(kinds, params)]
    solo = [Sched(1, []).run([p])[0] if k not in TWIN else Sched(1, []).run([make_prog(TWIN[k], a)])[0] for p, k, a in zip(progs, kinds, params)]
    sch = Sched(len(progs), schedule)
    sch.fine = True
    _fine_events(True)
    try:
        got = sch.run(progs)
    finally:
        _fine_events(False)
    for i, (a, b) in enumerate(zip(solo, got)):
        if a != b:
            return fail("interference", f"thread {i} ({kinds[i]}) obtained {summ(b)} but alone it obtains {summ(a)} (pre-emption at autograd function "
                        f"entries, schedule {sample['schedule']})", "C20|interference|fine", sample=sample)
    c.features.update(n=n, internal_switches=sch.internal_switches)
    labels = [f"threads={n}", "fine"] + (["switch_inside_autograd"] if sch.internal_switches else []) + [f"yield_points>={min(sch.yields // 100 * 100, 1000)}"]
    return ok(nontrivial=sch.internal_switches > 0, key=json.dumps(sample), labels=labels, sample=sample)


def summ(r):
    if r[0] == "exc":
        return "exception " + r[1]
    dt, shape, hx = r[1]
    return str(onp.frombuffer(bytes.fromhex(hx), dtype=dt).reshape(shape).tolist())


SWEEP_PAIRS = [(("nested", 0.5), ("nested", 0.75)), (("shared_tjp", 0.5), ("shared_tjp", 0.75)), (("shared_hvp_twice", 0.5), ("shared_hvp_twice", 0.25)), (("nested_twice", 0.5), ("two_calls", 0.25)), (("nested", 0.5), ("grad1", 0.25)),
               (("nested3", 0.5), ("fwd_rev", 0.75)), (("hvp", 0.25), ("nested_jvp", 0.5))]


def sweep(tier, seed):
    """Bounded-exhaustive: every schedule of the given length for canonical 2-thread pairs."""
    length = 8 if tier == "quick" else 12
    pairs = SWEEP_PAIRS[:1] if tier == "quick" else SWEEP_PAIRS
    evaluations = 0
    keys = set()
    samples = []
    viols = []
    import os

    from .. import env

    for pair in pairs:
        kinds = [p[0] for p in pair]
        params = [p[1] for p in pair]
        progs = [make_prog(k, a) for k, a in zip(kinds, params)]
        solo = [Sched(1, []).run([p])[0] for p in progs]
        bad = None
        nontriv = 0
        for schedule in itertools.product([0, 1], repeat=length):
            sch = Sched(2, schedule)
            got = sch.run(progs)
            evaluations += 1
            if sch.nested_overlap:
                nontriv += 1
                keys.add("sweep|%s|%s" % (json.dumps(kinds), "".join(map(str, schedule))))
            if got != solo and bad is None:
                bad = list(schedule)
        samples.append({"test": "sweep", "case": {"kinds": kinds, "params": params, "length": length, "schedules": 2 ** length,
                                                  "with_nested_overlap": nontriv}})
        if bad is not None:
            os.makedirs(os.path.join(env.OUT_DIR, "replays", "C20"), exist_ok=True)
            rel = os.path.join("replays", "C20", f"sweep-{kinds[0]}-{kinds[1]}.json")
            with open(os.path.join(env.OUT_DIR, rel), "w") as f:
                plist = [0.25, 0.5, 0.75, 1.25]
                choices = [2] + [KINDS.index(k) for k in kinds] + [0] + [plist.index(a) for a in params] + [len(bad)] + bad  # [0]: not "same kind"
                json.dump({"property": "C20", "test": "threads", "choices": choices, "kinds": kinds, "params": params, "schedule": bad}, f)
            viols.append(("C20|sweep|interference", rel, f"exhaustive sweep: pair {kinds} schedule {bad} makes a thread's result differ from its solo run"))
    extra = {"exhaustive": True, "exhaustive_subspace": f"all {2 ** length} schedules of length {length} for {len(pairs)} canonical 2-thread pairs",
             "sweep_evaluations": evaluations}
    return evaluations, keys, samples, viols, extra


from functools import partial as _partial  # noqa: E402

PROP = Prop("C20", [
    Test("threads", body, quick=2400, thorough=20000, shard_size=150),
    Test("threads_fine", fine_body, quick=600, thorough=6000, shard_size=40),
] + [Test("shared:" + k_, _partial(body, pool=[k_]), quick=60, thorough=600, shard_size=30) for k_ in SHARED_KINDS]
  + [Test("shared_fine:" + k_, _partial(fine_body, pool=[k_]), quick=128, thorough=800, shard_size=16) for k_ in SHARED_KINDS], RULE, assumptions=[
    "the scheduler owns interleavings at the granularity of yield points: in user code (function entry, between operations, before return, "
    "between API calls, inside user derivative rules) and, in threads_fine, at every function entry inside the autograd package; pre-emption "
    "between two bytecodes of one autograd function body is not explored",
], extra_main=sweep)
