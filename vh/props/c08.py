"""C08 — nested differentiation is isolated (no perturbation confusion at any depth / mode)."""
import json
import math

import numpy as onp
from functools import partial

from ..case import Outcome, fail, ok, raised
from ..engine import Prop, Test
from ..refs import symbolic as S

RULE = (
    "Expression trees E ::= const | var | E+E | E*E | E/(2+E^2) | sin/cos/exp/tanh(0.5 E) | E**n | D_m(lambda y. E)(E) "
    "with D_m in {grad, deriv, jacobian, make_vjp(..)(1.0), make_jvp(..)(1.0), elementwise_grad, value_and_grad, "
    "hessian-diagonal forms} | d/dv_j d/dv_i (lambda va vb. E)(E, E) as two operators stacked directly on a two-argument function "
    "(argnum explicit or left to its default); inner bodies may mention any enclosing variable, the evaluation point may depend on "
    "outer variables; nesting depth 2-4, the mode of every level drawn independently (all 2^depth reverse/forward "
    "assignments are reachable). Oracle: reference symbolic differentiator with unique binders (vh/refs/symbolic.py), "
    "float evaluation, tolerance 1e-9 relative. Non-trivial = nesting depth >= 2 and some inner body mentions a "
    "variable bound at an enclosing level (the configuration in which confusion changes the answer); distinct by "
    "expression tree. layout: two nested levels (each reverse or forward) through ravel / reshape / flatten with order 'A' / 'K' of a "
    "C-, Fortran- or transposed-storage array that depends on the variables of both levels, against the closed form."
    ' nested_nary: one operation on three operands of different levels; vector3: three levels around a matrix product, the innermost differentiation closing over both enclosing levels, the outer-level operand optionally passed through array-method identities and the product optionally checkpointed.'
    ' broadcast_levels: two levels joined by a broadcasting binary operation (scalar / row / column outer variable against a full inner array, either operand), closed-form inner gradient, shape and central differences for the outer derivative. fixed_point_nested: depth 2-3 reverse-mode nesting through autograd.misc.fixed_points.fixed_point, levels differentiating the parameter or a closed-over variable in a drawn order, against the closed-form solution. mixed_kind: two levels whose variables differ in kind (real outer / complex inner or the reverse) joined by a matrix or elementwise product; closed-form inner gradient, central differences of it for the outer derivative, and the kind of the result.'
)

MODES = ["grad", "deriv", "jac", "vjp", "jvp", "egrad", "vag", "hvp_like"]
PMODES = ["jvp_primal", "vjp_primal", "vag_primal", "gaa_aux"]
HMODES = ["htp_arg1", "hvp_arg2", "make_hvp_arg1", "hessian_arg1"]


NARY = ["grad", "deriv", "jac", "egrad", "vag", "vjp", "jvp"]


def nary_ops():
    """Operators taking (fun, argnum) and returning a function of the same arguments as fun."""
    from autograd import deriv, elementwise_grad, grad, jacobian, make_jvp, make_vjp, value_and_grad

    def plain(op):
        return lambda f, *argnum: op(f, *argnum)

    return {
        "grad": plain(grad), "deriv": plain(deriv), "jac": plain(jacobian), "egrad": plain(elementwise_grad),
        "vag": lambda f, *argnum: (lambda *a: value_and_grad(f, *argnum)(*a)[1]),
        "vjp": lambda f, *argnum: (lambda *a: make_vjp(f, *argnum)(*a)[0](1.0)),
        "jvp": lambda f, *argnum: (lambda *a: make_jvp(f, *argnum)(*a)(1.0)[1]),
    }


class _Boom(Exception):
    pass
REV = {"grad", "jac", "vjp", "egrad", "vag"}


def ops():
    import autograd
    from autograd import deriv, elementwise_grad, grad, jacobian, make_jvp, make_vjp, value_and_grad

    return {
        "grad": lambda f: grad(f),
        "deriv": lambda f: deriv(f),
        "jac": lambda f: jacobian(f),
        "vjp": lambda f: (lambda x: make_vjp(f)(x)[0](1.0)),
        "jvp": lambda f: (lambda x: make_jvp(f)(x)(1.0)[1]),
        "egrad": lambda f: elementwise_grad(f),
        "vag": lambda f: (lambda x: value_and_grad(f)(x)[1]),
        "hvp_like": lambda f: (lambda x: make_jvp(f)(x)(1.0)[1]),
        # primal values handed back by the operators (must stay differentiable by enclosing levels)
        "jvp_primal": lambda f: (lambda x: make_jvp(f)(x)(1.0)[0]),
        "vjp_primal": lambda f: (lambda x: make_vjp(f)(x)[1]),
        "vag_primal": lambda f: (lambda x: value_and_grad(f)(x)[0]),
        "gaa_aux": lambda f: (lambda x: autograd.grad_and_aux(lambda y: (f(y), f(y)))(x)[1]),
        # second derivative through the Hessian-product operators with a non-default argnum and extra arguments
        "htp_arg1": lambda f: (lambda x: autograd.hessian_tensor_product(lambda k, y: f(y) + k * y, 1)(0.5, x, 1.0)),
        "hvp_arg2": lambda f: (lambda x: autograd.hessian_vector_product(lambda k, j, y, s=1.0: s * (f(y) + k * y * j), 2)(0.5, 2.0, x, 1.0, s=1.0)),
        "make_hvp_arg1": lambda f: (lambda x: autograd.make_hvp(lambda k, y: f(y) + k * y, 1)(0.5, x)[0](1.0)),
        "hessian_arg1": lambda f: (lambda x: autograd.hessian(lambda k, y: f(y) + k * y, 1)(0.5, x)),
    }


def gen(c, vars_, depth, counter, nary=False):
    """Draw an expression; depth bounds the tree height.  nary: binary operations are sometimes replaced by ONE operation on three
    operands drawn as shallow expressions (so that single variables of different levels meet in one call, in every order)."""
    if nary and depth > 0 and c.chance(1, 3):
        kids = [gen(c, vars_, min(depth - 1, c.int(0, 1)), counter, nary) for _ in range(3)]
        return ("A3k%d" % c.int(0, 2),) + tuple(kids)
    if depth <= 0:
        k = c.int(0, 3)
        return ("v", vars_[c.int(0, len(vars_) - 1)]) if k else ("c", c.choice([0.5, 0.75, 1.25, 1.5]))
    k = c.int(0, 12)
    if k <= 1:
        return ("v", vars_[c.int(0, len(vars_) - 1)])
    if k == 2:
        return ("c", c.choice([0.5, 0.75, 1.25, 1.5]))
    if k <= 4:
        return ("+", gen(c, vars_, depth - 1, counter, nary), gen(c, vars_, depth - 1, counter, nary))
    if k <= 6:
        return ("*", gen(c, vars_, depth - 1, counter, nary), gen(c, vars_, depth - 1, counter, nary))
    if k == 7:
        return ("/", gen(c, vars_, depth - 1, counter, nary), ("+", ("c", 2.0), ("pow", gen(c, vars_, depth - 2, counter, nary), 2)))
    if k == 8:
        return (c.choice(["sin", "exp", "tanh", "cos"]), ("*", ("c", 0.5), gen(c, vars_, depth - 1, counter, nary)))
    if k == 9:
        return ("pow", gen(c, vars_, depth - 1, counter, nary), c.choice([2, 3]))
    if k == 10 and c.chance(1, 3):
        return ("F", gen(c, vars_, depth - 1, counter, nary))
    counter[0] += 1
    y = "y%d" % counter[0]
    if k == 10 and c.chance(1, 2):
        # two operators stacked directly on a two-argument function: d/dv_j d/dv_i (argnum explicit, or left to its default when 0)
        counter[0] += 1
        y2 = "y%d" % counter[0]
        i, j = c.int(0, 1), c.int(0, 1)
        spec = (c.choice(NARY), j, c.choice(NARY), i, j == 1 or c.bool(), i == 1 or c.bool())
        # the body always mixes both variables (kernel with pairwise different second partials) with generated sub-expressions
        va, vb = ("v", y), ("v", y2)
        kernel = [("*", ("sin", ("*", ("c", 0.5), ("+", va, ("*", ("c", 2.0), vb)))), ("pow", vb, 2)),
                  ("*", ("pow", va, 2), ("pow", vb, 3)),
                  ("/", ("*", va, ("exp", ("*", ("c", 0.5), vb))), ("+", ("c", 2.0), ("pow", va, 2)))][c.int(0, 2)]
        mbody = ("+", ("*", kernel, gen(c, vars_ + [y, y2], depth - 2, counter, nary)), gen(c, vars_ + [y, y2], depth - 2, counter, nary))
        return ("M", spec, (y, y2), mbody, ("pair", gen(c, vars_, depth - 2, counter, nary), gen(c, vars_, depth - 2, counter, nary)))
    if k == 11 and c.chance(1, 3):
        return ("H", HMODES[c.int(0, len(HMODES) - 1)], y, gen(c, vars_ + [y], depth - 1, counter, nary), gen(c, vars_, depth - 2, counter, nary))
    if k == 12:
        return ("P", PMODES[c.int(0, len(PMODES) - 1)], y, gen(c, vars_ + [y], depth - 1, counter, nary), gen(c, vars_, depth - 2, counter, nary))
    mode = MODES[c.int(0, len(MODES) - 1)]
    return ("D", mode, y, gen(c, vars_ + [y], depth - 1, counter, nary), gen(c, vars_, depth - 2, counter, nary))


def comp(e, env, OPS, np):
    t = e[0]
    if t == "c":
        return e[1]
    if t == "v":
        return env[e[1]]
    if t == "+":
        return comp(e[1], env, OPS, np) + comp(e[2], env, OPS, np)
    if t == "*":
        return comp(e[1], env, OPS, np) * comp(e[2], env, OPS, np)
    if t == "/":
        return comp(e[1], env, OPS, np) / comp(e[2], env, OPS, np)
    if t == "pow":
        return comp(e[1], env, OPS, np) ** e[2]
    if t == "F":
        # an inner differentiation fails and is caught here, inside whatever differentiations are running; then carry on
        import autograd

        def boom(y):
            z = np.sin(y)
            raise _Boom()

        for op in (autograd.grad, lambda g: (lambda x: autograd.make_jvp(g)(x)(1.0))):
            try:
                op(boom)(0.3)
            except _Boom:
                pass
        return comp(e[1], env, OPS, np)
    if t == "M":
        _, (m_out, j, m_in, i, explicit_j, explicit_i), (va, vb), body, at = e
        N = nary_ops()
        f = lambda a, b: comp(body, {**env, va: a, vb: b}, OPS, np)
        inner = N[m_in](f, i) if explicit_i else N[m_in](f)
        outer = N[m_out](inner, j) if explicit_j else N[m_out](inner)
        return outer(comp(at[1], env, OPS, np), comp(at[2], env, OPS, np))
    if t in ("D", "P", "H"):
        _, mode, var, body, at = e
        f = lambda y: comp(body, {**env, var: y}, OPS, np)
        return OPS[mode](f)(comp(at, env, OPS, np))
    if t.startswith("A3"):
        a, b, c_ = (comp(k_, env, OPS, np) for k_ in e[1:])
        if t == "A3k0":
            arr = np.array([a, b, c_])
            return arr[0] * arr[1] + np.sin(0.5 * arr[2])
        if t == "A3k1":
            return np.einsum(",,->", a, b, c_)
        return np.dot(np.concatenate([np.atleast_1d(a), np.atleast_1d(b), np.atleast_1d(c_)]), onp.array([0.5, -1.5, 2.0]))
    return getattr(np, t)(comp(e[1], env, OPS, np))


def closure_patterns(e, bound=()):
    """Set of closure-pattern labels of all binders in e: which enclosing variables does each body mention?"""
    out = set()
    t = e[0]
    if t in ("c", "v"):
        return out
    if t == "pow":
        return closure_patterns(e[1], bound)
    if t == "F":
        return {"after_caught_failure"} | closure_patterns(e[1], bound)
    if t == "M":
        _, spec, (va, vb), body, at = e
        out.add("stacked_operators_argnum=%d%d" % (spec[3], spec[1]))
        if any(S.mentions(body, b_) for b_ in bound):
            out.add("closure=immediate" if S.mentions(body, bound[-1]) else "closure=skip_level")
        if any(S.mentions(at, b_) for b_ in bound):
            out.add("point_depends_on_outer")
        return out | closure_patterns(body, bound + (va, vb)) | closure_patterns(at[1], bound) | closure_patterns(at[2], bound)
    if t in ("D", "P", "H"):
        _, mode, var, body, at = e
        if t == "P":
            out.add("primal_through_operator")
        if t == "H":
            out.add("hessian_operator")
        used = [b for b in bound if S.mentions(body, b)]
        if not bound:
            pass
        elif not used:
            out.add("closure=none")
        elif len(used) == len(bound) and len(bound) > 1:
            out.add("closure=all")
        elif used == [bound[-1]]:
            out.add("closure=immediate")
        else:
            out.add("closure=skip_level")
        if any(S.mentions(at, b) for b in bound):
            out.add("point_depends_on_outer")
        out |= closure_patterns(body, bound + (var,))
        out |= closure_patterns(at, bound)
        return out
    for a in e[1:]:
        out |= closure_patterns(a, bound)
    return out


def modeseq(e, acc=None):
    acc = [] if acc is None else acc
    t = e[0]
    if t in ("c", "v"):
        return acc
    if t == "pow":
        return modeseq(e[1], acc)
    if t == "F":
        return modeseq(e[1], acc)
    if t == "M":
        acc.append("r" if e[1][0] in REV else "f")
        acc.append("r" if e[1][2] in REV else "f")
        modeseq(e[3], acc)
        modeseq(e[4][1], acc)
        modeseq(e[4][2], acc)
        return acc
    if t in ("D", "P", "H"):
        acc.append("r" if (e[1] in REV or e[1] in ("vjp_primal", "vag_primal", "gaa_aux") or t == "H") else "f")
        modeseq(e[3], acc)
        modeseq(e[4], acc)
        return acc
    for a in e[1:]:
        modeseq(a, acc)
    return acc


def body(depth, c, nary=False):
    import autograd.numpy as anp

    OPS = ops()
    counter = [0]
    mode = MODES[c.int(0, len(MODES) - 1)]
    x0 = c.choice([0.3, 0.55, 0.8, 1.05, 1.2])
    # the outer body always contains at least one inner differentiation (so depth >= 2 by construction)
    counter[0] += 1
    y = "y%d" % counter[0]
    if c.chance(1, 5):
        inner = ("P", PMODES[c.int(0, len(PMODES) - 1)], y, gen(c, ["x", y], depth - 1, counter, nary), gen(c, ["x"], depth - 1, counter, nary))
    else:
        inner = ("D", MODES[c.int(0, len(MODES) - 1)], y, gen(c, ["x", y], depth - 1, counter, nary), gen(c, ["x"], depth - 2, counter, nary))
    rest = gen(c, ["x"], depth - 1, counter, nary)
    top = c.int(0, 3)
    outer_body = [("*", rest, inner), ("+", inner, rest), inner, ("*", ("v", "x"), inner)][top]
    e = ("D", mode, "x", outer_body, ("c", x0))
    nd = S.ndepth(e)
    sample = {"expr": repr(e)}
    if nd < 2 or S.size(e) > 60:
        return Outcome("numpy_rejects", detail="depth < 2 or too large", sample=sample)
    try:
        res = S.resolve(e)
        if S.size(res) > 300000:
            return Outcome("numpy_rejects", detail="resolved tree too large", sample=sample)
        ref = S.ev(res, {})
    except (OverflowError, ZeroDivisionError, RecursionError):
        return Outcome("numpy_rejects", detail="reference overflow", sample=sample)
    if not math.isfinite(ref) or abs(ref) > 1e7:
        return Outcome("numpy_rejects", detail="reference too large", sample=sample)
    pats = closure_patterns(e)
    ms = "".join(modeseq(e))
    labels = sorted(pats) + [f"depth={nd}", "modes=" + ("mixed" if ("r" in ms and "f" in ms) else ("rev" if "r" in ms else "fwd"))]
    nontrivial = any(p in pats for p in ("closure=immediate", "closure=skip_level", "closure=all"))
    c.features.update(depth=nd, modes=ms, patterns=sorted(pats))
    try:
        got = comp(e, {}, OPS, anp)
        got = float(got)
    except NotImplementedError as ex:
        if "not defined" in str(ex):
            return raised(ex, "nested", labels=labels, sample=sample)
        return fail("unexpected_exception", f"{type(ex).__name__}: {ex}"[:300], "C08|nested|unexpected_exception", sample=sample)
    except Exception as ex:
        return fail("unexpected_exception", f"{type(ex).__name__}: {ex}"[:300], "C08|nested|unexpected_exception", sample=sample)
    if not abs(got - ref) <= 1e-9 * max(1.0, abs(ref)):
        return fail("wrong_value", f"autograd {got!r} reference {ref!r} modes={ms}", "C08|nested|wrong_value", sample=sample)
    return ok(nontrivial=nontrivial, key=repr(e), labels=labels, sample=sample)


# ---------------------------------------------------------------------------------------------
# vector-valued variant: inner grad/jacobian of an array function inside an outer jacobian / HVP


def vector_body(c):
    import autograd
    import autograd.numpy as anp
    import numpy as onp

    from .. import values

    n = c.int(2, 3)
    vseed = c.seed()
    (x0, A), _ = values.generic(vseed, [(n,), (n, n)], -1.0, 1.0)
    inner_mode = c.choice(["grad", "jacobian_sum", "vjp", "jvp"])
    outer_mode = c.choice(["jacobian", "jvp_basis", "hvp"])
    uses_outer = c.bool()
    sample = {"n": n, "inner": inner_mode, "outer": outer_mode, "uses_outer": uses_outer, "vseed": vseed}
    # h(x) = d/dy [ sum(sin(A y) * (x if uses_outer else 1)) ] at y = x*x   -> vector of size n
    # closed form: inner g(y; x) = sum_i sin((A y)_i) w_i(x);  dg/dy = A^T (cos(A y) * w)
    def w(x, np):
        return x if uses_outer else np.ones(n)

    def h_ag(x):
        def g(y):
            return anp.sum(anp.sin(anp.dot(A, y)) * w(x, anp))
        at = x * x
        if inner_mode == "grad":
            return autograd.grad(g)(at)
        if inner_mode == "jacobian_sum":
            return autograd.jacobian(g)(at)
        if inner_mode == "vjp":
            return autograd.make_vjp(g)(at)[0](1.0)
        return anp.array([autograd.make_jvp(g)(at)(onp.eye(n)[i])[1] for i in range(n)])

    def h_np(x):
        at = x * x
        return A.T @ (onp.cos(A @ at) * w(x, onp))

    def J_np(x):
        at = x * x
        wv = w(x, onp)
        # d/dx of A^T (cos(A x^2) * w)
        t1 = A.T @ (-(onp.sin(A @ at) * wv)[:, None] * (A * (2 * x)[None, :]))
        t2 = A.T @ onp.diag(onp.cos(A @ at)) if uses_outer else 0.0
        return t1 + t2

    Jref = J_np(x0)
    try:
        if outer_mode == "jacobian":
            J = autograd.jacobian(h_ag)(x0)
        elif outer_mode == "jvp_basis":
            J = onp.stack([autograd.make_jvp(h_ag)(x0)(onp.eye(n)[i])[1] for i in range(n)], axis=1)
        else:
            v = values.direction(vseed, (n,), 5)
            u = values.direction(vseed, (n,), 6)
            got = autograd.grad(lambda x: anp.dot(h_ag(x), u))(x0)
            J = None
            ref = Jref.T @ u
            if not onp.allclose(got, ref, rtol=1e-9, atol=1e-10):
                return fail("wrong_value", f"hvp {got} vs {ref}", "C08|vector|wrong_value", sample=sample)
    except NotImplementedError as ex:
        if "not defined" in str(ex):
            return raised(ex, "vector", sample=sample)
        return fail("unexpected_exception", f"{type(ex).__name__}: {ex}"[:300], "C08|vector|unexpected_exception", sample=sample)
    except Exception as ex:
        return fail("unexpected_exception", f"{type(ex).__name__}: {ex}"[:300], "C08|vector|unexpected_exception", sample=sample)
    if J is not None and not onp.allclose(J, Jref, rtol=1e-9, atol=1e-10):
        return fail("wrong_value", f"nested Jacobian mismatch: max abs err {float(onp.max(onp.abs(J - Jref))):.3e}", "C08|vector|wrong_value", sample=sample)
    c.features.update(inner=inner_mode, outer=outer_mode, uses_outer=uses_outer)
    return ok(nontrivial=uses_outer, key=json.dumps([n, inner_mode, outer_mode, uses_outer]), labels=[f"inner={inner_mode}", f"outer={outer_mode}"], sample=sample)


def vector3_body(c):
    """Three nested levels around a matrix product.  The innermost differentiation (with respect to one operand of the product) closes
    over the variables of BOTH enclosing levels: the other operand is s*M0 + y*M1 and the result is scaled by phi(y).  Reference: the
    closed form of the innermost gradient in raw NumPy, its mixed partial d2/ds dy by Richardson-extrapolated central differences."""
    import autograd
    import autograd.numpy as anp

    from .. import values

    k = c.int(2, 3)
    vseed = c.seed()
    (A0, A1, W, B0, B1, W2), _ = values.generic(vseed, [(2, k), (2, k), (2, k), (k, 3), (k, 3), (k, 3)], -1.0, 1.0)
    prod_kind = c.choice(["dot", "tensordot", "inner", "matmul", "einsum"])
    which = c.int(0, 1)
    inner_mode = c.choice(["grad", "vjp", "jacobian", "fwd_basis"])
    mid_mode, outer_mode = c.choice(["grad", "deriv", "jvp"]), c.choice(["grad", "deriv", "jvp"])
    phi_kind = c.int(0, 1)
    # the operand that depends on the enclosing levels also passes through an identity spelled with array METHODS / attributes
    via = c.choice(["none", "transpose_transpose", "T_T", "reshape", "ravel_reshape", "swapaxes_twice", "astype", "squeeze", "flatten_reshape", "clip_wide"])
    ckpt = c.chance(1, 3)  # the product is computed by a checkpointed two-argument function (its backward pass recomputes it)
    ymix = float(c.int(0, 1))  # 0: the other operand depends on the OUTERMOST variable only (the cotangent on the middle one)
    s0, y0 = c.choice([0.6, 0.8, 1.1]), c.choice([0.7, 1.3, 1.7])
    sample = {"k": k, "prod": prod_kind, "other_operand_uses_y": ymix, "via_methods": via, "checkpointed_product": ckpt, "wrt_operand": which, "inner": inner_mode, "mid": mid_mode, "outer": outer_mode, "phi": phi_kind, "vseed": vseed}

    def prod(np_, A, B):
        if prod_kind == "dot":
            return np_.dot(A, B)
        if prod_kind == "tensordot":
            return np_.tensordot(A, B, axes=([1], [0]))
        if prod_kind == "inner":
            return np_.inner(A, B.T)
        if prod_kind == "matmul":
            return A @ B
        return np_.einsum("ij,jk->ik", A, B)

    phi = (lambda np_, y: np_.sin(y)) if phi_kind == 0 else (lambda np_, y: y * y)
    prod_ag = autograd.checkpoint(lambda A, B: prod(anp, A, B)) if ckpt else (lambda A, B: prod(anp, A, B))

    def G(s, y):  # closed form of sum(weights * d/d(operand) sum(sin(A B) phi(y)))
        if which == 0:
            B = s * B0 + ymix * y * B1
            return float(phi(onp, y) * onp.sum(W * (onp.cos(A0 @ B) @ B.T)))
        A = s * A0 + ymix * y * A1
        return float(phi(onp, y) * onp.sum(W2 * (A.T @ onp.cos(A @ B0))))

    def mixed(h):
        return (G(s0 + h, y0 + h) - G(s0 + h, y0 - h) - G(s0 - h, y0 + h) + G(s0 - h, y0 - h)) / (4 * h * h)

    m1, m2 = mixed(1e-3), mixed(2e-3)
    want = (4 * m1 - m2) / 3
    if abs(m1 - m2) > 1e-4 * max(1.0, abs(want)):
        return Outcome("inconclusive", detail="mixed partial not resolved", sample=sample)

    def first(fun, mode):
        if mode == "grad":
            return autograd.grad(fun)
        if mode == "deriv":
            return autograd.deriv(fun)
        return lambda t: autograd.make_jvp(fun)(t)(1.0)[1]

    def through_methods(Z):
        if via == "none" or not hasattr(Z, "reshape"):
            return Z
        sh = Z.shape
        return {"transpose_transpose": lambda: Z.transpose().transpose(), "T_T": lambda: Z.T.T, "reshape": lambda: Z.reshape(sh),
                "ravel_reshape": lambda: Z.ravel().reshape(sh), "swapaxes_twice": lambda: Z.swapaxes(0, 1).swapaxes(1, 0), "astype": lambda: Z.astype(float),
                "squeeze": lambda: Z.squeeze(), "flatten_reshape": lambda: Z.flatten().reshape(sh), "clip_wide": lambda: Z.clip(-1e9, 1e9)}[via]()

    def K(s):
        def H(y):
            if which == 0:
                other, at, wts = through_methods(s * B0 + y * B1 if ymix else s * B0), A0, W
                F = lambda A: anp.sum(anp.sin(prod_ag(A, other)) * phi(anp, y))
            else:
                other, at, wts = through_methods(s * A0 + y * A1 if ymix else s * A0), B0, W2
                F = lambda B: anp.sum(anp.sin(prod_ag(other, B)) * phi(anp, y))
            if inner_mode == "grad":
                dF = autograd.grad(F)(at)
            elif inner_mode == "vjp":
                dF = autograd.make_vjp(F)(at)[0](1.0)
            elif inner_mode == "jacobian":
                dF = autograd.jacobian(F)(at)
            else:
                rows = []
                for i in range(at.shape[0]):
                    row = []
                    for j in range(at.shape[1]):
                        E = onp.zeros(at.shape)
                        E[i, j] = 1.0
                        row.append(autograd.make_jvp(F)(at)(E)[1])
                    rows.append(row)
                dF = anp.array(rows)
            return anp.sum(wts * dF)
        return first(H, mid_mode)(y0)

    bucket = lambda kd: f"C08|vector3|{kd}"
    try:
        val_mid = K(s0)
        got = first(K, outer_mode)(s0)
    except NotImplementedError as ex:
        if "not defined" in str(ex):
            return raised(ex, "vector3", sample=sample)
        return fail("unexpected_exception", f"{type(ex).__name__}: {ex}"[:300], bucket("unexpected_exception"), sample=sample)
    except Exception as ex:
        return fail("unexpected_exception", f"{type(ex).__name__}: {ex}"[:300], bucket("unexpected_exception"), sample=sample)
    dy = (G(s0, y0 + 1e-5) - G(s0, y0 - 1e-5)) / 2e-5
    if not abs(float(val_mid) - dy) <= 1e-6 * max(1.0, abs(dy)):
        return fail("wrong_value", f"depth 2 (d/dy of the innermost gradient): autograd {float(val_mid)!r} closed form {dy!r}", bucket("wrong_value_depth2"), sample=sample)
    if not abs(float(got) - want) <= 1e-5 * max(1.0, abs(want)):
        return fail("wrong_value", f"depth 3 (d/ds d/dy of the innermost gradient): autograd {float(got)!r} closed form {want!r}", bucket("wrong_value"), sample=sample)
    c.features.update(prod=prod_kind, inner=inner_mode, mid=mid_mode, outer=outer_mode)
    return ok(nontrivial=True, key=json.dumps([k, prod_kind, which, inner_mode, mid_mode, outer_mode, phi_kind, ymix, via, ckpt]),
              labels=[f"prod={prod_kind}", f"modes={outer_mode}>{mid_mode}>{inner_mode}"], sample=sample)


def layout_body(c):
    """Nested differentiation through a layout-dependent operation: ravel / reshape with order='A' (or 'K') of a Fortran-ordered array
    that depends on the variables of both levels.  Closed form: reading a Fortran-ordered array with order='A' is reading it in F order."""
    import autograd
    import autograd.numpy as anp
    import numpy as onp

    from .. import values

    m, n = c.int(2, 3), c.int(2, 3)
    vseed = c.seed()
    (X0, V, T, U), _ = values.generic(vseed, [(m, n)] * 4, 0.4, 1.4)
    (cvec,), _ = values.generic(vseed, [(m * n,)], -1.0, 1.0, stream=3)
    layout = c.choice(["F", "C", "T"])
    if layout == "F":
        X0 = onp.asfortranarray(X0)
    elif layout == "T":
        X0 = onp.ascontiguousarray(X0.T).T
    how = c.choice(["ravel_A", "reshape_A", "ravel_K", "flatten_A"])
    inner_mode, outer_mode = c.choice(["rev", "fwd"]), c.choice(["rev", "fwd"])
    isf = onp.isfortran(X0)
    CF = cvec.reshape((m, n), order="F" if isf else "C")  # the coefficient each entry meets when read in the array's own order

    def flat(Z):
        if how == "ravel_A":
            return anp.ravel(Z, order="A")
        if how == "reshape_A":
            return anp.reshape(Z, (m * n,), order="A")
        if how == "ravel_K":
            return anp.ravel(Z, order="K")
        return Z.flatten("A") if hasattr(Z, "flatten") else onp.ravel(Z, order="A")

    def H(Xo):
        inner_val = lambda Y: anp.sum(cvec * flat(Y * Y * Xo))
        Y0 = Xo * 1.0
        if inner_mode == "rev":
            return anp.sum(V * autograd.grad(inner_val)(Y0))
        return autograd.make_jvp(inner_val)(Y0)(T)[1]

    W = V if inner_mode == "rev" else T
    dH = 4.0 * CF * X0 * W
    sample = {"m": m, "n": n, "layout": layout, "how": how, "inner": inner_mode, "outer": outer_mode, "vseed": vseed}
    try:
        if outer_mode == "rev":
            got, want = onp.asarray(autograd.grad(H)(X0)), dH
        else:
            got, want = onp.asarray(autograd.make_jvp(H)(X0)(U)[1]), onp.sum(dH * U)
        val, ref = float(H(X0)), float(onp.sum(2.0 * CF * X0 * X0 * W))
    except NotImplementedError as ex:
        return raised(ex, "layout", sample=sample)
    except Exception as ex:
        return fail("unexpected_exception", f"{type(ex).__name__}: {ex}"[:300], "C08|layout|unexpected_exception", sample=sample)
    if abs(val - ref) > 1e-10 * max(1.0, abs(ref)):
        return fail("wrong_value", f"inner derivative {val!r} reference {ref!r}", "C08|layout|inner_value", sample=sample)
    if got.shape != onp.shape(want) or not onp.allclose(got, want, rtol=1e-10, atol=1e-12):
        return fail("wrong_value", f"nested derivative through {how} of a {layout}-ordered array ({inner_mode} inside {outer_mode}): {got.tolist()} expected "
                    f"{onp.asarray(want).tolist()}", "C08|layout|wrong_value", sample=sample)
    return ok(nontrivial=bool(isf), key=json.dumps(sample), labels=["layout=" + layout, "how=" + how, f"modes={outer_mode}/{inner_mode}"], sample=sample)


def fixed_point_nested_body(c):
    """Nested reverse-mode differentiation through autograd.misc.fixed_points.fixed_point (a primitive whose VJP solves an adjoint fixed point and
    must keep every dependence traceable): F(a, b) = w . x*, x* = a tanh(M x*) + tanh(b a v); each level differentiates one of (a, b) in a drawn order of
    depth 2-3, inner levels closing over the outer variables.  Oracle: the same contraction iterated to convergence in NumPy, mixed partials by Richardson-
    extrapolated central differences."""
    import autograd
    import autograd.numpy as anp
    from autograd.misc.fixed_points import fixed_point

    from .. import values
    from ..case import describe_exc, from_autograd

    n = c.int(1, 3)
    vseed = c.seed()
    (M0, v, w), _ = values.generic(vseed, [(n, n), (n,), (n,)], -1.0, 1.0)
    M = 0.4 * M0 / max(1.0, float(onp.max(onp.abs(onp.linalg.eigvals(M0)))))
    a0, b0 = c.choice([0.5, 0.8, 1.1]), c.choice([0.6, 0.9, 1.3])
    depth = c.int(2, 3)
    wrt = [c.choice("ab") for _ in range(depth)]  # innermost first
    if c.chance(1, 2):
        wrt = sorted(wrt)  # half of the cases: the a-levels inside the b-levels (with `a` as the parameter this is the arrangement the tree gets right)
    sample = {"n": n, "a": a0, "b": b0, "wrt_innermost_first": wrt, "vseed": vseed}
    c.features.update(depth=depth, wrt="".join(wrt), mixed=len(set(wrt)) > 1)

    def closed(a, b):
        # the reference solves the same contraction (factor <= 0.44) by plain iteration in NumPy, far below the differencing error
        x = onp.zeros(n)
        for _ in range(200):
            x = a * onp.tanh(M @ x) + onp.tanh(b * a * v)
        return float(w @ x)

    dist = lambda x, y: float(onp.max(onp.abs(onp.asarray(autograd.tracer.getval(x)) - onp.asarray(autograd.tracer.getval(y)))))

    def F(a, b):
        # the map closes over b; a is the parameter handed to fixed_point
        return anp.dot(w, fixed_point(lambda a_: (lambda x: a_ * anp.tanh(anp.dot(M, x)) + anp.tanh(b * a_ * v)), a, onp.zeros(n), dist, 1e-14))

    def F2(a, b):
        # ... and the other way round: b is the parameter, a is closed over
        return anp.dot(w, fixed_point(lambda b_: (lambda x: a * anp.tanh(anp.dot(M, x)) + anp.tanh(b_ * a * v)), b, onp.zeros(n), dist, 1e-14))

    which = c.choice(["a_param", "b_param"])
    sample["param"] = which
    Fn = F if which == "a_param" else F2
    # known finding (fixed-point-map-closes-over-traced-value): the map handed to fixed_point closes over a variable that some level differentiates
    # while another level differentiates the explicit parameter.  Not covered by it: F with the closed-over variable differentiated at OUTER levels only
    # (there the closed-over variable does not enter the derivative of the map with respect to x, and the tree is right)
    P, Q = ("a", "b") if which == "a_param" else ("b", "a")
    mixed = P in wrt and Q in wrt
    outer_only = mixed and max(i for i, nm in enumerate(wrt) if nm == P) < min(i for i, nm in enumerate(wrt) if nm == Q)
    c.features.update(param=which, closure_case=bool(mixed and not (which == "a_param" and outer_only)))

    def build(k, env):
        """derivative operator stack: level k differentiates wrt[k]; env holds the current values of a and b (possibly traced)"""
        if k < 0:
            return Fn(env["a"], env["b"])
        name = wrt[k]
        return autograd.grad(lambda t: build(k - 1, dict(env, **{name: t})))(env[name])

    def num(f, pt, names):
        if not names:
            return f(pt["a"], pt["b"])
        nm, rest = names[0], names[1:]
        h = 2e-2 if len(names) == 1 else 4e-2
        d = lambda hh: (num(f, dict(pt, **{nm: pt[nm] + hh}), rest) - num(f, dict(pt, **{nm: pt[nm] - hh}), rest)) / (2 * hh)
        return (4 * d(h / 2) - d(h)) / 3

    want = num(closed, {"a": a0, "b": b0}, list(wrt))
    try:
        got = build(depth - 1, {"a": a0, "b": b0})
        from autograd.tracer import isbox

        if isbox(got):
            return fail("tracer_leak", f"the nested derivative {wrt} through fixed_point comes back as a tracer", "C08|fixed_point_nested|leak", sample=sample)
        got = float(got)
    except Exception as e:
        if not from_autograd(e):
            raise
        return fail("unexpected_exception", describe_exc(e), "C08|fixed_point_nested|exception", sample=sample)
    tol = {2: 2e-5, 3: 3e-3}[depth] * max(1.0, abs(want))
    if not abs(got - want) <= tol:
        return fail("wrong_value", f"d^{depth} F / d{' d'.join(reversed(wrt))} through fixed_point: autograd {got!r}, closed form {want!r}", f"C08|fixed_point_nested|depth{depth}", sample=sample)
    return ok(nontrivial=True, key=json.dumps([n, a0, b0, wrt, which]), labels=["fixed_point_nested", f"depth={depth}", "param=" + which], sample=sample)


def broadcast_levels_body(c):
    """Two levels joined by a BROADCASTING binary operation: the outer variable x is a scalar / row / column, the inner variable y a full (3, 4) array (or
    the other way round), op in power / multiply / divide / arctan2 / logaddexp / hypot / subtract.  h(x) = sum(W * grad_y[sum(C * op(x, y))]); the inner
    gradient is C * d op / d y in closed form (NumPy), the outer derivative its central differences; the result has the SHAPE of x."""
    import autograd
    import autograd.numpy as anp

    from .. import values
    from ..case import describe_exc, from_autograd

    vseed = c.seed()
    op = c.choice(["power", "multiply", "divide", "arctan2", "logaddexp", "hypot", "subtract", "power_op"])
    small = c.choice([(), (3, 1), (1, 4), (4,), (1, 1), (3, 4)])
    outer_is_first = c.bool()  # the outer variable is the first operand (for power: the base)
    modes = c.choice(["rr", "rr", "fr", "rf", "ff"])
    (xs, ys, Cc, Wc), _ = values.generic(vseed, [small, (3, 4), (3, 4), (3, 4)], 0.4, 1.6)
    x0 = float(xs) if small == () and vseed % 2 else xs
    sample = {"op": op, "outer_shape": list(small), "outer_is_first": outer_is_first, "modes": modes, "vseed": vseed}
    c.features.update(op=op, outer_shape=list(small), outer_is_first=outer_is_first, modes=modes)
    bucket = lambda k: f"C08|broadcast_levels|{op}|{k}"
    fn = {"power": lambda ns, a, b: ns.power(a, b), "power_op": lambda ns, a, b: a ** b, "multiply": lambda ns, a, b: a * b, "divide": lambda ns, a, b: a / b,
          "arctan2": lambda ns, a, b: ns.arctan2(a, b), "logaddexp": lambda ns, a, b: ns.logaddexp(a, b), "hypot": lambda ns, a, b: ns.hypot(a, b),
          "subtract": lambda ns, a, b: (a - b) * (a - b)}[op]
    # closed-form derivative of op(a, b) with respect to the operand the INNER level differentiates
    d_first = {"power": lambda a, b: b * a ** (b - 1), "power_op": lambda a, b: b * a ** (b - 1), "multiply": lambda a, b: b + 0 * a, "divide": lambda a, b: 1 / b + 0 * a,
               "arctan2": lambda a, b: b / (a * a + b * b), "logaddexp": lambda a, b: onp.exp(a) / (onp.exp(a) + onp.exp(b)), "hypot": lambda a, b: a / onp.hypot(a, b),
               "subtract": lambda a, b: 2 * (a - b)}[op]
    d_second = {"power": lambda a, b: a ** b * onp.log(a), "power_op": lambda a, b: a ** b * onp.log(a), "multiply": lambda a, b: a + 0 * b, "divide": lambda a, b: -a / (b * b),
                "arctan2": lambda a, b: -a / (a * a + b * b), "logaddexp": lambda a, b: onp.exp(b) / (onp.exp(a) + onp.exp(b)), "hypot": lambda a, b: b / onp.hypot(a, b),
                "subtract": lambda a, b: -2 * (a - b)}[op]

    def g(x, y):
        return anp.sum(Cc * (fn(anp, x, y) if outer_is_first else fn(anp, y, x)))

    def h_ref(x):
        x = onp.asarray(x, dtype=float)
        d = d_second(x, ys) if outer_is_first else d_first(ys, x)
        return float(onp.sum(Wc * Cc * d))

    def h(x):
        if modes[1] == "r":
            gy = autograd.grad(g, 1)(x, ys)
            return anp.sum(Wc * gy)
        tot = 0.0
        for idx in onp.ndindex(3, 4):
            e = onp.zeros((3, 4))
            e[idx] = 1.0
            tot = tot + Wc[idx] * autograd.make_jvp(lambda y_: g(x, y_))(ys)(e)[1]
        return tot

    xa = onp.asarray(x0, dtype=float)
    want = onp.zeros(xa.shape)
    hh = 1e-5
    for idx in onp.ndindex(*xa.shape):
        e = onp.zeros(xa.shape)
        e[idx] = hh
        want[idx] = (h_ref(xa + e) - h_ref(xa - e)) / (2 * hh)
    try:
        if abs(float(h(x0)) - h_ref(xa)) > 1e-10 * max(1.0, abs(h_ref(xa))):
            return fail("wrong_value", f"inner gradient: h = {float(h(x0))!r}, closed form {h_ref(xa)!r}", bucket("inner_value"), sample=sample)
        if modes[0] == "r":
            got = onp.asarray(autograd.grad(h)(x0))
        else:
            got = onp.zeros(xa.shape)
            for idx in onp.ndindex(*xa.shape):
                e = onp.zeros(xa.shape)
                e[idx] = 1.0
                got[idx] = float(autograd.make_jvp(h)(x0)(float(e) if isinstance(x0, float) else e)[1])
    except Exception as e:
        if not from_autograd(e):
            raise
        if isinstance(e, NotImplementedError) and "not defined" in str(e):
            return raised(e, "broadcast_levels", sample=sample)  # no rule for this operation in the requested mode: loud
        return fail("unexpected_exception", describe_exc(e), bucket("exception"), sample=sample)
    if got.shape != xa.shape:
        return fail("wrong_shape", f"the derivative with respect to the outer variable of shape {xa.shape} has shape {got.shape}", bucket("shape"), sample=sample)
    if not onp.allclose(got, want, rtol=1e-6, atol=1e-7):
        return fail("wrong_value", f"outer derivative {got.tolist()} expected {want.tolist()}", bucket("value"), sample=sample)
    return ok(nontrivial=tuple(small) != (3, 4), key=json.dumps([op, list(small), outer_is_first, modes]), labels=["broadcast_levels", "op=" + op, "modes=" + modes], sample=sample)


def mixed_kind_body(c):
    """Two levels whose variables are of different kinds: the OUTER variable A is real, the INNER one B complex (or the other way round), joined by
    a product (dot / matmul / @ / einsum / tensordot / elementwise).  With P = prod(A, B): g(A, B) = Re sum(C * P) (form lin) or Re sum(C * P * P)
    (form sq); the inner gradient with respect to B is, in autograd's convention for a holomorphic integrand, prod-adjoint applied to C (lin) or to
    2 C P (sq) - written out in NumPy here; h(A) = Re sum(W * inner gradient).  dh/dA: central differences of that NumPy closed form (h is a polynomial
    of degree <= 2 in A), and its KIND is the kind of A: a real variable gets a real derivative."""
    import autograd
    import autograd.numpy as anp

    from .. import values
    from ..case import describe_exc, from_autograd

    vseed = c.seed()
    op = c.choice(["dot", "matmul", "at", "einsum", "tensordot", "mul"])
    form = c.choice(["lin", "sq"])
    outer_kind = c.choice(["real", "real", "complex"])  # the kind of the OUTER variable; the inner one has the other kind
    modes = c.choice(["rr", "rr", "fr", "rf"])
    m, k, n = c.int(1, 3), c.int(1, 3), c.int(1, 3)
    shA, shB = ((m, k), (k, n)) if op != "mul" else ((m, n), (m, n))
    shP = (m, n)
    rs, _ = values.generic(vseed, [shA, shB, shB, shP, shP, shB, shB, shA, shA], -1.3, 1.3)
    if outer_kind == "real":
        A0, B0 = rs[0], rs[1] + 1j * rs[2]
    else:
        A0, B0 = rs[0] + 1j * rs[7], rs[1]
    Cc = rs[3] + 1j * rs[4]
    Wc = rs[5] + 1j * rs[6]
    sample = {"op": op, "form": form, "outer": outer_kind, "modes": modes, "shapes": [list(shA), list(shB)], "vseed": vseed}
    c.features.update(op=op, form=form, outer=outer_kind, modes=modes)
    bucket = lambda kk: f"C08|mixed_kind|{op}|{kk}"

    def prod(ns, A, B):
        if op == "dot":
            return ns.dot(A, B)
        if op == "matmul":
            return ns.matmul(A, B)
        if op == "at":
            return A @ B
        if op == "einsum":
            return ns.einsum("ik,kj->ij", A, B)
        if op == "tensordot":
            return ns.tensordot(A, B, axes=1)
        return A * B

    def adj_B(A, G):  # the holomorphic derivative of sum(G * prod(A, B)) with respect to B
        return A.T @ G if op != "mul" else A * G

    def g(A, B):
        P = prod(anp, A, B)
        return anp.real(anp.sum(Cc * P)) if form == "lin" else anp.real(anp.sum(Cc * P * P))

    def inner_grad_ref(A):
        P = prod(onp, A, B0)
        full = adj_B(A, Cc) if form == "lin" else adj_B(A, 2 * Cc * P)
        # B real: only the real part of the holomorphic derivative is a derivative with respect to B
        return full if outer_kind == "real" else onp.real(full)

    def h_ref(A):
        return float(onp.real(onp.sum(Wc * inner_grad_ref(A))))

    def h(A):
        if modes[1] == "r":
            gB = autograd.grad(g, 1)(A, B0)
        else:
            # inner level in forward mode: one unit direction per (real and imaginary) coordinate of B
            gB = anp.zeros(shB) * (1j if outer_kind == "real" else 1.0)
            for idx in onp.ndindex(*shB):
                e = onp.zeros(shB)
                e[idx] = 1.0
                dre = autograd.make_jvp(lambda B_: g(A, B_))(B0)(e + 0j if outer_kind == "real" else e)[1]
                part = dre
                if outer_kind == "real":
                    dim = autograd.make_jvp(lambda B_: g(A, B_))(B0)(1j * e)[1]
                    part = dre - 1j * dim
                gB = gB + part * e
        return anp.real(anp.sum(Wc * gB))

    # reference derivative of h_ref with respect to the real (and imaginary) coordinates of A
    def num(A, direction):
        hh = 1e-4
        return (h_ref(A + hh * direction) - h_ref(A - hh * direction)) / (2 * hh)

    try:
        if abs(float(h(A0)) - h_ref(A0)) > 1e-10 * max(1.0, abs(h_ref(A0))):
            return fail("wrong_value", f"inner gradient (kind {'complex' if outer_kind == 'real' else 'real'} variable) gives h = {float(h(A0))!r}, closed form {h_ref(A0)!r}", bucket("inner_value"), sample=sample)
        if modes[0] == "r":
            got = autograd.grad(h)(A0)
        else:
            got = onp.zeros(shA, dtype=complex if outer_kind == "complex" else float)
            for idx in onp.ndindex(*shA):
                e = onp.zeros(shA)
                e[idx] = 1.0
                dre = autograd.make_jvp(h)(A0)(e + 0j if outer_kind == "complex" else e)[1]
                got[idx] = dre
                if outer_kind == "complex":
                    got[idx] = dre - 1j * autograd.make_jvp(h)(A0)(1j * e)[1]
    except Exception as e:
        if not from_autograd(e):
            raise
        return fail("unexpected_exception", describe_exc(e), bucket("exception"), sample=sample)
    got = onp.asarray(got)
    want = onp.zeros(shA, dtype=complex if outer_kind == "complex" else float)
    for idx in onp.ndindex(*shA):
        e = onp.zeros(shA)
        e[idx] = 1.0
        want[idx] = num(A0, e) if outer_kind == "real" else num(A0, e) - 1j * num(A0, 1j * e)
    if got.shape != shA:
        return fail("wrong_shape", f"outer derivative has shape {got.shape}, the variable {shA}", bucket("shape"), sample=sample)
    if outer_kind == "real" and got.dtype.kind == "c":
        return fail("wrong_kind", f"the derivative with respect to a REAL outer variable is complex: {got.tolist()}", bucket("kind"), sample=sample)
    if not onp.allclose(got, want, rtol=1e-6, atol=1e-7):
        return fail("wrong_value", f"outer derivative {got.tolist()} expected {want.tolist()}", bucket("value"), sample=sample)
    return ok(nontrivial=True, key=json.dumps([op, form, outer_kind, modes, list(shA), list(shB)]), labels=["mixed_kind", "op=" + op, "outer=" + outer_kind, "modes=" + modes], sample=sample)


PROP = Prop("C08", [
    Test("nested_d3", partial(body, 3), quick=4000, thorough=20000, shard_size=150),
    Test("nested_d4", partial(body, 4), quick=2500, thorough=12000, shard_size=100),
    Test("nested_nary", partial(body, 3, nary=True), quick=3000, thorough=16000, shard_size=150),
    Test("vector", vector_body, quick=1000, thorough=4000, shard_size=100),
    Test("vector3", vector3_body, quick=800, thorough=6000, shard_size=100),
    Test("layout", layout_body, quick=600, thorough=4000, shard_size=100),
    Test("mixed_kind", mixed_kind_body, quick=600, thorough=4000, shard_size=100),
    Test("broadcast_levels", broadcast_levels_body, quick=800, thorough=5000, shard_size=100),
    Test("fixed_point_nested", fixed_point_nested_body, quick=240, thorough=2000, shard_size=30),
], RULE, assumptions=[
    "reference symbolic differentiator (vh/refs/symbolic.py) is correct; it shares no code with autograd",
    "scalar expression programs plus one family of vector-valued nestings; nesting depth <= 4-5",
])
PROP.reach_functions = ['autograd.tracer:find_top_boxed_args', 'autograd.tracer:trace']
