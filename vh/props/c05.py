"""C05 — a gradient lives in the space of the argument it is taken with respect to."""
import json
from functools import partial

import numpy as onp

from .. import values
from ..case import Outcome, fail, from_autograd, ok, raised
from ..derivcheck import bucket_of, key_of, primal
from ..engine import Prop, Test
from ..templates import TEMPLATES
from ..templates.core import instantiate, namespaces

RULE = (
    "Every template case with kind mixing (each argument independently real/complex, python scalar / numpy scalar / 0-d / n-d "
    "carriers, lower rank and size-1 broadcast partners) and, for 1 case in 4, a reduced/extended precision dtype "
    "(float32, float16, longdouble, complex64): autograd.core.vspace(result) == vspace(argument) for make_vjp, "
    "elementwise_grad, and (size-1 outputs) grad / value_and_grad - container nesting, shape, real-vs-complex, and "
    "dtype for default-precision arguments; vspace(tangent) == vspace(primal output) for make_jvp. No numerics, so the "
    "value tolerance plays no role. Non-trivial = argument and partner differ in kind, rank or broadcast pattern, or "
    "the argument is a scalar carrier / complex / non-default dtype; distinct by (template, features, argsel, carriers, "
    "complex mask, dtype). empty:<template>: the same check with a zero-length side in the drawn shapes (zero-size arrays are ordinary "
    "NumPy values; the result must still be a member of the argument's space)."
    " space:whole_container: list / tuple arguments handed whole to NumPy functions (and as an unpassed default under multigrad_dict): the argument's structure, or a raise."
)

LOWPREC = ["float32", "float16", "longdouble", "complex64"]


def _space_ok(vs_got, vs_want, default_precision):
    if type(vs_got) is not type(vs_want):
        return False
    if getattr(vs_got, "shape", None) != getattr(vs_want, "shape", None):
        return False
    if default_precision and getattr(vs_got, "dtype", None) != getattr(vs_want, "dtype", None):
        return False
    return True


def _body(tdef, case):
    import autograd
    from autograd.core import vspace
    from autograd.tracer import isbox

    call = tdef.draw(case)
    inst = instantiate(case, call, allow_complex=True)
    lowp = None
    if case.chance(1, 4):
        lowp = LOWPREC[case.int(0, len(LOWPREC) - 1)]
    NP, AG = namespaces()
    x = inst.x_carried()
    if lowp is not None:
        xa = onp.asarray(inst.x)
        if xa.dtype.kind == "c" and not lowp.startswith("complex"):
            lowp = "complex64"
        if xa.dtype.kind != "c" and lowp.startswith("complex"):
            lowp = "float32"
        x = xa.astype(lowp)
        if xa.ndim == 0 and inst.carriers[inst.argsel if isinstance(inst.argsel, int) else 0] != "array0d":
            x = x[()]  # numpy scalar of that dtype
        pos = (inst.argsel,) if isinstance(inst.argsel, int) else inst.argsel
        for p in pos:
            inst.xs[p] = x
    sample = dict(inst.describe(), dtype=lowp)
    st, y0 = primal(inst)
    if st != "ok":
        return Outcome("numpy_rejects", detail=y0, sample=sample)
    y0a = onp.asarray(y0)
    f = inst.f(AG)
    want_x = vspace(x)
    default = lowp is None
    a0 = inst.argsel if isinstance(inst.argsel, int) else inst.argsel[0]
    mixed = (len(set(inst.call.shapes)) > 1 or len(set(inst.cmask)) > 1 or len(set(inst.carriers)) > 1)
    nontrivial = bool(mixed or inst.carriers[a0] != "ndarray" or inst.cmask[a0] or lowp)
    labels = [f"dtype={lowp or 'default'}", "mixed_partner" if mixed else "uniform", f"carrier={inst.carriers[a0]}",
              "complex_arg" if inst.cmask[a0] else "real_arg"]
    case.features.update(dtype=lowp or "default", mixed=mixed)
    results = []
    g = values.cdirection(inst.vseed, y0a.shape, 31) if y0a.dtype.kind == "c" else values.direction(inst.vseed, y0a.shape, 31)
    rev_raised = None
    try:
        vjp, y = autograd.make_vjp(f)(x)
        results.append(("make_vjp", vjp(g.astype(y0a.dtype) if lowp else g), want_x))
        if y0a.dtype.kind != "c":
            results.append(("elementwise_grad", autograd.elementwise_grad(f)(x), want_x))
            if y0a.size == 1:
                results.append(("grad", autograd.grad(f)(x), want_x))
                results.append(("value_and_grad", autograd.value_and_grad(f)(x)[1], want_x))
    except Exception as e:
        rev_raised = e
    fwd_raised = None
    try:
        v = values.cdirection(inst.vseed, onp.shape(x), 32) if onp.asarray(x).dtype.kind == "c" else values.direction(inst.vseed, onp.shape(x), 32)
        v = v.astype(onp.asarray(x).dtype)
        if onp.ndim(x) == 0 and not isinstance(x, onp.ndarray):
            v = v[()] if lowp else (complex(v) if onp.asarray(x).dtype.kind == "c" else float(v))
        yv, t = autograd.make_jvp(f)(x)(v)
        results.append(("make_jvp", t, vspace(yv)))
    except Exception as e:
        fwd_raised = e
    if not results:
        return raised(rev_raised or fwd_raised, "both", labels=labels, sample=sample)
    for api, got, want in results:
        mode = "fwd" if api == "make_jvp" else "rev"
        if isbox(got):
            return fail("tracer_leak", f"{api} returned a box", bucket_of(inst, mode, "tracer_leak"), sample=sample)
        try:
            vs = vspace(got)
        except Exception as e:
            return fail("wrong_space", f"{api} returned {type(got).__name__} (no vector space)", bucket_of(inst, mode, "wrong_space"), sample=sample)
        if not _space_ok(vs, want, default):
            return fail("wrong_space", f"{api}: result space {vs!r} but expected {want!r}", bucket_of(inst, mode, "wrong_space"), sample=sample)
    return ok(nontrivial=nontrivial, key=key_of(inst, "space") + str(lowp), labels=labels, sample=sample)


def _empty_body(tdef, case):
    """The same structure check with zero-size arrays: the template's shape draws get a zero-length side (one case in two per drawn
    shape).  Draw logic that cannot work with an empty side (an index into it, a split of it) rejects the case."""
    import types

    from ..case import Reject

    def shape(self, min_rank=0, max_rank=3, max_side=3, min_side=1):
        r = self.int(min_rank, max_rank)
        sh = [self.int(min_side, max_side) for _ in range(r)]
        if r and self.bool():
            sh[self.int(0, r - 1)] = 0
            self.notes["zero_side"] = True
        return tuple(sh)

    case.shape = types.MethodType(shape, case)
    try:
        out = _body(tdef, case)
    except (ValueError, IndexError, ZeroDivisionError) as e:
        # the template's own draw logic on an empty side (never autograd: _body catches what the differentiation calls raise)
        raise Reject(str(e)[:80])
    if not case.notes.get("zero_side"):
        raise Reject("no zero-length side drawn")
    if out.status == "fail":
        out.bucket = (out.bucket or "") + "|empty"
    out.labels = list(out.labels or []) + ["empty_argument"]
    return out


def _container_body(case):
    """Container arguments: C12's nested values and access programs; only the structure / space verdicts belong to C05."""
    from . import c12

    out = c12.program_body(case)
    if out.status == "fail" and out.kind not in ("wrong_space", "unexpected_exception"):
        return ok(nontrivial=False, key=None, labels=["container", "value_issue_left_to_C12"], sample=out.sample)
    if out.status == "fail":
        out.bucket = "C05|" + (out.bucket or "container")
    return out


def _whole_container_body(case):
    """A list / tuple argument handed WHOLE to a NumPy function (NumPy accepts sequences wherever it accepts arrays), alone or next to an
    indexed use in either order: the gradient has the argument's structure (list stays list, nesting kept) - or the call raises."""
    import autograd
    import autograd.numpy as anp
    from autograd.core import vspace

    kind = case.choice(["list", "tuple", "nested_list", "list_of_arrays"])
    how = case.choice(["sin_sum", "sum", "dot", "norm", "anp_array", "multiply", "stack", "multigrad_default"])
    mix = case.int(0, 2)  # 0: whole use only; 1: whole use + indexed use; 2: indexed use + whole use
    vseed = case.seed()
    (a, w), _ = values.generic(vseed, [(3,), (3,)], 0.4, 1.6)
    if kind in ("list", "tuple"):
        arg = [float(t) for t in a] if kind == "list" else tuple(float(t) for t in a)
    elif kind == "nested_list":
        arg = [[float(a[0]), float(a[1])], [float(a[2]), 1.5]]
        w = onp.array([[0.5, -1.0], [2.0, 0.25]])
    else:
        arg = [a * 1.0, a * 0.5]
        w = onp.stack([w, w * 2.0])

    def whole(v):
        if how == "sin_sum":
            return anp.sum(anp.sin(v) * w)
        if how == "sum":
            return anp.sum(v)
        if how == "dot":
            return anp.sum(anp.dot(anp.ravel(w), anp.ravel(v))) if kind in ("nested_list", "list_of_arrays") else anp.dot(w, v)
        if how == "norm":
            return anp.linalg.norm(v)
        if how == "anp_array":
            return anp.sum(anp.array(v) * w)
        if how == "multiply":
            return anp.sum(anp.multiply(v, w))
        return anp.sum(anp.stack(v) * w) if kind == "list_of_arrays" else anp.sum(anp.stack([anp.array(v), anp.array(v)]) * 0.5)

    first = (lambda v: v[0][0] if kind == "nested_list" else (anp.sum(v[0]) if kind == "list_of_arrays" else v[0]))

    def f(v):
        if mix == 0:
            return whole(v)
        if mix == 1:
            return whole(v) + first(v) ** 2
        return first(v) ** 2 + whole(v)

    sample = {"argument": kind, "how": how, "mix": mix, "vseed": vseed}
    case.features.update(argument=kind, how=how, mix=mix)
    try:
        if how == "multigrad_default":
            # the container is a parameter left at its DEFAULT value; multigrad_dict differentiates with respect to every parameter by name
            from autograd.differential_operators import multigrad_dict

            def fm(q, p=arg):
                return q * (anp.sum(anp.array(p) * w) + first(p) ** 2)

            g = multigrad_dict(fm)(1.5)["p"]
        else:
            g = autograd.grad(f)(arg)
    except ImportError as e:
        return raised(e, "whole_container", sample=sample)  # (multigrad_dict needs the funcsigs package)
    except Exception as e:
        if not from_autograd(e) and not isinstance(e, (TypeError, ValueError)):
            raise
        return raised(e, "whole_container", sample=sample)
    if not vspace(g) == vspace(arg):
        return fail("wrong_space", f"gradient of a {kind} argument passed whole to a NumPy function ({how}) is a {type(g).__name__} in {vspace(g)!r}, "
                    f"the argument lives in {vspace(arg)!r}", f"C05|whole_container|{how}", sample=sample)
    return ok(nontrivial=True, key=json.dumps([kind, how, mix]), labels=["whole_container", "how=" + how], sample=sample)


def tests():
    out = [Test("space:" + name, partial(_body, t), quick=150 * t.weight, thorough=1200 * t.weight, shard_size=300)
           for name, t in sorted(TEMPLATES.items())]
    out.append(Test("space:containers", _container_body, quick=1500, thorough=15000, shard_size=250))
    out.append(Test("space:whole_container", _whole_container_body, quick=600, thorough=3000, shard_size=150))
    out += [Test("empty:" + name, partial(_empty_body, t), quick=60 * t.weight, thorough=400 * t.weight, shard_size=300)
            for name, t in sorted(TEMPLATES.items())]
    return out


PROP = Prop("C05", tests(), RULE, assumptions=[
    "autograd.core.vspace equality is the structure predicate (the suite's own assertion, test_util.py); dtype is compared only for default precision",
    "container arguments are covered by C12's generators",
])
