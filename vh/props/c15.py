"""C15 — unsupported requests fail loudly; no exported function silently drops dependence."""
import json
import warnings

import numpy as onp

from .. import oracle, values
from ..case import Outcome, describe_exc, fail, from_autograd, ok, raised
from ..engine import Prop, Test

RULE = (
    "(a) namespace sweep: every callable reachable as autograd.numpy.<name>, .linalg.<name>, .fft.<name>, .random.<name> that has a NumPy "
    "twin (I/O, printing, global-state setters and in-place mutators excluded by an explicit, reported list) and every ndarray "
    "method / attribute looked up on a traced array, x argument templates in which the differentiated array sits in positional slot "
    "0, 1 or 2 and the other slots come from typed pools (compatible arrays, square / PSD matrices, small ints, axes, shape tuples, "
    "index arrays, python scalars, boolean conditions). A (callable, template) pair is APPLICABLE when raw NumPy accepts it, the output "
    "is floating/complex (array or tuple/list of arrays, scalarised by harness code with generic weights) and genuinely varies "
    "smoothly with the argument (Ridders derivative conclusive and non-zero). Three-way oracle per mode: raised -> fine; returned a "
    "derivative -> must match the Ridders derivative of raw NumPy (1e-6); returned independent / zero / truncated while NumPy's "
    "derivative is non-zero -> violation. numpy.random is reseeded before every evaluation. (b) explicit contracts that must raise: "
    "grad / value_and_grad of array- or complex-valued functions, elementwise_grad of complex outputs, non-differentiable argument "
    "types, assignment into a differentiated array (x[i]=v, x[i]+=v, np.put/place/copyto/fill_diagonal/putmask), mixed rule/no-rule "
    "arguments of one primitive; plus the explicit unsupported-option guards under the three-way oracle. Non-trivial = an applicable "
    "pair; distinct by (callable, template, shape); callables with no applicable template are listed in the evidence."
    ' Guards added later: UPLO spellings, where= / initial= keywords, NumPy-2 aliases (with a plain-array result check); contracts for grad_and_aux / make_hvp / hessian_*_product outputs; sweep partners with exact zeros; whole-axis (s=-1) and odd explicit lengths of the inverse real FFTs.'
    ' foreign_inputs: numpy.ma.MaskedArray / numpy.matrix arguments through five operators and seven functions: raise, or match central differences of the function on that type.'
)

EXCLUDE = {
    # I/O, printing, configuration, global state, in-place mutators, object/dtype machinery, deprecated shims
    "save", "savez", "savez_compressed", "savetxt", "load", "loadtxt", "genfromtxt", "fromfile", "fromregex", "frombuffer", "fromstring",
    "from_dlpack", "memmap", "set_printoptions", "printoptions", "seterr", "seterrcall", "setbufsize", "errstate", "show_config", "info",
    "show_runtime", "put", "place", "copyto", "putmask", "fill_diagonal", "put_along_axis", "shuffle", "seed", "set_state", "get_state",
    "busday_count", "busday_offset", "is_busday", "datetime_as_string", "datetime_data", "get_include", "test", "typename", "iterable",
    "may_share_memory", "shares_memory", "byte_bounds", "nested_iters", "getbufsize", "geterr", "geterrcall", "isdtype", "issubdtype",
    "can_cast", "promote_types", "min_scalar_type", "common_type", "mintypecode", "base_repr", "binary_repr", "array2string", "array_repr",
    "array_str", "format_float_positional", "format_float_scientific", "get_printoptions", "default_rng", "bytes", "RandomState", "Generator",
    "fromfunction", "fromiter", "asmatrix", "bmat", "require", "vectorize", "frompyfunc", "piecewise", "apply_along_axis", "apply_over_axes",
    "einsum_path", "get_bit_generator", "set_bit_generator", "ranf", "sample", "random_sample",
}

SHAPES = [(3,), (2, 3), (3, 3), (2, 2, 3), ()]
# functions whose NumPy domain is the symmetric / Hermitian matrices (NumPy reads one triangle): composed with a symmetrising map
SYMMETRIC_DOMAIN = {"linalg.cholesky", "linalg.eigh", "linalg.eigvalsh"}
# outputs with a continuous gauge freedom that LAPACK fixes by a convention which is not part of the mathematical function
# (phase of complex eigenvectors): reduced to gauge-invariant quantities before scalarising
GAUGE = {"linalg.eig": lambda r, ns: (r[0], ns.real(r[1] * ns.conj(r[1])))}


def catalog():
    """[(label, getter(ns) -> callable)] for every namespace callable with a NumPy twin, plus ndarray methods/attributes."""
    import autograd.numpy as anp

    out = []
    for sub in ("", "linalg", "fft", "random"):
        am = anp if not sub else getattr(anp, sub)
        om = onp if not sub else getattr(onp, sub)
        for name in sorted(vars(am)):
            if name.startswith("_") or name in EXCLUDE:
                continue
            a, o = getattr(am, name, None), getattr(om, name, None)
            if not callable(a) or not callable(o) or isinstance(o, type) or isinstance(a, type):
                continue
            label = (sub + "." if sub else "") + name
            out.append((label, (lambda sub, name: (lambda ns: getattr(getattr(ns, sub) if sub else ns, name)))(sub, name)))
    for name in sorted(dir(onp.ndarray)):
        if name.startswith("__") and name not in ("__abs__", "__neg__", "__pos__", "__matmul__", "__rmatmul__", "__pow__", "__rpow__", "__mod__",
                                                   "__rmod__", "__truediv__", "__rtruediv__", "__floordiv__", "__divmod__", "__getitem__",
                                                   "__float__", "__complex__", "__array__", "__iter__", "__len__", "__round__"):
            continue
        if name in ("fill", "sort", "partition", "put", "setfield", "setflags", "resize", "itemset", "byteswap", "tofile", "dump", "dumps",
                    "tobytes", "tostring", "tolist", "view", "getfield", "newbyteorder", "ctypes", "data", "base", "flags", "strides", "itemsize",
                    "nbytes", "device", "to_device", "__array__", "mT"):
            continue
        out.append(("method:" + name, (lambda name: (lambda ns: (lambda x, *a: _attr(x, name, *a))))(name)))
    return out


def _attr(x, name, *a):
    v = getattr(x, name)
    if callable(v):
        return v(*a)
    if a:
        raise TypeError("attribute takes no arguments")
    return v


TEMPLATES = ["x", "x,c", "c,x", "x,1", "x,0", "x,2", "x,-1", "x,(1,)", "x,shape", "shape,x", "x,idx", "x,0.5", "0.5,x", "x,c,c", "c,x,c", "c,c,x",
             "cond,x,c", "cond,c,x", "x,1,0", "x,0,1", "sq", "psd", "sq,c", "c,sq", "psd,c", "x,x", "2,x", "x,k=1", "x,None,1", "x,-0.5,0.8",
             "x,[1,2]", "1.5,x", "x,2.0", "x,n3", "x,(0,1)", "c0,x", "x,c0", "c0,x,c"]


def build_args(tname, shape, vseed):
    """Return (make_args(x) -> positional args, x0) with x the differentiated array."""
    sq = tname.startswith(("sq", "psd")) or ",sq" in tname
    if sq:
        n = 3 if shape != (2, 3) else 2
        shape = (n, n)
    (x0, c1, c2), _ = values.generic(vseed, [shape, shape, shape], 0.35, 1.75)
    if tname.startswith("psd"):
        x0 = x0 @ x0.T + len(x0) * onp.eye(len(x0))
    elif sq:
        x0 = x0 + 2 * onp.eye(shape[0])
    size = int(onp.prod(shape)) if shape else 1
    bits = (onp.arange(size) % 2 == 0).reshape(shape)
    idx = onp.array([0, size - 1, 0]) % max(1, (shape[0] if shape else 1))
    c0 = onp.where(bits, 0.0, c1)  # a constant partner with exact zeros (values at which piecewise definitions switch to another argument)
    for a in (c1, c2, bits, idx, c0):
        if isinstance(a, onp.ndarray):
            a.flags.writeable = False
    T = {
        "x": lambda x: (x,), "x,c": lambda x: (x, c1), "c,x": lambda x: (c1, x), "x,1": lambda x: (x, 1), "x,0": lambda x: (x, 0),
        "x,2": lambda x: (x, 2), "x,-1": lambda x: (x, -1), "x,(1,)": lambda x: (x, (1,)), "x,shape": lambda x: (x, (size,) if size else ()),
        "shape,x": lambda x: (shape if shape else (1,), x), "x,idx": lambda x: (x, idx), "x,0.5": lambda x: (x, 0.5), "0.5,x": lambda x: (0.5, x),
        "x,c,c": lambda x: (x, c1, c2), "c,x,c": lambda x: (c1, x, c2), "c,c,x": lambda x: (c1, c2, x), "cond,x,c": lambda x: (bits, x, c1),
        "cond,c,x": lambda x: (bits, c1, x), "x,1,0": lambda x: (x, 1, 0), "x,0,1": lambda x: (x, 0, 1), "sq": lambda x: (x,), "psd": lambda x: (x,),
        "sq,c": lambda x: (x, c1), "c,sq": lambda x: (c1, x), "psd,c": lambda x: (x, c1), "x,x": lambda x: (x, x), "2,x": lambda x: (2, x),
        "x,k=1": lambda x: (x, 1), "x,None,1": lambda x: (x, None, 1), "x,-0.5,0.8": lambda x: (x, 0.6, 1.4), "x,[1,2]": lambda x: (x, [1, 2]),
        "1.5,x": lambda x: (1.5, x), "x,2.0": lambda x: (x, 2.0), "x,n3": lambda x: (x, 3), "x,(0,1)": lambda x: (x, (0, 1)),
        "c0,x": lambda x: (c0, x), "x,c0": lambda x: (x, c0), "c0,x,c": lambda x: (c0, x, c2),
    }
    return T[tname], x0


def scalarise(y, ns, vseed):
    """Reduce whatever the callable returned to one real number with generic weights, iterating with ordinary Python."""
    parts = list(y) if isinstance(y, (tuple, list)) or _is_seqbox(y) else [y]
    total = 0.0
    k = 0
    for p in parts:
        sub = list(p) if isinstance(p, (tuple, list)) or _is_seqbox(p) else [p]
        for q in sub:
            sh = onp.shape(_val(q))
            w = values.direction(vseed, sh, 500 + k)
            k += 1
            total = total + ns.sum(ns.real(q * w)) + 0.5 * ns.sum(ns.imag(q * w))
    return total, k


def _is_seqbox(v):
    from autograd.builtins import SequenceBox

    return isinstance(v, SequenceBox)


def _val(v):
    from autograd.tracer import getval

    return getval(v)


def floatish(y):
    parts = list(y) if isinstance(y, (tuple, list)) else [y]
    flat = []
    for p in parts:
        flat += list(p) if isinstance(p, (tuple, list)) else [p]
    if not flat:
        return False
    for q in flat:
        if isinstance(q, (str, bytes, dict, type(None))) or callable(q):
            return False
        a = onp.asarray(q)
        if a.dtype.kind not in "fc" or a.size == 0 or a.size > 4096:
            return False
    return True


_CAT = []
_APPL = []


def applicable_list():
    """vh/data/applicable.json: triples found applicable by tools/build_applicable.py using raw NumPy only (a corpus, re-validated per case)."""
    import os

    if not _APPL:
        path = os.path.join(os.path.dirname(os.path.dirname(os.path.abspath(__file__))), "data", "applicable.json")
        if os.path.exists(path):
            with open(path) as f:
                _APPL.extend(json.load(f))
        else:
            _APPL.append(None)
    return [] if _APPL == [None] else _APPL


def cat():
    if not _CAT:
        _CAT.extend(catalog())
    return _CAT


def sweep_body(c):
    import autograd
    import autograd.numpy as anp

    C = cat()
    A = applicable_list()
    if A and not c.chance(1, 5):
        # draw from the pre-computed list of (callable, template, shape) triples that raw NumPy accepts and that vary smoothly
        label, tname, si = A[c.int(0, len(A) - 1)]
        idx = {l: i for i, (l, _) in enumerate(C)}
        if label not in idx:
            return Outcome("numpy_rejects", detail="stale applicable-list entry")
        getter = C[idx[label]][1]
        shape = SHAPES[si]
    else:
        ci = c.int(0, len(C) - 1)
        label, getter = C[ci]
        tname = TEMPLATES[c.int(0, len(TEMPLATES) - 1)]
        shape = SHAPES[c.int(0, len(SHAPES) - 1)]
    vseed = c.seed()
    make_args, x0 = build_args(tname, shape, vseed)
    x0 = onp.array(x0)
    x0.flags.writeable = False
    sample = {"callable": label, "template": tname, "shape": list(onp.shape(x0)), "vseed": vseed}
    f_np_raw, f_ag_raw = getter(onp), getter(anp)
    rs = 12345 + (vseed % 1000)

    sym = label in SYMMETRIC_DOMAIN

    def F(x, ns, fn):
        onp.random.seed(rs)
        if sym and onp.ndim(_val(x)) >= 2:
            x = (x + ns.swapaxes(x, -1, -2)) / 2
        y = fn(*make_args(x))
        if label in GAUGE:
            y = GAUGE[label](y, ns)
        return scalarise(y, ns, vseed)[0]

    state = onp.random.get_state()
    try:
        # ---- applicability, decided by raw NumPy only ---------------------------------------------------------------------
        try:
            with warnings.catch_warnings():
                warnings.simplefilter("ignore")
                onp.random.seed(rs)
                y0 = f_np_raw(*make_args((x0 + onp.swapaxes(x0, -1, -2)) / 2 if sym and x0.ndim >= 2 else x0))
                if not floatish(y0):
                    return Outcome("numpy_rejects", detail="non-float output", sample=sample)
                v = values.direction(vseed, x0.shape, 9)
                dv, err = oracle.directional(lambda x: onp.asarray(F(x, onp, f_np_raw)), x0, v, 0.01)
                dv = float(onp.real(dv))
        except oracle.Inconclusive as e:
            return Outcome("inconclusive", detail=str(e), sample=sample)
        except Exception as e:
            return Outcome("numpy_rejects", detail=f"{type(e).__name__}: {e}"[:100], sample=sample)
        if not abs(dv) > 1e-6:
            return Outcome("numpy_rejects", detail="output does not vary with the argument (not applicable)", sample=sample)
        c.features.update(callable=label, template=tname, x_ndim=int(onp.ndim(x0)))
        bucket = lambda k: f"C15|sweep|{label}|{k}"
        labels = ["applicable", "ns=" + (label.split(".")[0] if "." in label else ("method" if label.startswith("method:") else "numpy"))]
        # ---- reverse mode ----------------------------------------------------------------------------------------------------
        outcomes = []
        for mode in ("rev", "fwd"):
            try:
                with warnings.catch_warnings():
                    warnings.simplefilter("ignore")
                    if mode == "rev":
                        res = autograd.grad(lambda x: F(x, anp, f_ag_raw))(x0)
                    else:
                        res = autograd.make_jvp(lambda x: F(x, anp, f_ag_raw))(x0)(v)[1]
            except Exception as e:
                if not from_autograd(e) and not isinstance(e, (TypeError, ValueError, AttributeError, NotImplementedError, IndexError, KeyError)):
                    raise
                outcomes.append((mode, "raised", type(e).__name__))
                continue
            ra = onp.asarray(res)
            if ra.dtype == object or ra.shape != (x0.shape if mode == "rev" else ()):
                return fail("wrong_shape", f"{label}({tname}) {mode}: derivative of shape {ra.shape} {ra.dtype} for argument shape {x0.shape}",
                            bucket("wrong_shape_" + mode), sample=sample)
            got = float(onp.real(onp.sum(ra * v))) if mode == "rev" else float(onp.real(ra))
            scale = max(1.0, abs(dv))
            if abs(got - dv) <= 1e-6 * scale + 100 * err:
                outcomes.append((mode, "ok", None))
            elif got == 0.0:
                return fail("silent_constant", f"{label}({tname}) {mode}: returned a zero derivative while NumPy's directional derivative is {dv!r}",
                            bucket("silent_constant_" + mode), sample=sample)
            else:
                return fail("wrong_value", f"{label}({tname}) {mode}: derivative {got!r} but NumPy gives {dv!r} (err {err:.1e})",
                            bucket("wrong_value_" + mode), sample=sample)
        labels += [f"{m}={o}" for m, o, _ in outcomes]
        if all(o == "raised" for _, o, _ in outcomes):
            return Outcome("raised", kind=f"{outcomes[0][2]}@{label}", detail="both modes raise (loud)", labels=labels, sample=sample, nontrivial=True,
                           key=json.dumps([label, tname, list(onp.shape(x0))]))
        return ok(nontrivial=True, key=json.dumps([label, tname, list(onp.shape(x0))]), labels=labels, sample=sample)
    finally:
        onp.random.set_state(state)


# ---- explicit contracts ----------------------------------------------------------------------------------------------------------
def contracts():
    import autograd
    import autograd.numpy as anp

    x = onp.array([0.3, -1.2, 0.7])
    M = onp.array([[1.5, 0.2], [0.4, 2.0]])
    L = []  # (name, thunk) -- every thunk must raise

    def must(name, thunk):
        L.append((name, thunk))

    must("grad of array-valued", lambda: autograd.grad(lambda t: anp.sin(t))(x))
    must("grad of complex-valued", lambda: autograd.grad(lambda t: t * (1.0 + 2.0j))(0.5))
    must("value_and_grad of array-valued", lambda: autograd.value_and_grad(lambda t: t * 2.0)(x))
    must("elementwise_grad of complex output", lambda: autograd.elementwise_grad(lambda t: t * 1j)(x))
    must("grad_and_aux of array-valued", lambda: autograd.grad_and_aux(lambda t: (anp.outer(t, t), 0.5))(x))
    must("grad_and_aux of complex-valued", lambda: autograd.grad_and_aux(lambda t: (anp.sum(t * t) * (1.0 + 2.0j), 0.5))(x))
    must("make_hvp of array-valued", lambda: autograd.make_hvp(lambda t: anp.sin(t))(x)[0](x))
    must("hessian_vector_product of array-valued", lambda: autograd.hessian_vector_product(lambda t: anp.sin(t))(x, x))
    must("hessian_tensor_product of complex-valued", lambda: autograd.hessian_tensor_product(lambda t: anp.sum(t * t) * 1j)(x, x))
    must("grad of array-valued, argnum tuple", lambda: autograd.grad(lambda a, b: a * b, (0, 1))(x, x))
    must("value_and_grad of complex-valued", lambda: autograd.value_and_grad(lambda t: anp.sum(t) * 1j)(x))
    must("grad wrt int", lambda: autograd.grad(lambda t: t * 2.0)(3))
    must("grad wrt bool", lambda: autograd.grad(lambda t: t * 2.0)(True))
    must("grad wrt str", lambda: autograd.grad(lambda t: 2.0)("abc"))
    must("grad wrt None", lambda: autograd.grad(lambda t: 2.0)(None))
    must("grad wrt object", lambda: autograd.grad(lambda t: 2.0)(object()))
    must("make_jvp wrt int", lambda: autograd.make_jvp(lambda t: t * 2.0)(3)(1))
    must("setitem", lambda: autograd.grad(lambda t: _setitem(t))(x))
    must("setitem +=", lambda: autograd.grad(lambda t: _setitem_iadd(t))(x))
    must("setitem slice", lambda: autograd.grad(lambda t: _setitem_slice(t))(x))
    must("np.put", lambda: autograd.grad(lambda t: (onp.put(t, [0], 1.0), anp.sum(t))[1])(x))
    must("np.place", lambda: autograd.grad(lambda t: (onp.place(t, [True, False, True], 1.0), anp.sum(t))[1])(x))
    must("np.copyto", lambda: autograd.grad(lambda t: (onp.copyto(t, onp.ones(3)), anp.sum(t))[1])(x))
    must("np.fill_diagonal", lambda: autograd.grad(lambda t: (onp.fill_diagonal(t, 0.0), anp.sum(t))[1])(M))
    must("np.putmask", lambda: autograd.grad(lambda t: (onp.putmask(t, t > 0, 0.0), anp.sum(t))[1])(x))
    must("setitem under jvp", lambda: autograd.make_jvp(lambda t: _setitem(t))(x)(onp.ones(3)))
    must("float(box)", lambda: autograd.grad(lambda t: float(t) * 2.0)(0.5))
    must("clip with traced bound, fwd", lambda: autograd.make_jvp(lambda t: anp.sum(anp.clip(t * x, t * -0.5, 100.0)))(1.5)(1.0))
    must("clip with traced bound, rev", lambda: autograd.grad(lambda t: anp.sum(anp.clip(t * x, t * -0.5, 100.0)))(1.5))
    return L


def _setitem(t):
    import autograd.numpy as anp

    t[0] = 1.0
    return anp.sum(t)


def _setitem_iadd(t):
    import autograd.numpy as anp

    t[0] += 1.0
    return anp.sum(t)


def _setitem_slice(t):
    import autograd.numpy as anp

    t[1:] = t[:-1]
    return anp.sum(t)


_CON = []


def contract_body(c):
    if not _CON:
        _CON.extend(contracts())
    i = c.int(0, len(_CON) - 1)
    name, thunk = _CON[i]
    sample = {"contract": name}
    c.features.update(contract=name)
    try:
        with warnings.catch_warnings():
            warnings.simplefilter("ignore")
            r = thunk()
    except Exception as e:
        return ok(nontrivial=True, key=name, labels=["contract", "exc=" + type(e).__name__], sample=sample)
    return fail("silent_unsupported", f"'{name}' returned {r!r:.100} instead of raising", f"C15|contract|{name}", sample=sample)


# ---- unsupported-option guards: raise, or be right (three-way oracle on pinned configurations) -----------------------------------
def guards():
    G = []
    x3 = (2, 3, 2)

    def g(name, fn, shape, mode="rev"):
        G.append((name, fn, shape, mode))

    g("rollaxis axis<0", lambda ns, x: ns.rollaxis(x, -1), x3)
    g("rollaxis start<0", lambda ns, x: ns.rollaxis(x, 2, -2), x3)
    g("rollaxis both<0", lambda ns, x: ns.rollaxis(x, -1, -3), x3)
    g("sort 2d rev", lambda ns, x: ns.sort(x, axis=0), (3, 2))
    g("sort 2d fwd", lambda ns, x: ns.sort(x, axis=0), (3, 2), "fwd")
    g("partition 2d rev", lambda ns, x: ns.partition(x, 1, axis=0), (3, 2))
    g("partition 2d fwd", lambda ns, x: ns.partition(x, 1, axis=0), (3, 2), "fwd")
    g("diagonal offset", lambda ns, x: ns.diagonal(x, 1), (3, 3))
    g("diagonal default axes 3d", lambda ns, x: ns.diagonal(x), (2, 2, 3))
    g("diagonal axis1=1,axis2=2", lambda ns, x: ns.diagonal(x, 0, 1, 2), (2, 3, 3))
    for off_ in (1, -1, 2):
        for a1_, a2_ in ((-2, -1), (-1, -2), (1, 0), (0, -1)):
            g(f"diagonal offset={off_} axes=({a1_},{a2_})", (lambda o_, p_, q_: lambda ns, x: ns.diagonal(x, o_, p_, q_))(off_, a1_, a2_), (3, 4))
            g(f"diagonal offset={off_} axes=({a1_},{a2_}) kw", (lambda o_, p_, q_: lambda ns, x: ns.diagonal(x, offset=o_, axis1=p_, axis2=q_))(off_, a1_, a2_), (2, 3, 3))
    g("diagonal axes=(-2,-1) offset 0", lambda ns, x: ns.diagonal(x, 0, -2, -1), (3, 4))
    g("trace offset axes", lambda ns, x: ns.trace(x, 1, 1, 0), (3, 3))
    # non-differentiable functions whose value DOES vary for complex input (sign(z) = z / |z|)
    g("sign of a complex value", lambda ns, x: ns.real(ns.sign(x + 1j * (0.5 * x + 0.2)) * (1.0 - 2.0j)), (3,))
    g("sign of a complex value fwd", lambda ns, x: ns.real(ns.sign(x + 1j * (0.5 * x + 0.2)) * (1.0 - 2.0j)), (3,), "fwd")
    g("floor of a complex-derived real part", lambda ns, x: ns.floor(ns.real(x + 1j * x) * 3.0) + x, (3,))
    g("trace axes 3d", lambda ns, x: ns.trace(x, 0, 1, 2), (2, 3, 3))
    g("norm matrix ord=1", lambda ns, x: ns.linalg.norm(x, 1), (3, 3))
    g("norm matrix ord=2", lambda ns, x: ns.linalg.norm(x, 2), (3, 3))
    g("norm matrix ord=inf", lambda ns, x: ns.linalg.norm(x, onp.inf), (3, 3))
    g("norm vector ord=0.5", lambda ns, x: ns.linalg.norm(x, 0.5), (3,))
    g("norm vector ord=1", lambda ns, x: ns.linalg.norm(x, 1), (3,))
    g("norm vector ord=inf", lambda ns, x: ns.linalg.norm(x, onp.inf), (3,))
    g("norm vector ord=-inf fwd", lambda ns, x: ns.linalg.norm(x, -onp.inf), (3,), "fwd")
    g("norm keepdims", lambda ns, x: ns.linalg.norm(x, axis=1, keepdims=True), (3, 2))
    g("svd full_matrices", lambda ns, x: ns.linalg.svd(x, full_matrices=True)[1], (3, 2))
    g("svd full_matrices u", lambda ns, x: ns.linalg.svd(x)[0] ** 2, (3, 2))
    g("fft2 repeated axes", lambda ns, x: ns.real(ns.fft.fft2(x, axes=(0, 0))), (4, 4))
    g("fftn repeated axes s", lambda ns, x: ns.real(ns.fft.fftn(x, s=(2, 3), axes=(1, 1))), (4, 4))
    g("rfft odd n", lambda ns, x: ns.real(ns.fft.rfft(x, n=3)), (4,))
    g("rfft odd length", lambda ns, x: ns.real(ns.fft.rfft(x)), (5,))
    g("irfft odd n", lambda ns, x: ns.fft.irfft(x, n=5), (4,))
    g("rfftn odd", lambda ns, x: ns.real(ns.fft.rfftn(x)), (2, 3))
    g("einsum list no output", lambda ns, x: ns.einsum(x, [0, 1], x, [1, 2]), (3, 3))
    g("pad edge", lambda ns, x: ns.pad(x, 1, "edge"), (3,))
    g("pad reflect", lambda ns, x: ns.pad(x, 1, "reflect"), (3,))
    g("pad wrap fwd", lambda ns, x: ns.pad(x, 1, "wrap"), (3,), "fwd")
    g("pad linear_ramp", lambda ns, x: ns.pad(x, 2, "linear_ramp"), (3,))
    g("gradient spacing", lambda ns, x: ns.gradient(x, 0.5), (5,))
    g("gradient edge_order", lambda ns, x: ns.gradient(x, edge_order=2), (5,))
    g("gradient short axis", lambda ns, x: ns.gradient(x), (2,))
    g("atleast_2d two arrays", lambda ns, x: ns.atleast_2d(x, x * 2)[1], (3,))
    g("broadcast_to extra dims", lambda ns, x: ns.broadcast_to(x, (2, 3)), (3,))
    g("repeat array repeats", lambda ns, x: ns.repeat(x, [1, 2, 1]), (3,))
    g("repeat 0-d", lambda ns, x: ns.repeat(x, 3), ())
    g("roll tuple shift", lambda ns, x: ns.roll(x, (1, 2), axis=(0, 1)), (3, 3))
    g("trace axes", lambda ns, x: ns.trace(x, 0, 1, 2), (2, 3, 3))
    g("trace offset 3d", lambda ns, x: ns.trace(x, 1), (3, 3, 2))
    g("rot90 axes", lambda ns, x: ns.rot90(x, 1, (1, 2)), (2, 3, 3))
    g("cumsum scalar", lambda ns, x: ns.cumsum(x), ())
    g("prod tuple axis", lambda ns, x: ns.prod(x, axis=(0, 1)), (2, 3))
    g("var tuple axis fwd", lambda ns, x: ns.var(x, axis=(0, 1)), (2, 3), "fwd")
    g("std tuple axis fwd", lambda ns, x: ns.std(x, axis=(0, 1)), (2, 3), "fwd")
    g("max tuple axis fwd", lambda ns, x: ns.max(x, axis=(0, -1)), (2, 3, 2), "fwd")
    g("make_diagonal offset", lambda ns, x: ns.make_diagonal(x, offset=1, axis1=-1, axis2=-2), (3,))
    g("linspace endpoint", lambda ns, x: ns.linspace(x, 2.0, 4, endpoint=False), ())
    g("linspace axis", lambda ns, x: ns.linspace(x, x * 2, 3, axis=-1), (2,))
    g("tensordot axes=0 neg", lambda ns, x: ns.tensordot(x, x, axes=([-1], [0])), (3, 3))
    g("kron scalar", lambda ns, x: ns.kron(x, 2.0), (2, 2))
    g("select default traced", lambda ns, x: ns.select([x > 0.9], [x * 2], default=x), (3,))
    g("where single arg", lambda ns, x: x[ns.where(x > 0.2)], (4,))
    g("clip array bounds", lambda ns, x: ns.clip(x, onp.array([0.5, 0.6, 0.7]), 1.4), (3,))
    g("power int exponent array", lambda ns, x: x ** onp.array([2, 3, 1]), (3,))
    g("divmod", lambda ns, x: ns.divmod(x, 0.7)[1], (3,))
    g("cumprod", lambda ns, x: ns.cumprod(x), (3,))
    g("nanmax", lambda ns, x: ns.nanmax(x), (3,))
    g("median", lambda ns, x: ns.median(x), (5,))
    g("ptp method", lambda ns, x: ns.ptp(x), (4,))
    g("take", lambda ns, x: ns.take(x, [0, 2]), (3,))
    g("compress", lambda ns, x: ns.compress([True, False, True], x), (3,))
    g("flip", lambda ns, x: ns.flip(x, 0), (3,))
    g("average weights", lambda ns, x: ns.average(x, weights=onp.array([1.0, 2.0, 3.0])), (3,))
    g("trapezoid", lambda ns, x: (ns.trapezoid if hasattr(onp, "trapezoid") else ns.trapz)(x), (4,))
    g("interp", lambda ns, x: ns.interp(0.5, onp.array([0.0, 1.0, 2.0]), x), (3,))
    g("convolve 1d numpy", lambda ns, x: ns.convolve(x, onp.array([1.0, 0.5])), (4,))
    g("vdot", lambda ns, x: ns.vdot(x, onp.array([1.0, 2.0, 3.0])), (3,))
    g("matrix_power", lambda ns, x: ns.linalg.matrix_power(x, 2), (2, 2))
    g("multi_dot", lambda ns, x: ns.linalg.multi_dot([x, x, x]), (2, 2))
    g("eigvalsh", lambda ns, x: ns.linalg.eigvalsh(x + x.T), (3, 3))
    g("eigvals", lambda ns, x: ns.real(ns.linalg.eigvals(x + x.T)), (3, 3))
    g("qr", lambda ns, x: ns.linalg.qr(x)[1] ** 2, (3, 3))
    g("lstsq", lambda ns, x: ns.linalg.lstsq(x + 2 * onp.eye(3), onp.ones(3), rcond=None)[0], (3, 3))
    g("cond", lambda ns, x: ns.linalg.cond(x + 2 * onp.eye(3)), (3, 3))
    g("tensorinv-free matrix_rank", lambda ns, x: ns.linalg.matrix_rank(x) * ns.sum(x), (2, 2))
    # spellings NumPy accepts that a rule may not: either spelling raises or it means what NumPy means
    for u_ in ("l", "u", "L", "U"):
        g(f"eigh UPLO={u_!r} values", (lambda q_: lambda ns, x: ns.linalg.eigh(x, UPLO=q_)[0])(u_), (3, 3))
        g(f"eigh UPLO={u_!r} vectors", (lambda q_: lambda ns, x: ns.linalg.eigh(x, q_)[1] ** 2)(u_), (3, 3))
        g(f"eigh UPLO={u_!r} fwd", (lambda q_: lambda ns, x: ns.linalg.eigh(x, UPLO=q_)[0])(u_), (3, 3), "fwd")
    msk = onp.array([[True, False, True], [False, True, True]])
    for r_ in ("sum", "mean", "prod", "var", "std"):
        g(f"{r_} where=", (lambda q_: lambda ns, x: getattr(ns, q_)(x, where=msk))(r_), (2, 3))
        g(f"{r_} where= axis fwd", (lambda q_: lambda ns, x: getattr(ns, q_)(x, axis=1, where=msk))(r_), (2, 3), "fwd")
    g("max where= initial=", lambda ns, x: ns.max(x, where=msk, initial=-9.0), (2, 3))
    g("min where= initial= fwd", lambda ns, x: ns.min(x, axis=0, where=msk, initial=9.0), (2, 3), "fwd")
    g("sum method where=", lambda ns, x: (x * 1.0).sum(where=msk), (2, 3))
    # NumPy 2 spellings of functions autograd supports under their older names (the same function objects in NumPy)
    g("concat alias", lambda ns, x: ns.concat((x, 2.0 * x)), (3,))
    g("concat alias fwd", lambda ns, x: ns.concat([x * x, x], axis=0), (3,), "fwd")
    g("permute_dims alias", lambda ns, x: ns.permute_dims(x, (1, 0)), (2, 3))
    g("pow alias", lambda ns, x: ns.pow(x, 2.0), (3,))
    g("acos alias", lambda ns, x: ns.acos(x * 0.3), (3,))
    g("atan2 alias", lambda ns, x: ns.atan2(x, 1.5), (3,))
    g("matrix_transpose", lambda ns, x: ns.matrix_transpose(x), (2, 3))
    # inverse real FFTs whose OUTPUT length is odd (no rule): the length spelled out, or "the whole axis" (-1, NumPy >= 2)
    g("irfft n odd", lambda ns, x: ns.fft.irfft(x, n=5), (3,))
    g("irfft2 s=(-1,-1) odd", lambda ns, x: ns.fft.irfft2(x, s=(-1, -1)), (3, 3))
    g("irfft2 s=(-1,-1) odd wide", lambda ns, x: ns.fft.irfft2(x, s=(-1, -1)), (2, 5))
    g("irfftn s=(-1,-1) axes odd", lambda ns, x: ns.fft.irfftn(x, s=(-1, -1), axes=(0, 1)), (3, 3))
    g("irfftn s=(-1,) axes=(1,) odd", lambda ns, x: ns.fft.irfftn(x, s=(-1,), axes=(1,)), (2, 3))
    g("irfft2 s=(-1,-1) even", lambda ns, x: ns.fft.irfft2(x, s=(-1, -1)), (3, 4))
    g("irfft2 s=(3,3) odd", lambda ns, x: ns.fft.irfft2(x, s=(3, 3)), (3, 3))
    g("rfft2 s=(-1,-1)", lambda ns, x: ns.real(ns.fft.rfft2(x, s=(-1, -1))), (3, 3))
    g("hfft", lambda ns, x: ns.fft.hfft(x), (4,))
    g("fftfreq-scaled", lambda ns, x: ns.fft.fftshift(x * ns.fft.fftfreq(4)), (4,))
    return G


_G = []


def guard_body(c):
    import autograd
    import autograd.numpy as anp

    from ..templates.core import namespaces

    if not _G:
        _G.extend(guards())
    NP, AG = namespaces()
    i = c.int(0, len(_G) - 1)
    name, fn, shape, mode = _G[i]
    vseed = c.seed()
    x0 = values.generic(vseed, [shape], 0.35, 1.75)[0][0]
    sample = {"guard": name, "mode": mode, "vseed": vseed}
    c.features.update(guard=name, mode=mode)
    v = values.direction(vseed, shape, 9)

    def F(x, ns):
        return scalarise(fn(ns, x), ns, vseed)[0]

    try:
        with warnings.catch_warnings():
            warnings.simplefilter("ignore")
            dv, err = oracle.directional(lambda x: onp.asarray(F(x, NP)), x0, v, 0.01)
            dv = float(onp.real(dv))
    except oracle.Inconclusive as e:
        return Outcome("inconclusive", detail=str(e), sample=sample)
    except Exception as e:
        return Outcome("numpy_rejects", detail=f"{type(e).__name__}: {e}"[:100], sample=sample)
    xx = float(x0) if shape == () and c.bool() else x0
    vv = float(v) if shape == () and not isinstance(xx, onp.ndarray) else v
    try:
        with warnings.catch_warnings():
            warnings.simplefilter("ignore")
            if mode == "rev":
                res = autograd.grad(lambda x: F(x, AG))(xx)
            else:
                res = autograd.make_jvp(lambda x: F(x, AG))(xx)(vv)[1]
    except Exception as e:
        return ok(nontrivial=True, key=name + mode, labels=["guard", "raised"], sample=sample)
    # aliases of supported functions: the function's own result, handed back by the operator without further operations, is a plain array
    # like under the supported name - not an object array of tracers (whose derivative as a RESULT is silently zero although it still
    # works as an intermediate).  (Sequence-taking functions autograd has no sequence-aware wrapper for are outside the properties.)
    try:
        if "alias" not in name:
            raise LookupError
        with warnings.catch_warnings():
            warnings.simplefilter("ignore")
            y_direct = autograd.make_vjp(lambda x: fn(AG, x))(xx)[1] if mode == "rev" else autograd.make_jvp(lambda x: fn(AG, x))(xx)(vv)[0]
        leaked = False
        for leaf in (y_direct if isinstance(y_direct, (tuple, list)) else [y_direct]):
            la = onp.asarray(leaf)
            leaked = leaked or la.dtype == object
        if leaked:
            return fail("tracer_leak", f"{name} ({mode}): the function's result comes back as an object array of tracers", f"C15|guard|{name}|{mode}|leak", sample=sample)
    except Exception:
        pass
    ra = onp.asarray(res)
    if ra.dtype == object or ra.shape != (tuple(shape) if mode == "rev" else ()):
        return fail("wrong_shape", f"{name} ({mode}): derivative of shape {ra.shape} for argument shape {tuple(shape)} - neither raised nor correct",
                    f"C15|guard|{name}|{mode}", sample=sample)
    got = float(onp.real(onp.sum(ra * v))) if mode == "rev" else float(onp.real(ra))
    if abs(got - dv) <= 1e-6 * max(1.0, abs(dv)) + 100 * err:
        return ok(nontrivial=True, key=name + mode, labels=["guard", "supported_and_correct"], sample=sample)
    kind = "silent_constant" if got == 0.0 and abs(dv) > 1e-6 else "wrong_value"
    return fail(kind, f"{name} ({mode}): derivative {got!r} but NumPy gives {dv!r} - neither raised nor correct", f"C15|guard|{name}|{mode}", sample=sample)


def foreign_body(c):
    """Input TYPES autograd has no box for - ndarray subclasses whose operations mean something else than the plain array's (numpy.ma.MaskedArray:
    reductions skip masked entries; numpy.matrix: `*` is the matrix product, results stay 2-D) - handed to a derivative operator: it raises, or the
    derivative is that of the function on THAT type (central differences of the plain call, perturbing the underlying data and rebuilding the type)."""
    import autograd
    import autograd.numpy as anp

    vseed = c.seed()
    typ = c.choice(["masked", "masked", "matrix"])
    fname = c.choice(["mean", "sum_sq", "mul_self", "sum_sin", "max", "dot_self", "std"])
    op = c.choice(["grad", "value_and_grad", "make_jvp", "elementwise_grad", "make_vjp"])
    shape = (c.int(2, 3), c.int(2, 3)) if typ == "matrix" else c.choice([(4,), (2, 3)])
    if typ == "matrix" and fname in ("mul_self", "dot_self"):
        shape = (shape[0], shape[0])
    (data,), _ = values.generic(vseed, [shape], 0.3, 1.7)
    mask = onp.zeros(shape, dtype=bool)
    mask.reshape(-1)[vseed % mask.size] = True
    build = (lambda d: onp.ma.array(d, mask=mask)) if typ == "masked" else (lambda d: onp.matrix(d))
    fns = {"mean": lambda ns, t: ns.mean(t), "sum_sq": lambda ns, t: ns.sum(t ** 2), "mul_self": lambda ns, t: ns.sum(t * t), "sum_sin": lambda ns, t: ns.sum(ns.sin(t)),
           "max": lambda ns, t: ns.max(t), "dot_self": lambda ns, t: ns.sum(ns.dot(t, t.T)), "std": lambda ns, t: ns.std(t)}
    fn = fns[fname]
    sample = {"type": typ, "fn": fname, "op": op, "shape": list(shape), "vseed": vseed}
    c.features.update(type=typ, fn=fname, op=op)
    try:
        with warnings.catch_warnings():
            warnings.simplefilter("ignore")
            plain = lambda d: float(onp.asarray(fn(onp, build(d))))
            plain(data)
            h = 1e-6
            num = onp.zeros(shape)
            for idx in onp.ndindex(*shape):
                e = onp.zeros(shape)
                e[idx] = h
                num[idx] = (plain(data + e) - plain(data - e)) / (2 * h)
    except Exception as e:
        return Outcome("numpy_rejects", detail=f"{type(e).__name__}: {e}"[:100], sample=sample)
    x = build(data)
    v = values.direction(vseed, shape, 9)
    try:
        with warnings.catch_warnings():
            warnings.simplefilter("ignore")
            F = lambda t: fn(anp, t)
            if op == "grad":
                res = autograd.grad(F)(x)
            elif op == "value_and_grad":
                res = autograd.value_and_grad(F)(x)[1]
            elif op == "elementwise_grad":
                res = autograd.elementwise_grad(F)(x)
            elif op == "make_vjp":
                res = autograd.make_vjp(F)(x)[0](1.0)
            else:
                res = autograd.make_jvp(F)(x)(v)[1]
    except Exception:
        return ok(nontrivial=True, key=json.dumps([typ, fname, op]), labels=["foreign", "raised", "type=" + typ], sample=sample)
    try:
        ra = onp.asarray(onp.ma.getdata(res) if isinstance(res, onp.ma.MaskedArray) else res, dtype=float)
        got = float(onp.sum(ra)) if op == "make_jvp" else float(onp.sum(ra.reshape(shape) * v))
    except Exception as e:
        return fail("wrong_shape", f"{op} of {fname} on a {typ} value returned {res!r:.120} - neither raised nor a derivative", f"C15|foreign|{typ}|{fname}", sample=sample)
    want = float(onp.sum(num * v))
    if abs(got - want) <= 1e-5 * max(1.0, abs(want)):
        return ok(nontrivial=True, key=json.dumps([typ, fname, op]), labels=["foreign", "supported_and_correct", "type=" + typ], sample=sample)
    return fail("wrong_value", f"{op} of {fname} on a {typ} value: pairing with a direction gives {got!r}, the function on that type has {want!r} - neither raised nor correct",
                f"C15|foreign|{typ}|{fname}", sample=sample)


# ---- integer arrays as the differentiated argument: raise, or return the derivative untruncated -----------------------------------------
def int_families():
    import autograd.numpy as np

    w = onp.array([0.5, 0.25, 0.125])
    W = onp.array([[0.5, -1.0, 2.0], [1.5, 0.25, -0.75]])
    return {
        "dot_vec": lambda x: np.dot(w, x), "dot_vec_r": lambda x: np.dot(x, w), "matmul": lambda x: np.sum(W @ x),
        "matvec_sin": lambda x: np.sum(np.sin(np.dot(W, x))), "tensordot": lambda x: np.sum(np.tensordot(W, x, 1) * w[:2]),
        "einsum": lambda x: np.einsum("i,i", w, x), "inner": lambda x: np.inner(w, x),
        "getitem_list": lambda x: np.sum(np.sin(x[[0, 1]])), "getitem_slice": lambda x: np.sum(np.sin(x[:2])),
        "getitem_int": lambda x: np.sin(x[0] * 1.0), "getitem_mask": lambda x: np.sum(np.sin(x[onp.array([True, False, True])])),
        "getitem_reverse": lambda x: np.sum(x[::-1] * w), "sum_sin": lambda x: np.sum(np.sin(x)), "mul_const": lambda x: np.sum(x * w),
        "divide": lambda x: np.sum(x / 2), "true_div": lambda x: np.sum(w / x), "power": lambda x: np.sum(x ** 2) * 0.5,
        "power_f": lambda x: np.sum(x ** 1.5), "add_float": lambda x: np.sum(np.sin(x + 0.5)),
        "concatenate": lambda x: np.sum(np.concatenate([x, w]) ** 2), "stack": lambda x: np.sum(np.stack([x, x]) * 0.5),
        "where": lambda x: np.sum(np.where(w > 0.2, x, 0.5) * w), "reshape": lambda x: np.sum(np.reshape(x, (3, 1)) * 0.5),
        "cumsum": lambda x: np.sum(np.cumsum(x) * w), "sum_scaled": lambda x: np.sum(x) * 0.5, "mean": lambda x: np.mean(x),
        "max": lambda x: np.max(x) * 0.5, "prod": lambda x: np.prod(x) * 0.5, "sqrt": lambda x: np.sum(np.sqrt(x)),
        "exp": lambda x: np.sum(np.exp(x * 0.1)), "abs": lambda x: np.sum(np.abs(x) * w), "maximum": lambda x: np.sum(np.maximum(x, 1.5)),
        "clip": lambda x: np.sum(np.clip(x, 1.5, 2.5) * w), "tile": lambda x: np.sum(np.tile(x, 2) * 0.5),
        "repeat": lambda x: np.sum(np.repeat(x, 2) * 0.25), "roll": lambda x: np.sum(np.roll(x, 1) * w),
        "pad": lambda x: np.sum(np.pad(x, 1, "constant") * 0.5), "kron": lambda x: np.sum(np.kron(x, w)), "sort": lambda x: np.sum(np.sort(x) * w),
        "fft": lambda x: np.sum(np.real(np.fft.fft(x)) * w), "norm": lambda x: np.linalg.norm(x), "astype": lambda x: np.sum(np.sin(x.astype(float))),
        "array": lambda x: np.sum(np.array([x[0], x[1]]) * 0.5), "transpose": lambda x: np.sum(np.transpose(np.reshape(x, (1, 3))) * 0.5),
        "linspace": lambda x: np.sum(np.linspace(x[0] * 1.0, 2.0, 3)),
    }


_INTF = {}


def int_input_body(c):
    """An integer ndarray is not a differentiable input type: differentiating with respect to it must raise, or - where autograd computes in
    floating point anyway - return the derivative it returns for the same values as floats.  A derivative rounded to integers is neither."""
    import autograd

    if not _INTF:
        _INTF.update(int_families())
    names = sorted(_INTF)
    fam = names[c.int(0, len(names) - 1)]
    f = _INTF[fam]
    vals = c.sample([1, 2, 3, 4, 5], 3)
    dt = c.choice(["int64", "int32"])  # (smaller integer types make NumPy itself compute in float16 / float32)
    mode = c.choice(["rev", "rev", "fwd"])
    xi = onp.array(vals, dtype=dt)
    xf = xi.astype(float)
    sample = {"family": fam, "values": vals, "dtype": dt, "mode": mode}
    c.features.update(family=fam, mode=mode, dtype=dt)
    v = onp.array([1.0, -0.5, 0.25])
    try:
        with warnings.catch_warnings():
            warnings.simplefilter("ignore")
            want = autograd.grad(f)(xf) if mode == "rev" else autograd.make_jvp(f)(xf)(v)[1]
    except Exception as e:
        return Outcome("numpy_rejects", detail=f"float input: {type(e).__name__}", sample=sample)
    try:
        with warnings.catch_warnings():
            warnings.simplefilter("ignore")
            got = autograd.grad(f)(xi) if mode == "rev" else autograd.make_jvp(f)(xi)(v)[1]
    except Exception as e:
        return ok(nontrivial=True, key=json.dumps([fam, dt, mode, "raises"]), labels=["int_input", "raises", "mode=" + mode], sample=sample)
    try:
        ga = onp.asarray(got, dtype=float)
    except Exception:
        return fail("wrong_kind", f"{fam}: derivative w.r.t. an integer array is {type(got).__name__}", f"C15|int_input|{fam}|{mode}", sample=sample)
    wa = onp.asarray(want, dtype=float)
    if ga.shape != wa.shape or not onp.allclose(ga, wa, rtol=1e-12, atol=1e-12):
        return fail("truncated_derivative", f"{fam} ({mode}): derivative w.r.t. the {dt} array {vals} is {onp.asarray(got).tolist()} (dtype {onp.asarray(got).dtype}) "
                    f"but w.r.t. the same values as floats it is {wa.tolist()} - neither raised nor correct", f"C15|int_input|{fam}|{mode}", sample=sample)
    return ok(nontrivial=True, key=json.dumps([fam, dt, mode, "float_result"]), labels=["int_input", "float_result", "mode=" + mode], sample=sample)


def finalize(agg):
    C = cat()
    A = applicable_list()
    have = {t[0] for t in A}
    return {"catalog_size": len(C), "templates": len(TEMPLATES), "excluded_names": sorted(EXCLUDE),
            "applicable_triples_in_corpus": len(A), "callables_with_applicable_template": len(have),
            "callables_without_applicable_template": sorted(l for l, _ in C if l not in have)}


PROP = Prop("C15", [
    Test("sweep", sweep_body, quick=12000, thorough=150000, shard_size=750),
    Test("contracts", contract_body, quick=150, thorough=600, shard_size=50),
    Test("guards", guard_body, quick=800, thorough=8000, shard_size=100),
    Test("int_input", int_input_body, quick=1500, thorough=10000, shard_size=150),
    Test("foreign_inputs", foreign_body, quick=400, thorough=2000, shard_size=100),
], RULE, assumptions=[
    "a callable is accused only for argument templates NumPy accepts from the typed pools; callables with no applicable template are listed, not vouched for",
    "Ridders derivative of the harness-scalarised raw-NumPy output is the reference; numpy.random reseeded before every evaluation",
], finalize=finalize, selftest=oracle.selftest)
