"""C11 — indexing gradients scatter exactly and combine with dense ones in any order."""
import json

import numpy as onp

from .. import values
from ..case import Outcome, describe_exc, fail, from_autograd, ok, raised
from ..engine import Prop, Test

RULE = (
    "Index expressions built constructively per dimension from {int incl. negative, slice with any sign of step and out-of-range "
    "bounds, Ellipsis, None, integer arrays / nested lists with repeats and broadcasting between several index arrays, boolean "
    "masks over 1..k dims (array or list), 0-d integer arrays, empty lists}, as tuples or bare, also chained x[i][j]; arrays of "
    "rank 0-4 with sides 1-4; validity decided by raw NumPy (invalid -> discarded, counted). Oracle: dense scatter model - pos = "
    "arange(size).reshape(shape)[idx] tells which input position every output element came from; vjp(g) == bincount(pos, g) "
    "reshaped (1e-12), jvp(v) == v[idx] exactly, primal == x[idx] exactly. Mixing programs: f(x) = sum of k sparse uses "
    "phi_k(x[idx_k]) and m dense / pass-through uses psi_m(x), k,m in 0..4, in a drawn order and association tree; expected "
    "gradient = sum of the per-use dense gradients from the scatter model and closed-form phi', psi'. Non-trivial = an index "
    "with a repeated position, a mask, a mixed advanced/basic tuple, or (programs) >=1 sparse and >=1 dense use; distinct by "
    "(shape, index expression) / program. Reassemble: 2-4 pieces selected by indexing (empty slices, all-False masks, empty / repeated "
    "integer lists, strides), scaled, re-assembled by concatenate / hstack / append in a drawn arrangement that may use a piece several "
    "times; the scatter model gives the source position of every output slot (vjp == bincount, jvp == the same arrangement of the tangent)."
    ' int_cotangent: integer cotangents through dense-and-gathered uses in four orders (raise, or 2 g + scatter(g)).'
    ' container_params: 2-3 arrays in a dict / list / tuple, 3-6 terms (indexed with repeats, dense, tied by E + F / E * F) in a drawn order. lowprec: float32 / float16 arrays with same-precision or float64 partners, indexed and dense terms in a drawn order, against the float64 sum of contributions.'
)


# ---- index generation ------------------------------------------------------------------------------------------
def gen_index(c, shape):
    """Return a JSON-able token list describing an index into an array of `shape`.

    Layout: tokens for the first a dims, optionally an Ellipsis, tokens for the last b dims (a + b <= rank); None may be
    inserted anywhere; masks may span several leading dims."""
    nd = len(shape)
    a = c.int(0, nd)
    b = c.int(0, nd - a)
    use_ellipsis = (b > 0 and a + b < nd) or c.chance(1, 4)

    def dim_tokens(dims, allow_mask):
        toks = []
        i = 0
        while i < len(dims):
            d = shape[dims[i]]
            if c.chance(1, 6):
                toks.append(["n"])
            k = c.int(0, 7)
            if d == 0:
                k = 2
            if k in (0, 1):
                toks.append(["i", c.int(-d, d - 1)])
            elif k in (2, 3):
                lo = c.choice([None, c.int(-d - 1, d + 1)])
                hi = c.choice([None, c.int(-d - 1, d + 1)])
                st = c.choice([None, 1, 2, -1, -2, 3])
                toks.append(["s", lo, hi, st])
            elif k in (4, 5):
                n = c.int(0, 3)
                if c.chance(1, 4):
                    arr = [[c.int(-d, d - 1) for _ in range(max(n, 1))] for _ in range(c.int(1, 2))]
                else:
                    arr = [c.int(-d, d - 1) for _ in range(n)]
                toks.append(["a", arr, c.bool()])  # (values, as ndarray?) ; False -> plain (nested) list
            elif k == 6:
                kd = c.int(1, min(2, len(dims) - i)) if allow_mask else 1
                msh = tuple(shape[t] for t in dims[i:i + kd])
                bits = [c.bool() for _ in range(int(onp.prod(msh)))]
                toks.append(["m", onp.array(bits, dtype=bool).reshape(msh).tolist(), c.chance(3, 4)])
                i += kd - 1
            else:
                toks.append(["a0", c.int(-d, d - 1)])
            i += 1
        return toks

    toks = dim_tokens(list(range(a)), True)
    if use_ellipsis:
        toks.append(["e"])
    toks += dim_tokens(list(range(nd - b, nd)), False)
    if c.chance(1, 6):
        toks.append(["n"])
    bare = len(toks) == 1 and c.bool()
    return {"toks": toks, "bare": bare}


def build_index(spec):
    out = []
    for t in spec["toks"]:
        k = t[0]
        if k == "e":
            out.append(Ellipsis)
        elif k == "n":
            out.append(None)
        elif k == "i":
            out.append(t[1])
        elif k == "s":
            out.append(slice(t[1], t[2], t[3]))
        elif k == "a":
            out.append(onp.array(t[1], dtype=int) if t[2] else t[1])
        elif k == "m":
            out.append(onp.array(t[1], dtype=bool) if t[2] else t[1])
        elif k == "a0":
            out.append(onp.array(t[1]))
    if spec["bare"]:
        return out[0]
    return tuple(out)


def scatter_model(shape, idx, g):
    size = int(onp.prod(shape)) if len(shape) else 1
    pos = onp.arange(size).reshape(shape)[idx]
    g = onp.asarray(g, dtype=float)
    return onp.bincount(onp.asarray(pos).ravel(), weights=onp.broadcast_to(g, onp.shape(pos)).ravel(), minlength=size).reshape(shape), pos


def features_of(spec, pos, shape):
    toks = spec["toks"]
    kinds = {t[0] for t in toks}
    adv = kinds & {"a", "m", "a0"}
    basic = kinds & {"i", "s", "e", "n"}
    p = onp.asarray(pos).ravel()
    repeated = p.size != onp.unique(p).size
    return {
        "repeated": bool(repeated), "mask": "m" in kinds, "mixed": bool(adv and basic), "newaxis": "n" in kinds, "ellipsis": "e" in kinds,
        "neg_step": any(t[0] == "s" and t[3] is not None and t[3] < 0 for t in toks), "empty": p.size == 0,
        "list_index": any(t[0] in ("a", "m") and not t[2] for t in toks), "bare": spec["bare"], "n_adv": len([t for t in toks if t[0] in ("a", "m", "a0")]),
        "rank": len(shape),
    }


MISSING = ("VJP of", "JVP of")


def _missing(e):
    return isinstance(e, NotImplementedError) and "not defined" in str(e)


def index_body(c):
    import autograd

    shape = c.shape(0, 4, max_side=4)
    spec = gen_index(c, shape)
    NOCHAIN = object()
    chained = NOCHAIN
    idx = build_index(spec)
    vseed = c.seed()
    x = values.generic(vseed, [shape], -2.0, 2.0)[0][0]
    x.flags.writeable = False
    sample = {"shape": list(shape), "index": repr(idx)}
    try:
        y0 = x[idx]
    except Exception as e:
        return Outcome("numpy_rejects", detail=f"{type(e).__name__}: {e}"[:100], sample=sample)
    # optional chained second index
    if onp.ndim(y0) >= 1 and c.chance(1, 4):
        spec2 = gen_index(c, onp.shape(y0))
        idx2 = build_index(spec2)
        try:
            y0 = x[idx][idx2]
            chained = idx2
            sample["index2"] = repr(idx2)
        except Exception:
            chained = NOCHAIN
            y0 = x[idx]
    y0 = onp.asarray(y0)
    take = (lambda a: a[idx][chained]) if chained is not NOCHAIN else (lambda a: a[idx])
    size = x.size
    pos = take(onp.arange(size).reshape(shape))
    feats = features_of(spec, pos, shape)
    feats["chained"] = chained is not NOCHAIN
    c.features.update(feats)
    labels = [k for k, v in feats.items() if v is True] + [f"rank={len(shape)}"]
    g = values.direction(vseed, y0.shape, 71)
    want = onp.bincount(onp.asarray(pos).ravel(), weights=g.ravel(), minlength=size).reshape(shape) if size else onp.zeros(shape)
    bucket = lambda k: f"C11|index|{k}"
    # reverse
    try:
        vjp, y = autograd.make_vjp(take)(x)
        r = vjp(g)
    except Exception as e:
        if not from_autograd(e):
            raise
        if _missing(e):
            return raised(e, "rev", labels=labels, sample=sample)
        return fail("unexpected_exception", "reverse: " + describe_exc(e), bucket("rev_exception"), sample=sample)
    if not (onp.shape(y) == y0.shape and onp.array_equal(onp.asarray(y), y0)):
        return fail("primal_mismatch", "x[idx] under tracing differs from NumPy", bucket("primal_mismatch"), sample=sample)
    ra = onp.asarray(r)
    if ra.shape != x.shape:
        return fail("wrong_shape", f"gradient shape {ra.shape} for array shape {x.shape}", bucket("wrong_shape"), sample=sample)
    if not onp.allclose(ra, want, rtol=1e-12, atol=1e-12):
        return fail("wrong_value", f"scatter mismatch: got {ra.tolist()} want {want.tolist()}"[:400], bucket("wrong_value"), sample=sample)
    # second call of the same vjp: same answer (buffers must not be reused)
    try:
        r2 = onp.asarray(vjp(g))
    except Exception as e:
        if not from_autograd(e):
            raise
        return fail("unexpected_exception", "second vjp call: " + describe_exc(e), bucket("rev_exception"), sample=sample)
    if not onp.array_equal(r2, ra):
        return fail("history_dependence", "second call of the same VJP gives a different gradient", bucket("history"), sample=sample)
    # forward
    v = values.direction(vseed, x.shape, 72)
    try:
        yv, t = autograd.make_jvp(take)(x)(v)
    except Exception as e:
        if not from_autograd(e):
            raise
        if _missing(e):
            return raised(e, "fwd", labels=labels, sample=sample)
        return fail("unexpected_exception", "forward: " + describe_exc(e), bucket("fwd_exception"), sample=sample)
    if not (onp.shape(t) == y0.shape and onp.array_equal(onp.asarray(t), take(v))):
        return fail("wrong_value", "jvp(v) != v[idx]", bucket("fwd_wrong_value"), sample=sample)
    nontrivial = feats["repeated"] or feats["mask"] or feats["mixed"]
    return ok(nontrivial=nontrivial, key=json.dumps([list(shape), repr(idx), repr(chained) if chained is not NOCHAIN else ""]), labels=labels, sample=sample)


# ---- mixing programs ------------------------------------------------------------------------------------------------
PHI = ["lin", "sin", "sq", "shared_pair"]


def mixing_body(c):
    import autograd
    import autograd.numpy as anp

    shape = c.shape(0, 3, max_side=4)
    vseed = c.seed()
    x = values.generic(vseed, [shape], -1.5, 1.5)[0][0]
    x.flags.writeable = False
    n_sparse, n_dense = c.int(0, 4), c.int(0, 4)
    if n_sparse + n_dense == 0:
        n_dense = 1
    terms = []
    for _ in range(n_sparse):
        for _try in range(4):
            spec = gen_index(c, shape)
            idx = build_index(spec)
            try:
                y = x[idx]
                break
            except Exception:
                idx = None
        if idx is None:
            idx = Ellipsis
        terms.append(("sparse", idx, PHI[c.int(0, 3)], c.choice([1.0, -0.5, 2.0])))
    for _ in range(n_dense):
        terms.append(("dense", None, c.choice(["lin", "sin", "sq", "pass", "pass_reshape", "pass_sub", "shared_add"]), c.choice([1.0, -0.5, 2.0])))
    order = c.perm(len(terms))
    terms = [terms[i] for i in order]
    # association tree: list of merge positions
    merges = [c.int(0, max(0, len(terms) - 2 - i)) for i in range(len(terms) - 1)]
    sample = {"shape": list(shape), "terms": [(t[0], repr(t[1]), t[2], t[3]) for t in terms], "merges": merges}
    W = values.direction(vseed, shape, 73)

    def weights(sh, k):
        return values.direction(vseed, sh, 80 + k)

    def f(xx, ns):
        parts = []
        for k, (kind, idx, fn, w) in enumerate(terms):
            if fn == "shared_pair":
                # a and b both feed s = a + b, so ONE cotangent object reaches both; a is additionally indexed inside a product
                # with another use of b: the indexed contribution reaches a while b's copy of that object is still pending
                a_, b_ = xx * 2.0, xx * 3.0
                sel = a_[idx]
                val = ns.sum(b_) * ns.sum(sel * weights(onp.shape(sel), k)) + ns.sum((a_ + b_) * weights(onp.shape(xx), k + 40))
                parts.append(w * val)
                continue
            t = xx[idx] if kind == "sparse" else xx
            if fn == "lin":
                val = ns.sum(t * weights(onp.shape(t), k))
            elif fn == "sin":
                val = ns.sum(ns.sin(t) * weights(onp.shape(t), k))
            elif fn == "sq":
                val = ns.sum(t * t * weights(onp.shape(t), k))
            elif fn == "shared_add":
                # add hands ONE cotangent object to both parents: to xx itself (a dense, not-owned contribution) and to the
                # product node, which is processed later - an indexed contribution arriving at xx in between must not write into it
                z = t * 0.5  # z has a second consumer, so its cotangent stays pending while other contributions reach xx
                val = ns.sum((t + z) * weights(onp.shape(t), k)) + ns.sum(ns.sin(z) * weights(onp.shape(t), k + 40))
            elif fn == "pass":
                val = ns.sum(t + 0.0)  # the rule of add returns its incoming cotangent unchanged
            elif fn == "pass_reshape":
                val = ns.sum(ns.reshape(t, onp.shape(t)) * 1.0)
            else:
                val = ns.sum(0.5 - t)
            parts.append(w * val)
        for m in merges:
            a = parts.pop(m)
            b = parts.pop(m)
            parts.insert(m, a + b)
        return parts[0]

    def expected():
        size = x.size
        total = onp.zeros(shape)
        for k, (kind, idx, fn, w) in enumerate(terms):
            if fn == "shared_pair":
                sel = (2.0 * x)[idx]
                wsel = weights(onp.shape(sel), k)
                A, B = float(onp.sum(sel * wsel)), float(onp.sum(3.0 * x))
                pos = onp.arange(size).reshape(shape)[idx]
                scat = onp.bincount(onp.asarray(pos).ravel(), weights=onp.asarray(wsel, dtype=float).ravel(), minlength=size).reshape(shape) if size else onp.zeros(shape)
                total = total + w * (3.0 * A * onp.ones(shape) + B * 2.0 * scat + 5.0 * weights(shape, k + 40))
                continue
            t = x[idx] if kind == "sparse" else x
            wk = weights(onp.shape(t), k)
            if fn == "lin":
                d = wk
            elif fn == "sin":
                d = onp.cos(t) * wk
            elif fn == "sq":
                d = 2 * t * wk
            elif fn == "shared_add":
                d = 1.5 * wk + 0.5 * onp.cos(0.5 * t) * weights(onp.shape(t), k + 40)
            elif fn in ("pass", "pass_reshape"):
                d = onp.ones(onp.shape(t))
            else:
                d = -onp.ones(onp.shape(t))
            d = w * d
            if kind == "sparse":
                pos = onp.arange(size).reshape(shape)[idx]
                d = onp.bincount(onp.asarray(pos).ravel(), weights=onp.asarray(d, dtype=float).ravel(), minlength=size).reshape(shape)
            total = total + d
        return total

    try:
        y0 = f(x, onp)
        want = expected()
    except Exception as e:
        return Outcome("numpy_rejects", detail=str(e)[:100], sample=sample)
    bucket = lambda k: f"C11|mixing|{k}"
    seq = "".join("s" if t[0] == "sparse" else ("p" if t[2].startswith("pass") or t[2] == "shared_add" else "d") for t in terms)
    c.features.update(seq=seq, n_sparse=n_sparse, n_dense=n_dense, rank=len(shape))
    labels = [f"n_sparse={n_sparse}", f"n_dense={n_dense}", "first=" + seq[0], f"rank={len(shape)}"]
    try:
        vjp, y = autograd.make_vjp(lambda xx: f(xx, anp))(x)
        got = onp.asarray(vjp(1.0))
        got2 = onp.asarray(vjp(1.0))
        got3 = onp.asarray(autograd.grad(lambda xx: f(xx, anp))(x))
    except Exception as e:
        if not from_autograd(e):
            raise
        if _missing(e):
            return raised(e, "rev", labels=labels, sample=sample)
        return fail("unexpected_exception", describe_exc(e), bucket("exception"), sample=sample)
    if abs(float(y) - float(y0)) > 1e-12 * max(1.0, abs(float(y0))):
        return fail("primal_mismatch", f"{float(y)!r} vs {float(y0)!r}", bucket("primal_mismatch"), sample=sample)
    if got.shape != x.shape:
        return fail("wrong_shape", f"gradient shape {got.shape} for {x.shape}", bucket("wrong_shape"), sample=sample)
    tol = 1e-11 * max(1.0, float(onp.max(onp.abs(want), initial=0.0)))
    if not onp.all(onp.abs(got - want) <= tol):
        return fail("wrong_value", f"accumulated gradient differs from the sum of dense contributions by {float(onp.max(onp.abs(got - want))):.3e} (order {seq})",
                    bucket("wrong_value"), sample=sample)
    if not (onp.array_equal(got, got2) and onp.array_equal(got, got3)):
        return fail("history_dependence", "repeated evaluation gives a different gradient", bucket("history"), sample=sample)
    # forward mode agrees on a dense direction
    v = values.direction(vseed, x.shape, 74)
    try:
        t = float(autograd.make_jvp(lambda xx: f(xx, anp))(x)(v)[1])
        if abs(t - float(onp.sum(want * v))) > 1e-10 * max(1.0, abs(float(onp.sum(want * v)))):
            return fail("wrong_value", f"forward mode {t!r} vs {float(onp.sum(want * v))!r}", bucket("fwd_wrong_value"), sample=sample)
    except Exception as e:
        if not _missing(e):
            return fail("unexpected_exception", "forward: " + describe_exc(e), bucket("fwd_exception"), sample=sample)
    return ok(nontrivial=n_sparse >= 1 and n_dense >= 1, key=json.dumps(sample, default=repr), labels=labels, sample=sample)


def reassemble_body(c):
    """Pieces selected by indexing (slices incl. empty ones, masks incl. all-False, integer lists incl. empty / repeated entries), scaled,
    and re-assembled by concatenate / hstack / append in a drawn arrangement that may use one piece several times (y, z, y).  The scatter
    model says which input position every output slot came from: vjp == bincount, jvp == the same arrangement of the tangent."""
    import autograd
    import autograd.numpy as anp

    n = c.int(3, 7)
    cols = c.choice([0, 0, 2])
    shape = (n,) if not cols else (n, cols)
    vseed = c.seed()
    x0 = values.generic(vseed, [shape], -1.5, 1.5)[0][0]
    npieces = c.int(2, 4)
    sels, descs = [], []
    for _ in range(npieces):
        k = c.int(0, 5)
        if k == 0:
            lo = c.int(0, n)
            hi = c.int(lo, n) if c.chance(2, 3) else lo  # lo == hi: an empty slice
            sel, d = slice(lo, hi), f"{lo}:{hi}"
        elif k == 1:
            lo = c.int(0, n + 1)
            sel, d = slice(lo, None), f"{lo}:"
        elif k == 2:
            bits = [c.bool() and not c.chance(1, 4) for _ in range(n)]
            if c.chance(1, 5):
                bits = [False] * n
            sel, d = onp.array(bits, dtype=bool), "mask" + "".join("1" if b_ else "0" for b_ in bits)
        elif k == 3:
            m = c.int(0, 3)
            idx = [c.int(-n, n - 1) for _ in range(m)]
            sel, d = onp.array(idx, dtype=int), f"ints{idx}"
        elif k == 4:
            st = c.choice([-1, 2, -2])
            sel, d = slice(None, None, st), f"::{st}"
        else:
            i = c.int(-n, n - 1)
            sel, d = slice(i, i + 1) if i != -1 else slice(i, None), f"[{i}] kept as a length-1 piece"
        sels.append(sel)
        descs.append(d)
    arrangement = [c.int(0, npieces - 1) for _ in range(c.int(2, 5))]
    how = c.choice(["concatenate_list", "concatenate_tuple", "axis_kw", "axis_neg", "hstack", "append", "via_dict", "via_list"])
    if cols and how == "hstack":
        how = "concatenate_list"
    scales = [1.0 + 0.5 * i for i in range(npieces)]
    sample = {"shape": list(shape), "pieces": descs, "arrangement": arrangement, "how": how, "vseed": vseed}
    bucket = lambda k: f"C11|reassemble|{k}"

    def build(np_, x):
        ps = [x[s_] * k_ for s_, k_ in zip(sels, scales)]
        if how in ("via_dict", "via_list") and np_ is not onp:
            # the pieces pass through one of autograd's own containers (a dict with keys in non-sorted order, or a list) before they are joined
            import autograd.builtins as ab

            if how == "via_dict":
                keys = ["w", "b", "z", "a"][: len(ps)]
                box = ab.dict({k_: p_ for k_, p_ in zip(keys, ps)})
                ps = [box[k_] for k_ in keys]
            else:
                box = ab.list(ps)
                ps = [box[i_] for i_ in range(len(ps))]
        seq = [ps[i] for i in arrangement]
        if how == "concatenate_list":
            return np_.concatenate(seq)
        if how == "concatenate_tuple":
            return np_.concatenate(tuple(seq), 0)
        if how == "axis_kw":
            return np_.concatenate(seq, axis=0)
        if how == "axis_neg":
            return np_.concatenate(seq, axis=-len(shape))
        if how == "hstack":
            return np_.hstack(seq)
        out = seq[0]
        for p_ in seq[1:]:
            out = np_.append(out, p_, axis=0)
        return out

    try:
        y_ref = build(onp, x0)
        pos = build(onp, onp.arange(x0.size, dtype=float).reshape(shape))  # scaled positions: divide the scale out again below
    except Exception as e:
        return Outcome("numpy_rejects", detail=str(e)[:100], sample=sample)
    if y_ref.size == 0:
        return Outcome("numpy_rejects", detail="empty result", sample=sample)
    slot_scale = build(onp, onp.ones(shape))
    src = onp.rint(pos / slot_scale).astype(int)
    g = values.direction(vseed, y_ref.shape, 3)
    want = onp.bincount(src.ravel(), weights=(g * slot_scale).ravel(), minlength=x0.size).reshape(shape)
    v = values.direction(vseed, shape, 4)
    f = lambda x: build(anp, x)
    try:
        vjp, y = autograd.make_vjp(f)(x0)
        got = onp.asarray(vjp(g))
        got2 = onp.asarray(autograd.grad(lambda x: anp.sum(f(x) * g))(x0))
    except Exception as e:
        if not from_autograd(e):
            raise
        return fail("unexpected_exception", describe_exc(e), bucket("exception"), sample=sample)
    if onp.shape(y) != y_ref.shape or not onp.array_equal(onp.asarray(y), y_ref):
        return fail("primal_mismatch", "value differs from NumPy's", bucket("primal"), sample=sample)
    for nm, r in (("make_vjp", got), ("grad", got2)):
        if r.shape != want.shape or not onp.allclose(r, want, rtol=1e-12, atol=1e-12):
            return fail("wrong_value", f"{nm}: gradient {r.tolist()} but the scatter model gives {want.tolist()}", bucket("wrong_value"), sample=sample)
    try:
        t = onp.asarray(autograd.make_jvp(f)(x0)(v)[1])
        want_t = build(onp, v)
        if t.shape != want_t.shape or not onp.allclose(t, want_t, rtol=1e-12, atol=1e-12):
            return fail("wrong_value", f"forward mode: tangent {t.tolist()} expected {want_t.tolist()}", bucket("fwd_wrong_value"), sample=sample)
    except Exception as e:
        if not _missing(e):
            return fail("unexpected_exception", "forward: " + describe_exc(e), bucket("fwd_exception"), sample=sample)
    empties = sum(1 for i in arrangement if onp.size(onp.arange(n)[sels[i]]) == 0)
    repeats = len(arrangement) - len(set(arrangement))
    c.features.update(how=how, empties=empties, repeats=repeats)
    return ok(nontrivial=bool(empties or repeats), key=json.dumps(sample), labels=["how=" + how] + (["empty_piece"] if empties else []) + (["piece_reused"] if repeats else []),
              sample=sample)


def int_cotangent_body(c):
    """Integer cotangents (rows of an integer identity, one-hot selectors) pulled back through programs that use a value
    densely and through a gather, in every order: the result is 2 g + scatter(g) - or the call raises; the scattered part is never dropped."""
    import autograd
    import autograd.numpy as anp

    n = c.int(3, 5)
    two_d = c.bool()
    shape = (n, 2) if two_d else (n,)
    vseed = c.seed()
    x0 = values.generic(vseed, [shape], -1.5, 1.5)[0][0]
    perm = [c.int(-n, n - 1) for _ in range(n)]
    order = c.int(0, 3)
    gkind = c.choice(["int64_onehot", "int64", "int32", "float_control"])  # (a boolean array is not a cotangent: True + True is True)
    if gkind == "int64_onehot":
        g = onp.zeros(shape, dtype=onp.int64)
        g.reshape(-1)[c.int(0, g.size - 1)] = 1
    elif gkind in ("int64", "int32"):
        g = onp.rint(values.direction(vseed, shape, 3) * 3).astype(onp.int64 if gkind == "int64" else onp.int32)
    else:
        g = values.direction(vseed, shape, 3)
    sample = {"shape": list(shape), "gather": perm, "order": order, "cotangent": gkind, "g": g.tolist(), "vseed": vseed}
    c.features.update(order=order, cotangent=gkind)

    def f(x):
        gath = x[perm]
        return [lambda: (gath + x) + x, lambda: (x + x) + gath, lambda: x + (gath + x), lambda: (x + gath) + x * 1.0][order]()

    gf = g.astype(float)
    scat = onp.zeros(shape)
    onp.add.at(scat, onp.array(perm), gf)
    want = 2.0 * gf + scat
    try:
        vjp, _ = autograd.make_vjp(f)(x0)
        got = onp.asarray(vjp(g))
        got2 = onp.asarray(vjp(g))
    except Exception as e:
        if not from_autograd(e) and not isinstance(e, (TypeError, ValueError)):
            raise
        return raised(e, "int_cotangent", sample=sample)
    for r in (got, got2):
        if r.shape != want.shape or not onp.allclose(r.astype(float), want, rtol=1e-12, atol=1e-12):
            return fail("wrong_value", f"cotangent of kind {gkind}: vjp gives {r.tolist()} but 2 g + scatter(g) = {want.tolist()}", f"C11|int_cotangent|{gkind}", sample=sample)
    return ok(nontrivial=gkind != "float_control", key=json.dumps([list(shape), perm, order, gkind]), labels=["cotangent=" + gkind, f"order={order}"], sample=sample)


def finalize(agg):
    return {}


def lowprec_body(c):
    """Low-precision programs: a float32 (or float16) array with partners of the same precision or float64, used through 1-2 indexed reads (repeated
    rows, negative-step slices, masks) and 1-3 dense terms in a drawn order.  The accumulated gradient equals the float64 sum of the dense-equivalent
    contributions to the precision of the array's dtype."""
    import autograd
    import autograd.numpy as anp

    vseed = c.seed()
    dt = c.choice(["float32", "float32", "float16"])
    pdt = c.choice(["same", "same", "float64"])
    rows, cols = c.int(2, 5), c.int(1, 3)
    (X64, ) = values.generic(vseed, [(rows, cols)], -1.2, 1.2)[0]
    X = X64.astype(dt)
    wdt = dt if pdt == "same" else "float64"
    kinds = [c.choice(["rows_repeat", "neg_step", "mask", "dense_lin", "dense_sq", "dense_sin", "dense_lin"]) for _ in range(c.int(3, 5))]
    ids = onp.array([c.int(0, rows - 1) for _ in range(c.int(1, rows + 1))])
    mask = X64[:, 0] > 0.0
    Wt = [values.direction(vseed, (rows, cols), 150 + k).astype(wdt) for k in range(len(kinds))]
    sample = {"dtype": dt, "partners": pdt, "shape": [rows, cols], "terms": kinds, "ids": ids.tolist(), "vseed": vseed}
    c.features.update(dtype=dt, partners=pdt, seq="".join("s" if k in ("rows_repeat", "neg_step", "mask") else "d" for k in kinds))
    bucket = lambda k: f"C11|lowprec|{dt}|{k}"

    def f(x, ns=anp, W=Wt):
        tot = None
        for k, kd in enumerate(kinds):
            if kd == "rows_repeat":
                t = ns.sum(x[ids] * W[k][ids])
            elif kd == "neg_step":
                t = ns.sum(x[::-1, ::-1] * W[k])
            elif kd == "mask":
                t = ns.sum(x[mask] * W[k][mask])
            elif kd == "dense_lin":
                t = ns.sum(x * W[k])
            elif kd == "dense_sq":
                t = ns.sum(x * x * W[k])
            else:
                t = ns.sum(ns.sin(x) * W[k])
            tot = t if tot is None else tot + t
        return tot

    Xr = X.astype("float64")
    want = onp.zeros((rows, cols))
    for k, kd in enumerate(kinds):
        Wk = Wt[k].astype("float64")
        if kd == "rows_repeat":
            onp.add.at(want, ids, Wk[ids])
        elif kd == "neg_step":
            want += Wk[::-1, ::-1]
        elif kd == "mask":
            want[mask] += Wk[mask]
        elif kd == "dense_lin":
            want += Wk
        elif kd == "dense_sq":
            want += 2 * Xr * Wk
        else:
            want += onp.cos(Xr) * Wk
    try:
        got = onp.asarray(autograd.grad(f)(X))
        got2 = onp.asarray(autograd.make_vjp(f)(X)[0](1.0))
    except Exception as e:
        if not from_autograd(e):
            raise
        return fail("unexpected_exception", describe_exc(e), bucket("exception"), sample=sample)
    eps = {"float32": 2e-5, "float16": 2e-2}[dt] * max(1.0, float(onp.max(onp.abs(want))))
    for tag, gg in (("grad", got), ("make_vjp", got2)):
        if gg.shape != (rows, cols) or not onp.all(onp.abs(gg.astype("float64") - want) <= eps * len(kinds)):
            return fail("wrong_value", f"{tag}: accumulated gradient of a {dt} array differs from the sum of its contributions by {float(onp.max(onp.abs(gg.astype('float64') - want))) if gg.shape == (rows, cols) else 'shape'} (terms {kinds})",
                        bucket("value"), sample=sample)
    nt = any(k in ("rows_repeat", "neg_step", "mask") for k in kinds) and sum(k.startswith("dense") for k in kinds) >= 2
    return ok(nontrivial=nt, key=json.dumps([dt, pdt, rows, cols, kinds, ids.tolist()]), labels=["lowprec", "dtype=" + dt, "partners=" + pdt], sample=sample)


def container_params_body(c):
    """Parameters kept in a dict / list / tuple (2 or 3 arrays of one shape); the loss is a sum, in a drawn order, of 3-6 terms: an entry
    indexed with repeated row ids (sparse contribution), an entry used densely, two entries tied by E + F or E * F inside a nonlinearity
    (one cotangent array reaches both reads).  Every entry's gradient is the sum of its dense-equivalent contributions."""
    import autograd
    import autograd.numpy as anp

    vseed = c.seed()
    kind = c.choice(["dict", "list", "tuple"])
    ne = c.int(2, 3)
    rows, cols = c.int(2, 5), c.int(1, 3)
    arrs, _ = values.generic(vseed, [(rows, cols)] * ne, -1.2, 1.2)
    keys = ["E", "F", "G"][:ne]
    nterms = c.int(3, 6)
    terms = []
    for k in range(nterms):
        tk = c.choice(["indexed", "indexed", "dense_sq", "dense_sin", "tied_add", "tied_add", "tied_mul", "row", "pass"])
        i = c.int(0, ne - 1)
        j = (i + c.int(1, ne - 1)) % ne
        ids = [c.int(0, rows - 1) for _ in range(c.int(1, rows + 1))]
        terms.append((tk, i, j, ids))
    sample = {"kind": kind, "ne": ne, "shape": [rows, cols], "terms": [(t[0], t[1], t[2], t[3]) for t in terms], "vseed": vseed}
    c.features.update(kind=kind, n_terms=nterms, first=terms[0][0], kinds=sorted({t[0] for t in terms}))
    bucket = lambda k: f"C11|container_params|{kind}|{k}"
    Wt = [values.direction(vseed, (rows, cols), 120 + k) for k in range(nterms)]

    def entry(p, i):
        return p[keys[i]] if kind == "dict" else p[i]

    def f(p):
        total = 0.0
        for k, (tk, i, j, ids) in enumerate(terms):
            if tk == "indexed":
                sel = entry(p, i)[onp.array(ids)]
                total = total + anp.sum(sel * Wt[k][onp.array(ids) % rows])
            elif tk == "row":
                total = total + anp.sum(entry(p, i)[ids[0]] * Wt[k][0])
            elif tk == "dense_sq":
                total = total + 0.5 * anp.sum(entry(p, i) ** 2)
            elif tk == "dense_sin":
                total = total + anp.sum(anp.sin(entry(p, i)) * Wt[k])
            elif tk == "pass":
                total = total + anp.sum(entry(p, i) + 0.0)
            elif tk == "tied_add":
                total = total + anp.sum(anp.tanh(entry(p, i) + entry(p, j)) * Wt[k])
            else:
                total = total + anp.sum(anp.sin(entry(p, i) * entry(p, j)) * Wt[k])
        return total

    want = [onp.zeros((rows, cols)) for _ in range(ne)]
    for k, (tk, i, j, ids) in enumerate(terms):
        if tk == "indexed":
            onp.add.at(want[i], onp.array(ids), Wt[k][onp.array(ids) % rows])
        elif tk == "row":
            want[i][ids[0]] += Wt[k][0]
        elif tk == "dense_sq":
            want[i] += arrs[i]
        elif tk == "dense_sin":
            want[i] += onp.cos(arrs[i]) * Wt[k]
        elif tk == "pass":
            want[i] += 1.0
        elif tk == "tied_add":
            t = (1 - onp.tanh(arrs[i] + arrs[j]) ** 2) * Wt[k]
            want[i] += t
            want[j] += t
        else:
            t = onp.cos(arrs[i] * arrs[j]) * Wt[k]
            want[i] += t * arrs[j]
            want[j] += t * arrs[i]
    mk = lambda: (dict(zip(keys, [a.copy() for a in arrs])) if kind == "dict" else ([a.copy() for a in arrs] if kind == "list" else tuple(a.copy() for a in arrs)))
    try:
        g = autograd.grad(f)(mk())
        vjp, _y = autograd.make_vjp(f)(mk())
        g2 = vjp(1.0)
        g3 = vjp(1.0)
    except Exception as e:
        if not from_autograd(e):
            raise
        return fail("unexpected_exception", describe_exc(e), bucket("exception"), sample=sample)
    for tag, gg in (("grad", g), ("make_vjp", g2), ("make_vjp, second call", g3)):
        for i in range(ne):
            got = onp.asarray(entry(gg, i))
            if got.shape != (rows, cols) or not onp.allclose(got, want[i], rtol=1e-12, atol=1e-12):
                return fail("wrong_value", f"{tag}: gradient of entry {keys[i]} differs from the sum of its contributions by {float(onp.max(onp.abs(got - want[i]))) if got.shape == (rows, cols) else 'shape'}; "
                            f"terms in order: {[t[0] for t in terms]}", bucket("value"), sample=sample)
    nontrivial = any(t[0] in ("indexed", "row") for t in terms) and any(t[0].startswith("tied") or t[0].startswith("dense") for t in terms)
    return ok(nontrivial=nontrivial, key=json.dumps([kind, ne, rows, cols, [(t[0], t[1], t[2], t[3]) for t in terms]]), labels=["container_params", "kind=" + kind, "first=" + terms[0][0]], sample=sample)


PROP = Prop("C11", [
    Test("index", index_body, quick=4000, thorough=60000, shard_size=400),
    Test("mixing", mixing_body, quick=1500, thorough=20000, shard_size=200),
    Test("reassemble", reassemble_body, quick=2500, thorough=20000, shard_size=250),
    Test("int_cotangent", int_cotangent_body, quick=1500, thorough=10000, shard_size=250),
    Test("container_params", container_params_body, quick=1500, thorough=12000, shard_size=250),
    Test("lowprec", lowprec_body, quick=1500, thorough=10000, shard_size=250),
], RULE, assumptions=[
    "NumPy's own indexing applied to arange(size) identifies the selected positions (the scatter model)",
])
PROP.reach_functions = ['autograd.core:add_outgrads', 'autograd.numpy.numpy_vjps:untake', 'autograd.core:sparse_add']
