"""C03 — chain rule over arbitrary graphs; each recorded operation differentiated exactly once."""
import json
import math

import numpy as onp

from .. import values
from ..case import Outcome, fail, from_autograd, ok, raised
from ..engine import Prop, Test
from ..refs import tape as T

RULE = (
    "Programs: JSON ASTs over named values - ops with sources drawn with replacement (multi-edges, fan-out, diamonds, "
    "dead results), value-steered if / loop / recursion, constants mixed in; operation set = logged user primitives "
    "(arity 1-3, registered through autograd.extend, rules log (call id, argument, g) when CALLED) + built-in scalar "
    "ops; output = weighted sum of 1-3 values. Oracle: reference tape with closed-form partials (reverse sweep = total "
    "cotangent per executed op and liveness; forward sweep = path-sum gradient). Checked: primal, make_vjp gradient, "
    "make_jvp Jacobian, per-rule call count (exactly once iff live and dependent), g seen by each rule == total "
    "cotangent, second vjp call gives the same log. Non-trivial = executed trace has a multi-edge, a fan-out>=2, a dead "
    "op or a value-dependent branch/loop; distinct by canonical executed-trace shape. toposort test: explicit "
    "multigraphs (multi-edges, unreachable nodes): output == ancestors of end, each once, every node after all its "
    "consumers. array_programs: generated array-valued graphs (elementwise, broadcasting, indexing, reductions, constant matrix "
    "products, concatenation, shared pass-through cotangents; fan-out by drawing sources with replacement) against the full "
    "Jacobian of an independent dual-number forward sweep on raw NumPy: J^T g for two cotangents, the same VJP function called "
    "again, and J v in forward mode, tolerance 1e-10 * max|J| * size."
    ' Later additions: array programs also check the derivative of the backward pass at a zero cotangent (make_jvp_reversemode) and forward mode through the backward pass against the dual reference differentiated numerically; statements wherec (a value as the condition of where and as an operand), widx / whole-array index operations, textend (a sequence argument extended by earlier values); programs whose reference run decides a branch or loop count within 1e-7 of its threshold are rejected. kink_graph: piecewise operations evaluated exactly on a kink inside a graph with fan-out (forward- and reverse-mode Jacobians are the same matrix). sliced_layers: layered graphs whose parameters are read through slices of a list / tuple of (W, b) pairs (central differences and the forward-mode pairing).'
)

LOG = []
CUR = [None]
_PRIMS = {}


def prims():
    if _PRIMS:
        return _PRIMS
    from autograd.extend import defjvp, defvjp, primitive

    for name, (ar, f, partials) in T.LOGGED.items():
        def mk(name, f, partials):
            p = primitive(lambda *a: f(*[float(x) for x in a]))
            p.__name__ = "logged_" + name

            def maker(i):
                def vjpmaker(ans, *args):
                    cid = CUR[0]
                    vals = [float(a) for a in args]
                    LOG.append((cid, "make", i))

                    def vjp(g):
                        LOG.append((cid, "vjp", i, float(g)))
                        return g * partials[i](*vals)

                    return vjp

                return vjpmaker

            defvjp(p, *[maker(i) for i in range(len(partials))])
            defjvp(p, *[(lambda i: (lambda g, ans, *args: g * partials[i](*[float(a) for a in args])))(i)
                        for i in range(len(partials))])
            return p

        _PRIMS[name] = mk(name, f, partials)
    return _PRIMS


# ---------------------------------------------------------------------------------------------
# program generation


def gen_program(c, max_ops):
    n_in = c.int(1, 3)
    n_ops = c.int(1, max_ops)
    form = c.choice(["array", "tuple", "seq_tuple", "seq_list"])  # seq_*: ONE argument that is a tuple / list of the inputs
    stmts = []
    nvals = n_in

    def src():
        # earlier value, input or constant (negative = constant), chosen with replacement
        k = c.int(0, nvals + 1)
        return k if k < nvals else -(k - nvals + 1)

    def opcall():
        if c.chance(2, 3):
            name = c.choice(sorted(T.LOGGED))
            ar = T.LOGGED[name][0]
        else:
            name = c.choice(sorted(T.BUILTIN))
            ar = T.BUILTIN[name][0]
        return [name, [src() for _ in range(ar)]]

    for _ in range(n_ops):
        k = c.int(0, 12)
        if k == 11 and form.startswith("seq") and c.chance(1, 3):
            # the argument container (or a slice of it) EXTENDED by two earlier values - `t + (u, v)` or `(u, v) + t` - and some entries of
            # the longer sequence used: one operation with the container and two further traced operands
            lo = c.int(0, n_in - 1)
            hi = c.int(lo + 1, n_in)
            u_, v_ = src(), src()
            left = c.bool()
            picks = [c.int(0, hi - lo + 1) for _ in range(c.int(1, 4))]
            stmts.append(["textend", lo, hi, u_, v_, left, picks, [c.choice([1.0, -0.5, 2.0, 0.25]) for _ in picks], c.bool()])
            nvals += 1
            continue
        if k == 11 and form.startswith("seq"):
            # the argument container is consumed through a slice (whose elements are then used) AND directly through an element, in either
            # order of creation: two consumers of one container value whose cotangents meet in the container's accumulator
            lo = c.int(0, n_in - 1)
            hi = c.int(lo + 1, n_in)
            idxs = [c.int(0, hi - lo - 1) for _ in range(c.int(1, 3))]
            stmts.append(["tslice", lo, hi, idxs, [c.choice([1.0, -0.5, 2.0, 0.25]) for _ in idxs], c.int(0, n_in - 1), c.choice([1.5, -2.0, 0.75]), c.bool()])
            nvals += 1
            continue
        if k == 11:
            if form != "array":
                continue
            # one indexing operation that consumes input elements several times (repeated positions in an index list)
            idxs = [c.int(0, n_in - 1) for _ in range(c.int(2, 4))]
            stmts.append(["gather", idxs, [c.choice([1.0, -0.5, 2.0, 0.25]) for _ in idxs], c.choice(["tuple_list", "list", "two_lists"])])
            nvals += 1
            continue
        if k == 12:
            # a checkpointed sub-program whose keyword arguments steer a loop count and a branch
            stmts.append(["ckpt", c.choice(["add", "mul", "div", "sub"]), [src(), src()], c.int(1, 3), c.bool()])
            nvals += 1
            continue
        if k == 10:
            # an inner differentiation whose function closes over outer values; on one branch its result depends on the outer
            # values only (so the inner derivative is exactly zero and must not pick up the outer dependence)
            stmts.append(["closure", c.choice(["r", "f"]), src(), src(), src(), c.choice([0.5, 0.9, 1.3]), c.chance(1, 3)])
            nvals += 1
            continue
        if k <= 6:
            stmts.append(["op"] + opcall())
        elif k == 7:
            s = c.int(0, nvals - 1)
            thr = c.choice([0.0, 0.5, 0.9, 1.3])
            stmts.append(["if", s, thr, opcall(), opcall()])
        elif k == 8:
            stmts.append(["loop", c.int(0, nvals - 1)] + opcall())
        else:
            stmts.append(["rec", c.int(0, nvals - 1)] + opcall())
        nvals += 1
    n_out = c.int(1, 3)
    outs = []
    for _ in range(n_out):
        # bias towards late values so that most of the program is live
        idx = nvals - 1 - c.int(0, min(nvals - 1, 3)) if c.chance(3, 4) else c.int(0, nvals - 1)
        outs.append([idx, c.choice([1.0, -0.7, 2.0, 0.5])])
    return {"n_in": n_in, "stmts": stmts, "out": outs, "consts": [0.8, 1.25], "form": form}


def interpret(prog, inputs, be):
    """Run the program with backend `be` (autograd or reference).  Logged calls get sequential call ids."""
    vals = list(inputs)
    consts = prog["consts"]
    counter = [0]
    trace = []

    def arg(s):
        return vals[s] if s >= 0 else consts[-s - 1]

    def call(name, srcs, args=None):
        args = [arg(s) for s in srcs] if args is None else args
        cid = None
        if name in T.LOGGED:
            cid = counter[0]
            counter[0] += 1
        trace.append((name, tuple(srcs)))
        return be.apply(name, args, cid)

    for st in prog["stmts"]:
        kind = st[0]
        if kind == "op":
            vals.append(call(st[1], st[2]))
        elif kind == "if":
            taken = be.gt(vals[st[1]], st[2])
            trace.append(("if", st[1], bool(taken)))
            name, srcs = st[3] if taken else st[4]
            vals.append(call(name, srcs))
        elif kind == "tslice":
            trace.append(("tslice",) + tuple(map(str, st[1:])))
            vals.append(be.tslice(*st[1:]))
        elif kind == "textend":
            trace.append(("textend",) + tuple(map(str, st[1:])))
            vals.append(be.textend(st[1], st[2], arg(st[3]), arg(st[4]), *st[5:]))
        elif kind == "gather":
            trace.append(("gather", tuple(st[1]), st[3]))
            vals.append(be.gather(st[1], st[2], st[3]))
        elif kind == "ckpt":
            trace.append(("ckpt", st[1], tuple(st[2]), st[3], st[4]))
            vals.append(be.ckpt(st[1], arg(st[2][0]), arg(st[2][1]), st[3], st[4]))
        elif kind == "closure":
            _, mode, a_s, p_s, b_s, thr, after_failure = st
            r, taken = be.closure(mode, arg(a_s), arg(p_s), arg(b_s), thr, after_failure)
            trace.append(("closure", mode, a_s, p_s, b_s, taken))
            vals.append(r)
        elif kind == "loop":
            n = be.count(vals[st[1]])
            trace.append(("loop", st[1], n))
            name, srcs = st[2], st[3]
            acc = arg(srcs[0])
            for _ in range(n):
                acc = call(name, srcs, [acc] + [arg(s) for s in srcs[1:]])
            vals.append(acc)
        else:  # recursion of value-dependent depth: r(d) = op(r(d-1), rest...), r(0) = first source
            n = be.count(vals[st[1]])
            trace.append(("rec", st[1], n))
            name, srcs = st[2], st[3]

            def r(d):
                if d == 0:
                    return arg(srcs[0])
                return call(name, srcs, [r(d - 1)] + [arg(s) for s in srcs[1:]])

            vals.append(r(n))
    out = None
    for idx, w in prog["out"]:
        term = be.scale(vals[idx], w)
        out = term if out is None else be.add(out, term)
    return out, trace


class AGBackend:
    def __init__(self):
        import autograd.numpy as anp

        self.np = anp
        self.P = prims()

    def apply(self, name, args, cid):
        anp = self.np
        if cid is not None:
            CUR[0] = cid
            return self.P[name](*args)
        if name == "add":
            return args[0] + args[1]
        if name == "sub":
            return args[0] - args[1]
        if name == "mul":
            return args[0] * args[1]
        if name == "div":
            return args[0] / (args[1] * args[1] + 1.0)
        if name == "sin":
            return anp.sin(args[0])
        if name == "exp":
            return anp.exp(0.3 * args[0])
        if name == "tanh":
            return anp.tanh(args[0])
        if name == "sq":
            return args[0] * args[0]  # the same floating-point operation as the reference (pow(x, 2) may round differently)
        raise KeyError(name)

    def gt(self, v, thr):
        return bool(v > thr)

    def gather(self, idxs, coefs, style):
        anp = self.np
        x = self.x
        if style == "tuple_list":
            sel = x[None, :][:, idxs]
        elif style == "list":
            sel = x[idxs]
        else:
            sel = anp.reshape(x, (1, -1))[[0] * len(idxs), idxs]
        return anp.sum(anp.ravel(sel) * onp.array(coefs))

    def tslice(self, lo, hi, idxs, coefs, j, cj, slice_first):
        t = self.x
        if slice_first:
            sl = t[lo:hi]
            e = t[j]
        else:
            e = t[j]
            sl = t[lo:hi]
        acc = cj * e
        for i, cf in zip(idxs, coefs):
            acc = acc + cf * sl[i]
        return acc

    def textend(self, lo, hi, u, v, left, picks, coefs, whole):
        t = self.x if whole else self.x[lo:hi]
        n_t = len(t)
        extra = (u, v) if isinstance(self.x, tuple) or type(self.x).__name__ == "SequenceBox" and isinstance(self.x._value, tuple) else [u, v]
        ext = (extra + t) if left else (t + extra)
        acc = 0.0
        for i, cf in zip(picks, coefs):
            acc = acc + cf * ext[i % (n_t + 2)]
        return acc

    def ckpt(self, name, a, b, steps, residual):
        import autograd

        def fn(u, w, steps=1, residual=False):
            acc = u
            for _ in range(steps):
                acc = self.apply(name, [acc, w], None)
            return acc + u if residual else acc

        kw = {}
        if steps != 1:
            kw["steps"] = steps
        if residual:
            kw["residual"] = True
        return autograd.checkpoint(fn)(a, b, **kw)

    def closure(self, mode, a, p, b, thr, after_failure=False):
        import warnings

        import autograd

        taken = []
        if after_failure:
            # exception-driven control flow: an inner differentiation that raises part-way (steered by the traced value) and is
            # caught here, inside the enclosing differentiation, before the one whose result is used
            class Stop(Exception):
                pass

            def failing(y):
                z = a * y + b
                if z == z:
                    raise Stop()
                return z

            try:
                autograd.grad(failing)(p) if mode == "r" else autograd.make_jvp(failing)(p)(1.0)
            except Stop:
                pass

        def inner(y):
            if y > thr:
                taken.append(True)
                return a * y * y + b * y
            taken.append(False)
            return a * b + 0.0

        with warnings.catch_warnings():
            warnings.simplefilter("ignore")
            r = autograd.grad(inner)(p) if mode == "r" else autograd.make_jvp(inner)(p)(1.0)[1]
        return r, taken[0]

    def count(self, v):
        return int(self.np.floor(abs(v) * 2.0)) % 3 + 1

    def scale(self, v, w):
        return v * w

    def add(self, a, b):
        return a + b


class RefBackend:
    def __init__(self):
        self.tape = T.Tape()
        self.calls = {}  # call id -> tape entry id

    def apply(self, name, args, cid):
        ar, f, partials = (T.LOGGED if cid is not None else T.BUILTIN)[name]
        xs = [T.val(a) for a in args]
        out = self.tape.apply((name, cid), f(*xs), [(a, p(*xs)) for a, p in zip(args, partials)])
        if cid is not None:
            self.calls[cid] = (out.id, [a.id if isinstance(a, T.RV) else None for a in args])
        return out

    def gt(self, v, thr):
        if abs(T.val(v) - thr) <= 1e-7 * max(1.0, abs(thr)):
            raise Borderline()
        return T.val(v) > thr

    def gather(self, idxs, coefs, style):
        value = sum(cf * T.val(self.inputs[i]) for i, cf in zip(idxs, coefs))
        return self.tape.apply(("gather", None), value, [(self.inputs[i], cf) for i, cf in zip(idxs, coefs)])

    def textend(self, lo, hi, u, v, left, picks, coefs, whole):
        base = list(self.inputs) if whole else list(self.inputs[lo:hi])
        ext = ([u, v] + base) if left else (base + [u, v])
        terms = [(ext[i % len(ext)], cf) for i, cf in zip(picks, coefs)]
        # the extended sequence is ONE value built from all of its operands: entries that are not read afterwards still are operands of
        # the operation the output depends on (their producers are reached by the backward pass, with a zero cotangent)
        terms += [(u, 0.0), (v, 0.0)] + [(b_, 0.0) for b_ in base]
        return self.tape.apply(("textend", None), sum(cf * T.val(a) for a, cf in terms), terms)

    def tslice(self, lo, hi, idxs, coefs, j, cj, slice_first):
        terms = [(self.inputs[j], cj)] + [(self.inputs[lo + i], cf) for i, cf in zip(idxs, coefs)]
        return self.tape.apply(("tslice", None), sum(cf * T.val(a) for a, cf in terms), terms)

    def ckpt(self, name, a, b, steps, residual):
        acc = a
        for _ in range(steps):
            acc = self.apply(name, [acc, b], None)
        return self.add(acc, a) if residual else acc

    def closure(self, mode, a, p, b, thr, after_failure=False):
        av, pv = T.val(a), T.val(p)
        if abs(pv - thr) <= 1e-7 * max(1.0, abs(thr)):
            raise Borderline()
        if pv > thr:  # d/dy [a y^2 + b y] at y = p  =  2 a p + b
            return self.tape.apply(("closure", None), 2.0 * av * pv + T.val(b), [(a, 2.0 * pv), (p, 2.0 * av), (b, 1.0)]), True
        return 0.0, False  # d/dy [a b] = 0 exactly, a constant for every enclosing level

    def count(self, v):
        t = abs(T.val(v)) * 2.0
        if abs(t - round(t)) <= 1e-7 * max(1.0, t):
            raise Borderline()
        return int(math.floor(t)) % 3 + 1

    def scale(self, v, w):
        return self.tape.apply(("scale", None), T.val(v) * w, [(v, w)])

    def add(self, a, b):
        return self.tape.apply(("add", None), T.val(a) + T.val(b), [(a, 1.0), (b, 1.0)])


class Borderline(Exception):
    """The reference run decided a branch or a loop count within rounding error of the threshold: autograd's (differently associated)
    arithmetic may legitimately decide the other way, after which the two runs are different programs."""


def close(a, b, rel=1e-10):
    return abs(a - b) <= rel * max(1.0, abs(a), abs(b))


MISSING = ("VJP of", "JVP of")


def _is_missing_rule(e):
    return isinstance(e, NotImplementedError) and any(m in str(e) for m in MISSING) and "not defined" in str(e)


def body(max_ops, c):
    import autograd

    prog = gen_program(c, max_ops)
    vseed = c.seed()
    xs = [float(v) for v in values.generic(vseed, [(prog["n_in"],)], 0.3, 1.6)[0][0]]
    sample = {"program": prog, "inputs": xs}
    # ---- reference ---------------------------------------------------------------------------
    rb = RefBackend()
    rin = [rb.tape.new_input(v) for v in xs]
    rb.inputs = rin
    try:
        rout, rtrace = interpret(prog, rin, rb)
    except Borderline:
        return Outcome("numpy_rejects", detail="control flow decided within rounding error of its threshold", sample=sample)
    except (OverflowError, ValueError, ZeroDivisionError):
        # the reference itself left the floats (inf / nan after values blew up in a loop): not a usable program
        return Outcome("numpy_rejects", detail="reference overflow (values blow up in a loop)", sample=sample)
    if not isinstance(rout, T.RV) or rout.id is None:
        return Outcome("numpy_rejects", detail="constant output", sample=sample)
    adj, live, dep = rb.tape.reverse(rout.id)
    if not dep[rout.id]:
        return Outcome("numpy_rejects", detail="output independent of the inputs", sample=sample)
    if not all(math.isfinite(e[2]) for e in rb.tape.entries):
        return Outcome("numpy_rejects", detail="non-finite", sample=sample)
    fgrads = rb.tape.forward([r.id for r in rin])
    gref = [adj[r.id] for r in rin]
    gscale = max([abs(a) for a in adj] + [1.0])  # tolerances are relative to the largest total cotangent in the graph
    if gscale > 1e4:
        # ill-conditioned program (some intermediate value moves the output by a factor > 1e4): a 1-ulp difference in how a sum is
        # associated is amplified beyond any fixed tolerance, in the primal value already; such programs decide nothing
        return Outcome("numpy_rejects", detail="ill-conditioned program (largest total cotangent > 1e4)", sample=sample)
    cond = sum(abs(a) * abs(e[2]) for a, e in zip(adj, rb.tape.entries))  # first-order rounding-error amplification of the primal

    def gclose(a, b, k=1.0):
        return abs(a - b) <= 1e-10 * gscale * abs(k) or close(a, b)
    if not all(close(a, b) for a, b in zip(gref, fgrads[rout.id])):
        raise AssertionError("reference sweeps disagree")
    # features of the executed trace
    uses = {}
    for tag, ps, _ in rb.tape.entries:
        for pid, _ in ps:
            if pid is not None:
                uses[pid] = uses.get(pid, 0) + 1
    multi = any(len({p for p, _ in ps if p is not None}) < len([p for p, _ in ps if p is not None]) for _, ps, _ in rb.tape.entries)
    fan = any(n >= 2 and live[i] for i, n in uses.items())
    dead = any(dep[i] and not live[i] for i in range(len(live)))
    ctrl = any(t[0] in ("if", "loop", "rec", "closure", "gather", "ckpt", "tslice", "textend") for t in rtrace)
    labels = [l for l, on in (("multi_edge", multi), ("fan_out", fan), ("dead_op", dead), ("control_flow", ctrl)) if on]
    labels.append("form=" + prog["form"])
    nontrivial = bool(multi or fan or dead or ctrl)
    c.features.update(multi_edge=multi, fan_out=fan, dead=dead, control=ctrl, form=prog["form"])
    key = json.dumps([rtrace, prog["out"], prog["form"]])
    bucket = "C03|program|"

    # ---- autograd -----------------------------------------------------------------------------
    ab = AGBackend()
    n_in = prog["n_in"]

    if prog["form"] == "array":
        def f(x):
            ab.x = x
            return interpret(prog, [x[i] for i in range(n_in)], ab)[0]
        x0 = onp.array(xs)
        mk_vjp = lambda: autograd.make_vjp(f)(x0)
        mk_jvp = lambda v: autograd.make_jvp(f)(x0)(v)
        basis = [onp.eye(n_in)[i] for i in range(n_in)]
        unpack = lambda g: [float(t) for t in onp.asarray(g)]
    elif prog["form"].startswith("seq"):
        def f(t):
            ab.x = t
            return interpret(prog, [t[i] for i in range(n_in)], ab)[0]
        x0 = tuple(xs) if prog["form"] == "seq_tuple" else list(xs)
        mk_vjp = lambda: autograd.make_vjp(f)(x0)
        mk_jvp = lambda v: autograd.make_jvp(f)(x0)(type(x0)(v))
        basis = [tuple(1.0 if j == i else 0.0 for j in range(n_in)) for i in range(n_in)]
        unpack = lambda g: [float(t) for t in g]
    else:
        def f(*a):
            return interpret(prog, list(a), ab)[0]
        argnum = tuple(range(n_in))
        mk_vjp = lambda: autograd.make_vjp(f, argnum)(*xs)
        mk_jvp = lambda v: autograd.make_jvp(f, argnum)(*xs)(v)
        basis = [tuple(1.0 if j == i else 0.0 for j in range(n_in)) for i in range(n_in)]
        unpack = lambda g: [float(t) for t in g]

    def unexpected(e, where):
        if _is_missing_rule(e):
            return raised(e, where, sample=sample, labels=labels)
        return fail("unexpected_exception", f"{where}: {type(e).__name__}: {e}"[:300], bucket + "unexpected_exception", sample=sample)

    del LOG[:]
    try:
        vjp, y = mk_vjp()
    except Exception as e:
        return unexpected(e, "trace")
    from autograd.tracer import isbox

    if isbox(y):
        return fail("tracer_leak", "make_vjp returned a boxed primal value", bucket + "tracer_leak", sample=sample)
    try:
        float(y)
    except Exception as e:
        return fail("wrong_kind", f"primal value is {type(y).__name__}: {e}", bucket + "wrong_kind", sample=sample)
    if not (close(float(y), rout.v, 1e-12) or abs(float(y) - rout.v) <= 1e-13 * cond):
        return fail("primal_mismatch", f"primal {float(y)!r} vs reference {rout.v!r}", bucket + "primal_mismatch", sample=sample)
    del LOG[:]
    logs = []
    for seed_g in (1.0, 1.0, -0.5):
        del LOG[:]
        try:
            g = vjp(seed_g)
        except Exception as e:
            return unexpected(e, "backward")
        try:
            gl = unpack(g)
        except Exception as e:
            return fail("wrong_kind", f"gradient is {type(g).__name__}: {e}", bucket + "wrong_kind", sample=sample)
        if len(gl) != n_in or not all(gclose(a, seed_g * b, seed_g) for a, b in zip(gl, gref)):
            return fail("wrong_value", f"vjp({seed_g}) = {gl} but reference {[seed_g * b for b in gref]}", bucket + "wrong_value", sample=sample)
        calls = [e for e in LOG if e[1] == "vjp"]
        cnt = {}
        for e in calls:
            cnt[(e[0], e[2])] = cnt.get((e[0], e[2]), 0) + 1
        for cid, (eid, arg_ids) in rb.calls.items():
            for i, aid in enumerate(arg_ids):
                expected = 1 if (live[eid] and aid is not None and dep[aid]) else 0
                got = cnt.get((cid, i), 0)
                if got != expected:
                    kind = "rule_count"
                    what = "dead/independent operation was differentiated" if expected == 0 else f"rule called {got} times"
                    return fail(kind, f"call {cid} arg {i}: {what} (expected {expected})", bucket + kind, sample=sample)
        for e in calls:
            eid = rb.calls[e[0]][0]
            if not gclose(e[3], seed_g * adj[eid], seed_g):
                return fail("rule_order", f"rule of call {e[0]} saw cotangent {e[3]!r}, total is {seed_g * adj[eid]!r} "
                                          "(called before all consumers contributed, or contributions lost)", bucket + "rule_order", sample=sample)
        logs.append(sorted((e[0], e[2], round(e[3] / seed_g, 12)) for e in calls))
    if logs[0] != logs[1]:
        return fail("history_dependence", "second call of the same VJP function logged different rule applications",
                    bucket + "history_dependence", sample=sample)
    # ---- forward mode ----------------------------------------------------------------------------
    J = None
    try:
        J = [float(mk_jvp(b)[1]) for b in basis]
    except Exception as e:
        if not _is_missing_rule(e):
            return unexpected(e, "forward")
        labels.append("fwd_missing_rule")  # e.g. checkpoint has no JVP: loud, and the reverse-mode verdicts above stand
    if J is not None and not all(gclose(a, b) for a, b in zip(J, gref)):
        return fail("wrong_value", f"forward-mode Jacobian {J} but reference {gref}", bucket + "fwd_wrong_value", sample=sample)
    return ok(nontrivial=nontrivial, key=key, labels=labels, sample=sample)


# ---------------------------------------------------------------------------------------------
# toposort in isolation


def toposort_body(c):
    from autograd.util import toposort

    n = c.int(1, 30)
    parents = {}
    for i in range(n):
        if i == n - 1:
            parents[i] = []
            continue
        k = c.int(0, 3)
        parents[i] = [c.int(i + 1, n - 1) for _ in range(k)]  # with replacement: multi-edges
    sample = {"parents": {str(k): v for k, v in parents.items()}}
    reach = set()
    stack = [0]
    while stack:
        u = stack.pop()
        if u in reach:
            continue
        reach.add(u)
        stack.extend(parents[u])
    multi = any(len(set(parents[u])) < len(parents[u]) for u in reach)
    unreachable = len(reach) < n
    indeg = {}
    for u in reach:
        for p in parents[u]:
            indeg[p] = indeg.get(p, 0) + 1
    diamond = any(v >= 2 for v in indeg.values())
    labels = [l for l, on in (("multi_edge", multi), ("unreachable", unreachable), ("shared_parent", diamond)) if on]
    try:
        order = list(toposort(0, lambda u: parents[u]))
    except Exception as e:
        return fail("unexpected_exception", f"toposort raised {type(e).__name__}: {e}", "C03|toposort|unexpected_exception", sample=sample)
    pos = {}
    for i, u in enumerate(order):
        if u in pos:
            return fail("rule_count", f"node {u} emitted twice", "C03|toposort|duplicate", sample=sample)
        pos[u] = i
    if set(order) != reach:
        return fail("rule_count", f"emitted {sorted(set(order))} but ancestors are {sorted(reach)}", "C03|toposort|wrong_set", sample=sample)
    for u in reach:
        for p in parents[u]:
            if not pos[u] < pos[p]:
                return fail("rule_order", f"node {p} emitted before its consumer {u}", "C03|toposort|order", sample=sample)
    return ok(nontrivial=bool(multi or diamond or unreachable), key=json.dumps(sorted((k, sorted(v)) for k, v in parents.items())),
              labels=labels, sample=sample)


def array_body(c):
    """Array-valued graphs (vh/progs.py): the full Jacobian from the dual-number reference sweep against make_vjp (J^T g for two
    cotangents, the VJP function called again) and make_jvp (J v)."""
    import autograd
    import autograd.numpy as anp

    from .. import progs
    from ..case import describe_exc, from_autograd
    from ..refs import dual

    prog = progs.gen(c, max_ops=c.int(3, 14))
    vseed = c.seed()
    x0 = progs.input_value(prog, vseed)
    sample = {"program": prog, "vseed": vseed}
    bucket = lambda k: f"C03|array_program|{k}"
    y_ref, J = dual.jacobian(progs.run, prog, x0)
    if not (onp.all(onp.isfinite(y_ref)) and onp.all(onp.isfinite(J))):
        return Outcome("numpy_rejects", detail="non-finite reference", sample=sample)
    scale = max(1.0, float(onp.max(onp.abs(J), initial=0.0)))
    if scale > 1e6:
        return Outcome("inconclusive", detail="ill-scaled program", sample=sample)
    f = lambda x: progs.run(prog, x, anp)
    g1 = values.direction(vseed, y_ref.shape, 31)
    g2 = values.direction(vseed, y_ref.shape, 32)
    v = values.direction(vseed, x0.shape, 33)
    try:
        vjp, y = autograd.make_vjp(f)(x0)
        r1 = onp.asarray(vjp(g1))
        r2 = onp.asarray(vjp(g2))
        r1b = onp.asarray(vjp(g1))
        yj, t = autograd.make_jvp(f)(x0)(v)
    except Exception as e:
        if not from_autograd(e):
            raise
        return fail("unexpected_exception", describe_exc(e), bucket("exception"), sample=sample)
    if onp.shape(y) != y_ref.shape or not onp.allclose(y, y_ref, rtol=1e-12, atol=1e-12):
        return fail("wrong_value", "primal differs from the reference sweep", bucket("primal"), sample=sample)
    tol = 1e-10 * scale * max(1.0, x0.size)
    for name, got, g in (("first", r1, g1), ("second", r2, g2), ("first again", r1b, g1)):
        want = (J.T @ g.ravel()).reshape(x0.shape)
        if got.shape != want.shape or not float(onp.max(onp.abs(got - want), initial=0.0)) <= tol:
            return fail("wrong_value", f"reverse mode ({name} cotangent): J^T g = {want.tolist()} but make_vjp gives {got.tolist()}",
                        bucket("reverse"), sample=sample)
    want_t = (J @ v.ravel()).reshape(y_ref.shape)
    t = onp.asarray(t)
    if t.shape != want_t.shape or not float(onp.max(onp.abs(t - want_t), initial=0.0)) <= tol:
        return fail("wrong_value", f"forward mode: J v = {want_t.tolist()} but make_jvp gives {t.tolist()}", bucket("forward"), sample=sample)
    # the backward program is itself a composition of the same operations: differentiating it with respect to its cotangent AT THE ZERO
    # COTANGENT (make_jvp_reversemode) must give J v again - every recorded operation's rule is linear in the cotangent it receives
    try:
        t_rr = onp.asarray(autograd.differential_operators.make_jvp_reversemode(f)(x0)(v))
    except Exception as e:
        if not from_autograd(e):
            raise
        return fail("unexpected_exception", "make_jvp_reversemode: " + describe_exc(e), bucket("exception_rr"), sample=sample)
    if t_rr.shape != want_t.shape or not float(onp.max(onp.abs(t_rr - want_t), initial=0.0)) <= tol:
        return fail("wrong_value", f"derivative of the backward pass at a zero cotangent: J v = {want_t.tolist()} but make_jvp_reversemode gives {t_rr.tolist()}",
                    bucket("reverse_of_reverse"), sample=sample)
    # forward mode THROUGH the backward pass of the same graph (the accumulation of contributions - dense, sparse, shared cotangent objects
    # - is then itself traced): d/dt [J(x + t v)^T g1] from the reference sweep at two pairs of perturbed points
    def ref_grad(xp):
        return (dual.jacobian(progs.run, prog, xp)[1].T @ g1.ravel()).reshape(x0.shape)

    d1 = (ref_grad(x0 + 1e-5 * v) - ref_grad(x0 - 1e-5 * v)) / 2e-5
    d2 = (ref_grad(x0 + 2e-5 * v) - ref_grad(x0 - 2e-5 * v)) / 4e-5
    hv_ref = (4 * d1 - d2) / 3
    hscale = max(1.0, scale, float(onp.max(onp.abs(hv_ref), initial=0.0)))
    if onp.all(onp.isfinite(hv_ref)) and float(onp.max(onp.abs(d1 - d2), initial=0.0)) <= 1e-6 * hscale:
        try:
            hv = onp.asarray(autograd.make_jvp(autograd.grad(lambda x: anp.sum(f(x) * g1)))(x0)(v)[1])
        except Exception as e:
            if not from_autograd(e):
                raise
            return fail("unexpected_exception", "forward over reverse: " + describe_exc(e), bucket("exception_fr"), sample=sample)
        if hv.shape == hv_ref.shape and not onp.all(onp.isfinite(hv)):
            # saturated intermediate values (tanh / exp of a huge argument): the closed forms of second derivatives overflow to nan there;
            # finiteness of higher derivatives at extreme magnitudes is C07's subject, not the accumulation order checked here
            return Outcome("inconclusive", detail="non-finite second-order result at a saturated point", sample=sample)
        if hv.shape != hv_ref.shape or not float(onp.max(onp.abs(hv - hv_ref), initial=0.0)) <= 1e-6 * hscale * max(1.0, x0.size):
            return fail("wrong_value", f"forward mode through the backward pass: d/dt J(x+tv)^T g = {hv_ref.tolist()} but make_jvp(grad) gives {hv.tolist()}",
                        bucket("forward_over_reverse"), sample=sample)
    uses = {}
    for st in prog["stmts"]:
        for a_ in (st[2:4] if st[0] in ("b", "cat") else [st[2]] if st[0] in ("u", "k") else [st[1]]):
            uses[a_] = uses.get(a_, 0) + 1
    fan = max(uses.values(), default=0)
    kinds = sorted({st[0] for st in prog["stmts"]})
    return ok(nontrivial=fan >= 2 and bool(onp.any(J)), key=json.dumps(prog), labels=[f"fanout>={min(fan, 4)}"] + ["stmt=" + k for k in kinds], sample=sample)


def selftest():
    from ..refs import dual

    dual.selftest()


from functools import partial  # noqa: E402

def sliced_layers_body(c):
    """A layered graph whose parameters sit in a list / tuple of (W, b) pairs (tuples, lists or dicts) and are READ THROUGH SLICES of that container
    (`params[1:]`, `params[:-1]`, two adjacent slices, stepped slices), alone or next to integer reads, in a drawn order.  Every leaf's reverse-mode
    gradient equals central differences of the plain run, and the forward-mode derivative along a drawn direction equals its pairing with that gradient."""
    import autograd
    import autograd.numpy as anp

    vseed = c.seed()
    L = c.int(2, 4)
    width = c.int(1, 3)
    pair_kind = c.choice(["tuple", "list", "dict"])
    outer_kind = c.choice(["list", "tuple"])
    pattern = c.choice(["head_then_tail", "tail_only", "init_then_last", "two_slices", "stepped", "tail_then_head", "all_slice", "neg_slice"])
    cut = c.int(1, L - 1)
    arrs, _ = values.generic(vseed, [(width, width)] * L + [(width,)] * L + [(2, width)], -0.9, 0.9)
    Ws, bs, X = arrs[:L], arrs[L:2 * L], arrs[2 * L]
    mkpair = {"tuple": lambda W, b: (W, b), "list": lambda W, b: [W, b], "dict": lambda W, b: {"W": W, "b": b}}[pair_kind]
    unpair = (lambda p_: (p_["W"], p_["b"])) if pair_kind == "dict" else (lambda p_: (p_[0], p_[1]))
    build = lambda Ws_, bs_: (list if outer_kind == "list" else tuple)(mkpair(W, b) for W, b in zip(Ws_, bs_))
    sample = {"layers": L, "width": width, "pair": pair_kind, "outer": outer_kind, "pattern": pattern, "cut": cut, "vseed": vseed}
    c.features.update(pattern=pattern, pair=pair_kind, outer=outer_kind, layers=L)

    def layer(ns, h, pr):
        W, b = unpair(pr)
        return ns.tanh(ns.dot(h, W) + b)

    def net(params, ns=anp):
        h = X
        if pattern == "head_then_tail":
            h = layer(ns, h, params[0])
            for pr in params[1:]:
                h = layer(ns, h, pr)
        elif pattern == "tail_only":
            for pr in params[1:]:
                h = layer(ns, h, pr)
        elif pattern == "init_then_last":
            for pr in params[:-1]:
                h = layer(ns, h, pr)
            h = layer(ns, h, params[-1])
        elif pattern == "two_slices":
            for pr in params[:cut]:
                h = layer(ns, h, pr)
            for pr in params[cut:]:
                h = layer(ns, h, pr)
        elif pattern == "stepped":
            for pr in params[::2]:
                h = layer(ns, h, pr)
            for pr in params[1::2]:
                h = layer(ns, h, pr)
        elif pattern == "tail_then_head":
            for pr in params[1:]:
                h = layer(ns, h, pr)
            h = layer(ns, h, params[0]) + h
        elif pattern == "all_slice":
            for pr in params[:]:
                h = layer(ns, h, pr)
        else:
            for pr in params[-cut:]:
                h = layer(ns, h, pr)
            for pr in params[:-cut]:
                h = layer(ns, h, pr)
        return ns.sum(h * h)

    p0 = build(Ws, bs)
    try:
        g = autograd.grad(net)(p0)
        dW, db = values.generic(vseed, [(width, width)] * L, -1.0, 1.0, stream=5)[0], values.generic(vseed, [(width,)] * L, -1.0, 1.0, stream=6)[0]
        try:
            tan = float(autograd.make_jvp(net)(p0)(build(dW, db))[1])
        except NotImplementedError:
            tan = None
    except Exception as e:
        if not from_autograd(e):
            raise
        from ..case import describe_exc

        return fail("unexpected_exception", describe_exc(e), f"C03|sliced_layers|{pattern}|exception", sample=sample)
    try:
        gp = [unpair(pr) for pr in g]
        ok_struct = len(gp) == L and all(onp.shape(gw) == (width, width) and onp.shape(gb) == (width,) for gw, gb in gp)
    except Exception:
        ok_struct = False
    if not ok_struct:
        return fail("wrong_structure", f"gradient has another structure than the parameters: {g!r:.200}", f"C03|sliced_layers|{pattern}|structure", sample=sample)
    hh = 1e-6
    for li in range(L):
        for which, arr in (("W", Ws[li]), ("b", bs[li])):
            num = onp.zeros(arr.shape)
            for idx in onp.ndindex(*arr.shape):
                def at(delta):
                    Ws2, bs2 = [w.copy() for w in Ws], [b_.copy() for b_ in bs]
                    (Ws2 if which == "W" else bs2)[li][idx] += delta
                    return float(net(build(Ws2, bs2), onp))
                num[idx] = (at(hh) - at(-hh)) / (2 * hh)
            got = onp.asarray(gp[li][0 if which == "W" else 1])
            if not onp.allclose(got, num, rtol=1e-5, atol=1e-6):
                return fail("wrong_value", f"layer {li} {which}: reverse-mode gradient {got.tolist()} but central differences give {num.tolist()}", f"C03|sliced_layers|{pattern}|value", sample=sample)
    if tan is not None:
        pair = sum(float(onp.sum(onp.asarray(gp[li][0]) * dW[li]) + onp.sum(onp.asarray(gp[li][1]) * db[li])) for li in range(L))
        if abs(tan - pair) > 1e-10 * (1.0 + abs(pair)):
            return fail("modes_differ", f"forward-mode derivative along a direction is {tan!r}, its pairing with the reverse-mode gradient {pair!r}", f"C03|sliced_layers|{pattern}|modes", sample=sample)
    return ok(nontrivial=True, key=json.dumps([L, width, pair_kind, outer_kind, pattern, cut]), labels=["sliced_layers", "pattern=" + pattern, "pair=" + pair_kind], sample=sample)


def kink_graph_body(c):
    """A piecewise operation evaluated exactly ON one of its kinks (C04's kink families: clip bounds, ties under sort / maximum / minimum / max, exact
    zeros) inside a small graph with fan-out: K = piece(t); y = sin(K) * t + K * K.  Each mode picks a one-sided derivative at the kink; the Jacobian
    assembled from forward passes (one per input direction) and the one assembled from reverse passes (one per output) are the same matrix."""
    import autograd
    import autograd.numpy as anp

    from .c04 import kinks_setup

    fam, piece, x, _v, _g, sample = kinks_setup(c)

    def f(t):
        K = piece(t)
        return anp.sin(K) * t + K * K

    n = x.size
    try:
        with onp.errstate(all="ignore"):
            Jr = onp.asarray(autograd.jacobian(f)(x))
            cols = [onp.asarray(autograd.make_jvp(f)(x)(onp.eye(n)[k])[1]) for k in range(n)]
    except Exception as e:
        if not from_autograd(e):
            raise
        return raised(e, "kink_graph", sample=sample)
    Jf = onp.stack(cols, axis=-1)
    if Jf.shape != Jr.shape:
        return fail("wrong_shape", f"forward Jacobian {Jf.shape}, reverse Jacobian {Jr.shape}", f"C03|kink_graph|{fam}|shape", sample=sample)
    if not (onp.all(onp.isfinite(Jf)) and onp.all(onp.isfinite(Jr))):
        if onp.all(onp.isfinite(Jf)) != onp.all(onp.isfinite(Jr)):
            return fail("modes_differ", f"on a kink of {fam}: one mode returns non-finite entries where the other returns finite ones", f"C03|kink_graph|{fam}|nonfinite", sample=sample)
        return Outcome("inconclusive", kind="neither mode defined at the kink", sample=sample)
    if not onp.allclose(Jf, Jr, rtol=1e-12, atol=1e-13):
        return fail("modes_differ", f"on a kink of {fam}: forward-mode and reverse-mode Jacobians differ by {float(onp.max(onp.abs(Jf - Jr))):.3e}", f"C03|kink_graph|{fam}|value", sample=sample)
    c.features.update(family=fam)
    return ok(nontrivial=True, key=json.dumps([fam, sample["n"], sample["kind"], sample["x"]]), labels=["kink_graph", "family=" + fam], sample=sample)


PROP = Prop("C03", [
    Test("programs", partial(body, 12), quick=1500, thorough=20000, shard_size=250),
    Test("programs_large", partial(body, 40), quick=300, thorough=10000, shard_size=250),
    Test("toposort", toposort_body, quick=3000, thorough=100000, shard_size=2500),
    Test("array_programs", array_body, quick=1500, thorough=20000, shard_size=250),
    Test("kink_graph", kink_graph_body, quick=1000, thorough=8000, shard_size=250),
    Test("sliced_layers", sliced_layers_body, quick=600, thorough=5000, shard_size=100),
], RULE, selftest=selftest, assumptions=[
    "reference tape (vh/refs/tape.py, ~100 lines, forward and reverse sweeps cross-checked on every case) is correct",
    "dual-number reference sweep for array programs (vh/refs/dual.py) is correct; it is checked against central differences at start-up",
])
PROP.reach_functions = ['autograd.core:add_outgrads', 'autograd.core:backward_pass', 'autograd.util:toposort', 'autograd.tracer:find_top_boxed_args', 'autograd.tracer:trace', 'autograd.core:make_vjp', 'autograd.core:make_jvp']
