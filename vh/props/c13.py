"""C13 — vector-space operations obey the axioms for every differentiable value type."""
import json

import numpy as onp

from ..case import Outcome, fail, from_autograd, ok
from ..engine import Prop, Test

RULE = (
    "Values of every registered type: python float/complex; np.float16/32/64/longdouble and np.complex64/128/clongdouble scalars; "
    "arrays of those dtypes with rank 0-4 and sides 0-3 (so () and size 0 included); nested tuples/lists/dicts of these (depth <= 3, "
    "empty containers included, dict vectors with different key insertion order); entries are small dyadic rationals so exact "
    "identities can be asserted exactly. Laws: add(zeros,x)==x (exact), commutativity (exact), associativity, mut_add on an owned "
    "copy == add, scalar_mul distributes over vector and scalar addition, inner_prod symmetric / real-bilinear / >0 for x!=0 / ==0 "
    "for zeros, covector involution (exact), standard_basis has exactly `size` members, is orthonormal and complete, all results "
    "lie in the same space, vspace(u)==vspace(w) iff structure/shapes/dtypes agree (pairs equal by construction and differing in "
    "exactly one of those), mut_add(None,x) shares no memory with x and leaves x unchanged. Non-trivial = anything other than a "
    "float64 array of rank 1-2; distinct by the value's type/shape/dtype structure."
    ' Value types include the result objects of numpy.linalg; closure also for scalars typed by NumPy (numpy.float64, 0-d arrays, inner products).'
)

DT = ["float16", "float32", "float64", "longdouble", "complex64", "complex128", "clongdouble"]
SCALAR_T = {"float16": onp.float16, "float32": onp.float32, "float64": onp.float64, "longdouble": onp.longdouble,
            "complex64": onp.complex64, "complex128": onp.complex128, "clongdouble": onp.clongdouble}


def gen_struct(c, depth):
    """A JSON-able structure description."""
    k = c.int(0, 10) if depth > 0 else c.int(0, 5)
    if k == 10:
        # the result objects of numpy.linalg (named tuples since NumPy 2), each of which has a vector space of its own
        return ["linalg_result", c.choice(["eigh", "eig", "qr", "slogdet", "svd"]), c.int(1, 2)]
    if k == 0:
        return ["pyfloat"]
    if k == 1:
        return ["pycomplex"]
    if k == 2:
        return ["npscalar", DT[c.int(0, len(DT) - 1)]]
    if k <= 5:
        r = c.int(0, 4)
        shape = [c.int(0, 3) for _ in range(r)]
        return ["array", DT[c.int(0, len(DT) - 1)], shape]
    n = c.int(0, 3)
    kids = [gen_struct(c, depth - 1) for _ in range(n)]
    return [["tuple", "list", "dict", "dict"][k - 6], kids]


def dyadic(c):
    return c.int(-8, 8) / 4.0


def make(struct, c, key_order=None, scale=1.0):
    t = struct[0]
    if t == "pyfloat":
        return dyadic(c)
    if t == "pycomplex":
        return complex(dyadic(c), dyadic(c))
    if t == "npscalar":
        dt = onp.dtype(struct[1])
        v = complex(dyadic(c), dyadic(c)) if dt.kind == "c" else dyadic(c)
        return SCALAR_T[struct[1]](v)
    if t == "array":
        dt = onp.dtype(struct[1])
        shape = tuple(struct[2])
        n = int(onp.prod(shape)) if shape else 1
        a = onp.array([dyadic(c) for _ in range(n)], dtype=float).reshape(shape)
        if dt.kind == "c":
            a = a + 1j * onp.array([dyadic(c) for _ in range(n)], dtype=float).reshape(shape)
        a = a.astype(dt)
        if struct[1] in ("longdouble", "clongdouble") and scale != 1.0:
            a = a * onp.longdouble(2.0) ** -600  # exact scaling; <x,x> = O(2^-1200) is far below the float64 range
        return a
    if t == "linalg_result":
        kind, n = struct[1], struct[2]
        cls = type(getattr(onp.linalg, kind)(onp.eye(2)))
        shapes = {"eigh": [(n,), (n, n)], "eig": [(n,), (n, n)], "qr": [(n, n), (n, n)], "slogdet": [(), ()], "svd": [(n, n), (n,), (n, n)]}[kind]
        parts = [onp.array([dyadic(c) for _ in range(int(onp.prod(sh)) if sh else 1)], dtype=float).reshape(sh) for sh in shapes]
        return cls(*parts) if cls is not tuple else tuple(parts)
    kids = [make(k, c, scale=scale) for k in struct[1]]
    if t == "tuple":
        return tuple(kids)
    if t == "list":
        return kids
    keys = ["k%d" % i for i in range(len(kids))]
    order = list(range(len(kids)))
    if key_order == "reversed":
        order = order[::-1]
    return {keys[i]: kids[i] for i in order}


def leaves(v):
    if isinstance(v, (tuple, list)):
        return [l for e in v for l in leaves(e)]
    if isinstance(v, dict):
        return [l for k in sorted(v) for l in leaves(v[k])]
    return [v]


def struct_eq(a, b):
    """Same container structure (dict keys as sets), leafwise same shape."""
    if isinstance(a, dict) or isinstance(b, dict):
        return isinstance(a, dict) and isinstance(b, dict) and sorted(a) == sorted(b) and all(struct_eq(a[k], b[k]) for k in a)
    if isinstance(a, (tuple, list)) or isinstance(b, (tuple, list)):
        return type(a) is type(b) and len(a) == len(b) and all(struct_eq(x, y) for x, y in zip(a, b))
    return onp.shape(a) == onp.shape(b)


def eq(a, b, tol=0.0):
    if not struct_eq(a, b):
        return False
    for x, y in zip(leaves(a), leaves(b)):
        xa, ya = onp.asarray(x).astype(onp.clongdouble), onp.asarray(y).astype(onp.clongdouble)
        if tol == 0.0:
            if not onp.array_equal(xa, ya):
                return False
        else:
            if not onp.all(onp.abs(xa - ya) <= tol * (1.0 + onp.abs(ya))):
                return False
    return True


def eps_of(v):
    e = 0.0
    for l in leaves(v):
        dt = onp.asarray(l).dtype
        e = max(e, float(onp.finfo(dt).eps) if dt.kind in "fc" else 0.0)
    return e or float(onp.finfo(float).eps)


def shares(a, b):
    for x, y in zip(leaves(a), leaves(b)):
        if isinstance(x, onp.ndarray) and isinstance(y, onp.ndarray) and x.size and onp.shares_memory(x, y):
            return True
    return False


def body(c):
    from autograd.core import vspace

    struct = gen_struct(c, c.int(0, 3))
    tiny = 2.0 if c.chance(1, 3) else 1.0  # extended-precision leaves scaled by 2^-600 (other leaves unaffected)
    x, y, z = make(struct, c, scale=tiny), make(struct, c, key_order="reversed" if c.bool() else None, scale=tiny), make(struct, c, scale=tiny)
    a, b = c.choice([0.5, -1.5, 2.0, 0.25]), c.choice([1.5, -0.5, 4.0])
    sample = {"struct": struct, "x": repr(x)[:200]}
    c.features.update(struct=json.dumps(struct), dtypes=sorted({str(onp.asarray(l).dtype) for l in leaves(x)}), n_leaves=len(leaves(x)))
    bucket = lambda k: f"C13|axioms|{k}"
    probs = []
    try:
        vs = vspace(x)
        size = int(sum(onp.asarray(l).size * (2 if onp.asarray(l).dtype.kind == "c" else 1) for l in leaves(x)))
        tol = 64 * eps_of(x) * (size + 1)
        x_before = repr(x)
        if not (vspace(y) == vs and vs == vspace(y)):
            probs.append(("space_eq", "same structure/shape/dtype but different spaces (e.g. dict key order)"))
        if not eq(vs.add(vs.zeros(), x), x):
            probs.append(("zero_identity", "add(zeros, x) != x"))
        if not eq(vs.add(x, y), vs.add(y, x)):
            probs.append(("commutative", "add(x,y) != add(y,x)"))
        if not eq(vs.add(vs.add(x, y), z), vs.add(x, vs.add(y, z)), tol):
            probs.append(("associative", "add not associative"))
        own = vs.mut_add(None, x)
        if shares(own, x):
            probs.append(("mut_add_alias", "mut_add(None, x) shares memory with x"))
        if not eq(own, x):
            probs.append(("mut_add_value", "mut_add(None, x) != x"))
        own2 = vs.mut_add(own, y)
        if not eq(own2, vs.add(x, y), tol):
            probs.append(("mut_add_add", "mut_add on an owned copy != add"))
        if repr(x) != x_before:
            probs.append(("input_mutated", "x changed"))
        if not eq(vs.scalar_mul(vs.add(x, y), a), vs.add(vs.scalar_mul(x, a), vs.scalar_mul(y, a)), tol):
            probs.append(("distributive_vec", "a(x+y) != ax+ay"))
        if not eq(vs.scalar_mul(x, a + b), vs.add(vs.scalar_mul(x, a), vs.scalar_mul(x, b)), tol):
            probs.append(("distributive_scalar", "(a+b)x != ax+bx"))
        if not eq(vs.covector(vs.covector(x)), x):
            probs.append(("covector_involution", "covector(covector(x)) != x"))
        for name, val in (("add", vs.add(x, y)), ("scalar_mul", vs.scalar_mul(x, 0.5)), ("zeros", vs.zeros()), ("ones", vs.ones()),
                          ("randn", vs.randn()), ("covector", vs.covector(x)),
                          # scalars as NumPy hands them out (an inner product is one): they must not widen a low-precision space
                          ("scalar_mul by a numpy.float64", vs.scalar_mul(x, onp.float64(0.5))), ("scalar_mul by a 0-d array", vs.scalar_mul(x, onp.array(0.5))),
                          ("scalar_mul by an inner product", vs.scalar_mul(x, vs.inner_prod(y, y)))):
            if not vspace(val) == vs:
                probs.append(("closure", f"{name} result lies in {vspace(val)!r}, not {vs!r}"))
        ip = vs.inner_prod
        ixy, iyx = ip(x, y), ip(y, x)
        if onp.iscomplexobj(ixy) or onp.ndim(ixy) != 0:
            probs.append(("inner_real", f"inner_prod is not a real scalar: {ixy!r}"))
        scale = 1.0 + abs(complex(ixy))
        if abs(complex(ixy) - complex(iyx)) > tol * scale:
            probs.append(("inner_symmetric", f"<x,y>={ixy!r} <y,x>={iyx!r}"))
        lhs = ip(vs.add(vs.scalar_mul(x, a), z), y)
        if abs(complex(lhs) - (a * complex(ixy) + complex(ip(z, y)))) > 8 * tol * (scale + abs(complex(ip(z, y)))) * (abs(a) + 1):
            probs.append(("inner_bilinear", "inner_prod not real-bilinear"))
        ixx = ip(x, x)
        nz = any(onp.any(onp.asarray(l) != 0) for l in leaves(x))
        if nz and not (onp.real(ixx) > 0):  # no conversion to float64: extended-precision values may lie below its range
            probs.append(("inner_positive", f"<x,x>={ixx!r} for x != 0"))
        if abs(complex(ip(vs.zeros(), vs.zeros()))) != 0:
            probs.append(("inner_zero", "<0,0> != 0"))
        if struct[0] == "array" and struct[1] == "longdouble" and size >= 2 and onp.finfo(onp.longdouble).nmant > 52:
            # the inner product of an extended-precision space is computed in that precision
            e1 = onp.zeros(tuple(struct[2]), dtype=onp.longdouble)
            e1.reshape(-1)[0], e1.reshape(-1)[1] = 1.0, onp.longdouble(2.0) ** -60
            if ip(e1, onp.ones(tuple(struct[2]), dtype=onp.longdouble)) - onp.longdouble(1.0) != onp.longdouble(2.0) ** -60:
                probs.append(("inner_precision", "longdouble inner product is not computed in extended precision"))
        if int(vs.size) != size:
            probs.append(("size", f"size {vs.size} but {size} real degrees of freedom"))
        if size <= 16:
            basis = list(vs.standard_basis())
            if len(basis) != size:
                probs.append(("basis_size", f"{len(basis)} basis vectors, size {size}"))
            if not all(vspace(e) == vs for e in basis):
                probs.append(("basis_space", "basis vector outside the space"))
            G = [[complex(ip(e, f)) for f in basis] for e in basis]
            if basis and not onp.allclose(G, onp.eye(len(basis)), atol=tol):
                probs.append(("basis_orthonormal", "basis not orthonormal"))
            rec = vs.zeros()
            for e in basis:
                rec = vs.add(rec, vs.scalar_mul(e, float(onp.real(ip(e, x)))))
            if not eq(rec, x, 8 * tol):
                probs.append(("basis_complete", "sum <e_i,x> e_i != x"))
        # space equality iff: change exactly one of structure / shape / dtype
        w = perturb(struct, c)
        if w is not None:
            other = make(w, c)
            if vspace(other) == vs:
                probs.append(("space_neq", f"different structure/shape/dtype compare equal: {w} vs {struct}"))
        # the space of a value is a function of what the value is NOW: a container changed in place between two consecutive lookups
        if isinstance(x, (list, dict)):
            import copy

            m = copy.deepcopy(x)
            first = vspace(m)
            if isinstance(m, list):
                m.append(0.25)
            else:
                m["zz_new"] = onp.array([1.0, 2.0])
            again = vspace(m)
            fresh = vspace(copy.deepcopy(m))
            if not (again == fresh) or again == first or again.size != fresh.size:
                probs.append(("stale_space", "vspace(value) after an in-place change of the container is not the space of the changed value"))
    except Exception as e:
        if not from_autograd(e):
            raise
        return fail("unexpected_exception", f"{type(e).__name__}: {e}"[:300], bucket("exception"), sample=sample)
    if probs:
        kind, detail = probs[0]
        return fail(kind, "; ".join(f"{k}: {d}" for k, d in probs)[:400], bucket(kind), sample=sample)
    trivial = struct[0] == "array" and struct[1] == "float64" and len(struct[2]) in (1, 2) and 0 not in struct[2]
    labels = ["top=" + struct[0]] + (["dtype=" + struct[1]] if struct[0] in ("array", "npscalar") else []) + \
             (["size0"] if size == 0 else []) + (["rank0"] if struct[0] == "array" and not struct[2] else [])
    return ok(nontrivial=not trivial, key=json.dumps(struct), labels=labels, sample=sample)


def perturb(struct, c):
    """A structure differing from `struct` in exactly one of: container type/arity/keys, a leaf shape, a leaf dtype/kind."""
    t = struct[0]
    k = c.int(0, 2)
    if t in ("pyfloat", "pycomplex"):
        return ["pycomplex"] if t == "pyfloat" else ["pyfloat"]
    if t == "npscalar":
        others = [d for d in DT if d != struct[1]]
        return ["npscalar", others[c.int(0, len(others) - 1)]]
    if t == "array":
        if k == 0:
            others = [d for d in DT if d != struct[1]]
            return ["array", others[c.int(0, len(others) - 1)], struct[2]]
        sh = list(struct[2])
        if sh and k == 1:
            i = c.int(0, len(sh) - 1)
            sh[i] = sh[i] + 1
            return ["array", struct[1], sh]
        return ["array", struct[1], sh + [1]]
    if t == "linalg_result":
        # another result type with the same field shapes (eigh <-> eig), another size, or a plain tuple
        kind, n = struct[1], struct[2]
        if k == 0 and kind in ("eigh", "eig"):
            return ["linalg_result", "eig" if kind == "eigh" else "eigh", n]
        if k == 1:
            return ["linalg_result", kind, n + 1] if kind != "slogdet" else ["linalg_result", "qr", n]
        return ["tuple", [["array", "float64", [n]], ["array", "float64", [n, n]]]]
    kids = struct[1]
    if k == 0 or not kids:
        return [{"tuple": "list", "list": "tuple", "dict": "list"}[t], kids]
    if k == 1:
        return [t, kids + [["pyfloat"]]]
    i = c.int(0, len(kids) - 1)
    sub = perturb(kids[i], c)
    return [t, kids[:i] + [sub] + kids[i + 1:]]


PROP = Prop("C13", [Test("axioms", body, quick=6000, thorough=80000, shard_size=500)], RULE, assumptions=[
    "entries are dyadic rationals so exact laws are asserted exactly; inexact laws use 64*eps(dtype)*(size+1) relative",
])
