"""C04 — forward and reverse modes are mutually adjoint and linear."""
import json
from functools import partial

import numpy as onp

from .. import values
from ..case import Outcome, fail, from_autograd, ok, raised
from ..derivcheck import bucket_of, key_of, primal
from ..engine import Prop, Test
from ..oracle import rdot
from ..templates import TEMPLATES
from ..templates.core import instantiate, namespaces

RULE = (
    "Every template case (real and complex argument mixes) in which both make_jvp and make_vjp return: with generated "
    "tangents v1,v2, cotangents g1,g2 and real scalars a,b: Re<g, jvp(v)> == Re<vjp(g), v> (the documented pairing, which "
    "for complex data encodes the conjugation convention), jvp(a v1 + b v2) == a jvp(v1) + b jvp(v2), vjp(a g1 + b g2) == "
    "a vjp(g1) + b vjp(g2); tolerance 1e-10 * (||g|| ||Jv|| + ||J^T g|| ||v|| + 1) - no numerical differentiation involved; non-finite results in exactly one "
    "mode are a failure (in both: inconclusive). "
    "Compositions: generated array programs (vh/progs.py). Non-trivial = both modes returned non-zero results; distinct "
    "by (template, feature tuple, argsel, carrier, complex mask)."
    " adj:kinks: points exactly ON a kink (clip bounds, ties under sort with every kind / maximum / minimum / max, exact zeros under abs / hypot / gates): the one-sided choices of the two modes agree as linear maps."
    " adj:containers: C12's nested container arguments and access programs - the tangent for a direction equals the pairing of the reverse-mode gradient with it."
)

TOL = 1e-10


def _nrm(a):
    return float(onp.sqrt(onp.sum(onp.abs(onp.asarray(a)) ** 2)))


def check_pair(f_ag, x, xa, y0a, vseed, sample, bucket, key, labels=()):
    """Adjointness and linearity of make_jvp / make_vjp of f_ag at x."""
    import autograd
    from autograd.tracer import isbox

    xc, yc = xa.dtype.kind == "c", y0a.dtype.kind == "c"
    mkv = (lambda s: values.cdirection(vseed, xa.shape, s)) if xc else (lambda s: values.direction(vseed, xa.shape, s))
    mkg = (lambda s: values.cdirection(vseed, y0a.shape, s)) if yc else (lambda s: values.direction(vseed, y0a.shape, s))
    v1, v2, g1, g2 = mkv(41), mkv(42), mkg(43), mkg(44)
    a, b = [float(t) for t in values.generic(vseed, [(2,)], 0.3, 1.7, stream=45)[0][0]]
    b = -b
    scalar_x = xa.ndim == 0 and not isinstance(x, onp.ndarray)
    conv = (lambda v: complex(v) if xc else float(v)) if scalar_x else (lambda v: v)
    try:
        jvp = autograd.make_jvp(f_ag)(x)
        t1, t2, t12 = jvp(conv(v1))[1], jvp(conv(v2))[1], jvp(conv(a * v1 + b * v2))[1]
    except Exception as e:
        return raised(e, "fwd", labels=labels, sample=sample)
    try:
        vjp, y = autograd.make_vjp(f_ag)(x)
        r1, r2, r12 = vjp(g1), vjp(g2), vjp(a * g1 + b * g2)
    except Exception as e:
        return raised(e, "rev", labels=labels, sample=sample)
    try:
        arrs = [onp.asarray(t) for t in (t1, t2, t12, r1, r2, r12)]
    except Exception as e:
        return fail("wrong_kind", f"derivative result is not an array: {e}", bucket("wrong_kind"), sample=sample)
    if any(isbox(t) for t in (t1, t2, t12, r1, r2, r12)) or any(a_.dtype == object for a_ in arrs):
        return fail("tracer_leak", "derivative result contains a tracer / object", bucket("tracer_leak"), sample=sample)
    t1, t2, t12, r1, r2, r12 = arrs
    if t1.shape != y0a.shape or r1.shape != xa.shape:
        return fail("wrong_shape", f"tangent {t1.shape} for output {y0a.shape}; cotangent {r1.shape} for argument {xa.shape}",
                    bucket("wrong_shape"), sample=sample)
    if (not xc and any(a_.dtype.kind == "c" for a_ in (r1, r2, r12))) or (not yc and any(a_.dtype.kind == "c" for a_ in (t1, t2, t12))):
        # the pairing <., .> is between a space and itself: a complex cotangent for a real argument (or tangent for a real output) is outside it
        return fail("wrong_kind", "a cotangent for a real argument (or a tangent for a real output) is complex", bucket("wrong_kind"), sample=sample)
    fin_t = all(onp.all(onp.isfinite(a_)) for a_ in (t1, t2, t12))
    fin_r = all(onp.all(onp.isfinite(a_)) for a_ in (r1, r2, r12))
    if fin_t != fin_r:
        # one mode is finite for every probe, the other is not: whatever J is, the two cannot be adjoint to each other
        return fail("not_adjoint", f"{'forward' if fin_r else 'reverse'} mode returns non-finite derivatives where the other mode is finite",
                    bucket("one_mode_nonfinite"), sample=sample)
    if not fin_t:
        return Outcome("inconclusive", detail="non-finite derivative in both modes (value check is C01/C02's)", sample=sample)
    # adjointness
    lhs, rhs = rdot(g1, t1), rdot(r1, v1)
    scale = _nrm(g1) * _nrm(t1) + _nrm(r1) * _nrm(v1) + 1.0
    if not abs(lhs - rhs) <= TOL * scale:
        return fail("not_adjoint", f"<g,jvp(v)>={lhs!r} but <vjp(g),v>={rhs!r} (scale {scale:.3g})", bucket("not_adjoint"), sample=sample)
    lhs, rhs = rdot(g2, t1), rdot(r2, v1)
    if not abs(lhs - rhs) <= TOL * (_nrm(g2) * _nrm(t1) + _nrm(r2) * _nrm(v1) + 1.0):
        return fail("not_adjoint", f"<g2,jvp(v1)>={lhs!r} but <vjp(g2),v1>={rhs!r}", bucket("not_adjoint"), sample=sample)
    # linearity
    d = onp.abs(t12 - (a * t1 + b * t2))
    if not onp.all(d <= TOL * (abs(a) * _nrm(t1) + abs(b) * _nrm(t2) + 1.0)):
        return fail("nonlinear", f"jvp(a v1 + b v2) differs from a jvp(v1) + b jvp(v2) by {float(onp.max(d)):.3e}", bucket("nonlinear_fwd"), sample=sample)
    d = onp.abs(r12 - (a * r1 + b * r2))
    if not onp.all(d <= TOL * (abs(a) * _nrm(r1) + abs(b) * _nrm(r2) + 1.0)):
        return fail("nonlinear", f"vjp(a g1 + b g2) differs from a vjp(g1) + b vjp(g2) by {float(onp.max(d)):.3e}", bucket("nonlinear_rev"), sample=sample)
    nontrivial = _nrm(t1) > 0 and _nrm(r1) > 0
    return ok(nontrivial=nontrivial, key=key, labels=labels, sample=sample)


def _body(tdef, case):
    call = tdef.draw(case)
    inst = instantiate(case, call, allow_complex=True)
    st, y0 = primal(inst)
    sample = inst.describe()
    if st != "ok":
        return Outcome("numpy_rejects", detail=y0, sample=sample)
    NP, AG = namespaces()
    labels = ["complex" if any(inst.cmask) else "real"]
    return check_pair(inst.f(AG), inst.x_carried(), onp.asarray(inst.x), onp.asarray(y0), inst.vseed, sample,
                      lambda kind: bucket_of(inst, "both", kind), key_of(inst, "adj"), labels)


def _prog_body(case):
    from .. import progs

    prog = progs.gen(case, max_ops=case.int(3, 12))
    vseed = case.seed()
    x0 = progs.input_value(prog, vseed)
    sample = {"program": prog, "vseed": vseed}
    try:
        y0 = progs.run(prog, x0, onp)
        if not onp.all(onp.isfinite(onp.asarray(y0))):
            return Outcome("numpy_rejects", detail="non-finite", sample=sample)
    except Exception as e:
        return Outcome("numpy_rejects", detail=str(e)[:100], sample=sample)
    import autograd.numpy as anp

    return check_pair(lambda x: progs.run(prog, x, anp), x0, onp.asarray(x0), onp.asarray(y0), vseed, sample,
                      lambda kind: f"C04|program|{kind}", json.dumps(prog), ["composition"])


def _container_body(c):
    """Container arguments (C12's nested structures and access programs: indices, negative indices, slices with steps, dict keys, unpacking):
    the tangent forward mode returns for a direction v equals the pairing of the reverse-mode gradient with v, leaf by leaf, and both
    modes are linear - no reference values involved."""
    import autograd
    import autograd.builtins as ab
    import autograd.numpy as anp

    from ..case import describe_exc, from_autograd
    from . import c12

    struct = c12.gen_struct(c, c.int(1, 3))
    lstructs = c12.leaf_structs(struct)
    if not lstructs:
        return Outcome("numpy_rejects", detail="no leaves")
    vseed = c.seed()
    shapes = [tuple(s_[1]) if s_[0] == "a" else () for s_ in lstructs]
    vals, _ = values.generic(vseed, shapes, -1.5, 1.5)
    Cs = [values.direction(vseed, sh, 90 + i) for i, sh in enumerate(shapes)]
    v0 = c12.build(struct, lambda i, s_: float(vals[i]) if s_[0] == "f" else onp.array(vals[i]), [0])
    idv = c12.build(struct, lambda i, s_: i, [0])
    uses = []
    for _ in range(c.int(1, 4)):
        ops, leaf = c12.gen_access(c, idv)
        if ops is not None:
            uses.append((ops, leaf))
    if not uses:
        return Outcome("numpy_rejects", detail="no reachable leaf")
    sample = {"struct": struct, "uses": [[ops, leaf] for ops, leaf in uses], "vseed": vseed}
    bucket = lambda k: f"C04|container|{k}"

    def f(v):
        terms = [anp.sum(c12.apply_access(ops, v, ab) * Cs[leaf]) for ops, leaf in uses]
        S = terms[0]
        for t_ in terms[1:]:
            S = S + t_ * 0.5
        return S + anp.sin(0.3 * S)

    tang = c12.build(struct, lambda i, s_: float(values.direction(vseed, (), 120 + i)) if s_[0] == "f" else values.direction(vseed, shapes[i], 120 + i), [0])
    try:
        g = autograd.grad(f)(v0)
        t1 = float(autograd.make_jvp(f)(v0)(tang)[1])
    except Exception as e:
        if not from_autograd(e):
            raise
        if c12._missing(e):
            return raised(e, "container", sample=sample)
        return fail("unexpected_exception", describe_exc(e), bucket("exception"), sample=sample)
    try:
        pair = sum(float(onp.sum(onp.asarray(a_, dtype=float) * onp.asarray(b_, dtype=float))) for a_, b_ in zip(c12.leafwise(g), c12.leafwise(tang)))
    except Exception as e:
        return fail("not_adjoint", f"the reverse-mode gradient cannot be paired with a direction of the argument's structure: {e}", bucket("structure"), sample=sample)
    if not abs(pair - t1) <= 1e-10 * max(1.0, abs(t1), abs(pair)):
        return fail("not_adjoint", f"forward mode gives {t1!r} for a direction v, the reverse-mode gradient pairs with v to {pair!r}", bucket("not_adjoint"), sample=sample)
    opnames = sorted({op[1] for ops, _ in uses for op in ops})
    c.features.update(ops=opnames)
    return ok(nontrivial=bool(opnames), key=json.dumps([struct, [[ops, leaf] for ops, leaf in uses]]), labels=["container"] + ["op=" + o for o in opnames], sample=sample)


KINK_FAMILIES = ["clip_on_bound", "clip_one_sided", "sort_ties", "maximum_ties", "minimum_ties", "abs_zero", "max_reduce_ties", "where_gate", "relu_max0", "clip_of_clip", "hypot_origin", "norm_origin_row"]


def _kinks_body(c):
    fam, f, x, v, g, sample = kinks_setup(c)
    return _kinks_check(c, fam, f, x, v, g, sample)


def kinks_setup(c):
    """Points ON a kink of a piecewise function (an entry exactly on a clip bound, tied entries under sort / maximum / minimum / max, an exact
    zero under abs): each mode picks one of the one-sided derivatives there, and wherever both return finite values the two choices must
    be the same linear map: <g, JVP(v)> = <VJP(g), v>."""
    import autograd
    import autograd.numpy as anp

    from .. import values

    fam = c.choice(KINK_FAMILIES)
    n = c.int(3, 8)
    vseed = c.seed()
    (x, v, g, w), _ = values.generic(vseed, [(n,), (n,), (n,), (n,)], -1.5, 1.5)
    kind = c.choice(["stable", "quicksort", "mergesort", "heapsort", None])
    lo, hi = -0.5, 0.75
    # plant the kink: some entries exactly on the special values
    k1, k2 = c.int(0, n - 1), c.int(0, n - 1)
    x = x.copy()
    if fam in ("clip_on_bound", "clip_of_clip"):
        x[k1], x[k2] = lo, hi
    elif fam == "clip_one_sided":
        x[k1] = 0.0
    elif fam in ("sort_ties", "max_reduce_ties"):
        idx = [c.int(0, n - 1) for _ in range(c.int(2, 4))]
        x[idx] = x[idx[0]] if fam == "sort_ties" else float(onp.max(x)) + 0.25
    elif fam in ("maximum_ties", "minimum_ties"):
        w = w.copy()
        w[k1], w[k2] = x[k1], x[k2]
    elif fam in ("abs_zero", "where_gate", "relu_max0"):
        x[k1] = 0.0
        x[k2] = 0.0
    elif fam == "hypot_origin":
        w = w.copy()
        x[k1], w[k1] = 0.0, 0.0
    f = {
        "clip_on_bound": lambda t: anp.clip(t, lo, hi) * w,
        "clip_of_clip": lambda t: anp.clip(anp.clip(t, lo, hi) * 1.0, lo, hi) * w,
        "clip_one_sided": lambda t: anp.clip(t, 0.0, None) * w,
        "sort_ties": (lambda t: anp.sort(t, kind=kind) * w) if kind else (lambda t: anp.sort(t) * w),
        "maximum_ties": lambda t: anp.maximum(t, w) * g,
        "minimum_ties": lambda t: anp.minimum(w, t) * g,
        "abs_zero": lambda t: anp.abs(t) * w,
        "max_reduce_ties": lambda t: anp.max(t) * w,
        "where_gate": lambda t: anp.where(t > 0, t, 0.0) * w,
        "relu_max0": lambda t: anp.maximum(t, 0.0) * w,
        "hypot_origin": lambda t: anp.hypot(t, w) * g,
        "norm_origin_row": lambda t: anp.sqrt(t * t + w * w * (w > 0)) * g,
    }[fam]
    sample = {"family": fam, "n": n, "kind": kind if fam == "sort_ties" else None, "x": x.tolist(), "vseed": vseed}
    case_features = dict(family=fam, kind=kind if fam == "sort_ties" else None)
    c.features.update(case_features)
    return fam, f, x, v, g, sample


def _kinks_check(c, fam, f, x, v, g, sample):
    import autograd

    bucket = lambda k: f"C04|kinks|{fam}|{k}"
    kind = sample["kind"]
    n = sample["n"]
    try:
        with onp.errstate(all="ignore"):
            tan = onp.asarray(autograd.make_jvp(f)(x)(v)[1])
            cot = onp.asarray(autograd.make_vjp(f)(x)[0](g))
            tan2 = onp.asarray(autograd.make_jvp(f)(x)(2.0 * v)[1])
    except Exception as e:
        if not from_autograd(e):
            raise
        return raised(e, "kinks", sample=sample)
    fin_t, fin_c = bool(onp.all(onp.isfinite(tan))), bool(onp.all(onp.isfinite(cot)))
    if fin_t != fin_c:
        return fail("one_mode_nonfinite", f"on a kink of {fam}: {'forward' if fin_c else 'reverse'} mode returns non-finite entries where the other mode returns finite ones",
                    bucket("nonfinite"), sample=sample)
    if not fin_t:
        return Outcome("inconclusive", kind="neither mode is defined (non-finite) at the kink", sample=sample)
    a, b = float(onp.sum(g * tan)), float(onp.sum(cot * v))
    scale = _nrm(g) * _nrm(tan) + _nrm(cot) * _nrm(v) + 1e-300
    if abs(a - b) > 1e-10 * scale:
        return fail("not_adjoint", f"on a kink of {fam}: <g, JVP(v)> = {a!r} but <VJP(g), v> = {b!r}", bucket("adjoint"), sample=sample)
    if not onp.allclose(tan2, 2.0 * tan, rtol=1e-12, atol=1e-13):
        return fail("not_linear", f"on a kink of {fam}: JVP(2v) != 2 JVP(v)", bucket("linear"), sample=sample)
    return ok(nontrivial=True, key=json.dumps([fam, n, kind if fam == "sort_ties" else None, x.tolist()]), labels=["kinks", "family=" + fam], sample=sample)


def tests():
    out = []
    for name, t in sorted(TEMPLATES.items()):
        out.append(Test("adj:" + name, partial(_body, t), quick=150 * t.weight, thorough=1000 * t.weight, shard_size=200))
    out.append(Test("adj:programs", _prog_body, quick=600, thorough=10000, shard_size=150))
    out.append(Test("adj:containers", _container_body, quick=2500, thorough=15000, shard_size=250))
    out.append(Test("adj:kinks", _kinks_body, quick=1500, thorough=10000, shard_size=250))
    return out


PROP = Prop("C04", tests(), RULE, assumptions=[
    "exact algebraic identities between the two independently written rule tables; tolerance 1e-10 relative to the norms involved",
])
