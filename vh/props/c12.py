"""C12 — nested containers are differentiated leaf-wise; flattening commutes with grad."""
import json
import math

import numpy as onp

from .. import values
from ..case import Outcome, describe_exc, fail, from_autograd, ok, raised
from ..engine import Prop, Test

RULE = (
    "Nested values (leaves: python float, 0-d, arrays of rank <= 2; nodes: tuple, list, dict with str keys, empty containers "
    "allowed; depth <= 4) and access programs over them: positive/negative index, slice with step, + with a plain sequence on "
    "either side (also empty) and box+box, iteration, unpacking, len, in, .index-free membership, dict [] / get / keys / values / "
    "items / iteration / in, re-packing through autograd.builtins.tuple/list/dict, passing sub-containers to inner functions. "
    "f = sum_u c_u * sum(leaf_u * C_u) + sin(0.1 * sum_u sum(leaf_u * C_u)). Oracle: the same access program run on an "
    "id-structure (leaves replaced by integer ids, plain Python containers) tells which leaf every use reaches; expected gradient "
    "leaf = sum over uses of (c_u + 0.1 cos(S)) C_u; structure check vspace(grad) == vspace(arg); primal equals the plain run; "
    "forward mode where rules exist. Container-valued outputs via make_vjp. Flatten: unflatten(flatten(v)) == v, "
    "flatten(unflatten(w)) == w, both linear, flatten(grad f (v)) == grad(f o unflatten)(flatten v). Non-trivial = depth >= 2 or an "
    "access through slice / concatenation / dict method / re-packing; distinct by (structure, program). levels: sequences traced at different levels of a nested "
    "differentiation combined by + / slices / re-packing (closed-form second derivative, all four mode pairs). mutated_between: one list / dict object differentiated, "
    "a leaf replaced in place by a value of another shape, differentiated again (leaf shapes and values follow the current contents)."
)


# ---- structures ---------------------------------------------------------------------------------------------------
def gen_struct(c, depth, top=True):
    k = c.int(3, 6) if (top or (depth > 0 and c.chance(1, 3))) else c.int(0, 2)
    if depth <= 0 and not top:
        k = c.int(0, 2)
    if k == 0:
        return ["f"]
    if k == 1:
        return ["a", []]
    if k == 2:
        return ["a", [c.int(1, 3) for _ in range(c.int(1, 2))]]
    n = c.int(0, 3) if not top else c.int(1, 3)
    kids = [gen_struct(c, depth - 1, False) for _ in range(n)]
    return [["t", "l", "d", "t"][k - 3], kids]


DICT_KEYS = ["w", "b", "z", "a"]


def build(struct, leaf_fn, counter):
    t = struct[0]
    if t in ("f", "a"):
        counter[0] += 1
        return leaf_fn(counter[0] - 1, struct)
    kids = [build(k, leaf_fn, counter) for k in struct[1]]
    if t == "t":
        return tuple(kids)
    if t == "l":
        return kids
    return {DICT_KEYS[i]: kid for i, kid in enumerate(kids)}  # insertion order differs from sorted key order


def depth_of(struct):
    if struct[0] in ("f", "a"):
        return 0
    return 1 + max([depth_of(k) for k in struct[1]] + [0])


def leaf_structs(struct, acc=None):
    acc = [] if acc is None else acc
    if struct[0] in ("f", "a"):
        acc.append(struct)
    else:
        for k in struct[1]:
            leaf_structs(k, acc)
    return acc


# ---- access programs --------------------------------------------------------------------------------------------------
def gen_access(c, idv):
    """Draw a path of operations from the root container down to a leaf, guided by the id-structure `idv`."""
    ops = []
    cur = idv
    for _ in range(8):
        if not isinstance(cur, (tuple, list, dict)):
            return ops, cur
        if len(cur) == 0:
            return None, None
        if isinstance(cur, dict):
            keys = sorted(cur)
            k = keys[c.int(0, len(keys) - 1)]
            how = c.choice(["getitem", "get", "values", "items", "iter", "repack_dict", "inner", "in_then_get"])
            ops.append(["d", how, k])
            cur = cur[k]
        else:
            n = len(cur)
            how = c.choice(["index", "negindex", "slice", "add_right", "add_left", "add_empty", "iterate", "unpack", "repack_tuple",
                            "repack_list", "repack_const", "inner", "boxplusbox"])
            i = c.int(0, n - 1)
            if how == "slice":
                a = c.int(0, i)
                step = c.choice([1, 2, -1])
                if step == -1:
                    ops.append(["s", "slice", None, None, -1, n - 1 - i])
                else:
                    a = i - ((i - a) // step) * step
                    ops.append(["s", "slice", a, None, step, (i - a) // step])
            elif how == "add_left":
                ops.append(["s", "add_left", c.int(0, 2), i])
            elif how == "add_right":
                ops.append(["s", "add_right", c.int(0, 2), i])
            else:
                ops.append(["s", how, i])
            cur = cur[i]
    return None, None


def apply_access(ops, root, ab):
    """Run the access program on `root` (plain id-structure or traced value).  `ab` = autograd.builtins."""
    cur = root
    for op in ops:
        if op[0] == "d":
            _, how, k = op
            if how == "getitem":
                cur = cur[k]
            elif how == "get":
                cur = cur.get(k)
            elif how == "values":
                ks = list(cur.keys())
                cur = list(cur.values())[ks.index(k)]
            elif how == "items":
                cur = dict_from_items(cur.items())[k]
            elif how == "iter":
                cur = [cur[kk] for kk in cur if kk == k][0]
            elif how == "repack_dict":
                cur = ab.dict({kk: cur[kk] for kk in cur})[k]
            elif how == "in_then_get":
                assert (k in cur) and ("nope" not in cur) and len(cur) >= 1
                cur = cur[k]
            else:
                cur = (lambda dd: dd[k])(cur)
        else:
            how = op[1]
            if how == "index":
                cur = cur[op[2]]
            elif how == "negindex":
                cur = cur[op[2] - len(cur)]
            elif how == "slice":
                _, _, a, b, step, j = op
                cur = cur[a:b:step][j]
            elif how == "add_right":
                extra = (0.5,) * op[2]
                cur = (cur + (type_like(cur)(extra)))[op[3]]
            elif how == "add_left":
                extra = (0.5,) * op[2]
                cur = (type_like(cur)(extra) + cur)[op[2] + op[3]]
            elif how == "add_empty":
                cur = (cur + type_like(cur)(()))[op[2]]
            elif how == "boxplusbox":
                n = len(cur)
                cur = (cur + cur)[n + op[2]]
            elif how == "iterate":
                cur = [e for e in cur][op[2]]
            elif how == "unpack":
                first, *rest = cur
                cur = first if op[2] == 0 else rest[op[2] - 1]
            elif how == "repack_tuple":
                cur = ab.tuple(tuple(cur[j] for j in range(len(cur))))[op[2]]
            elif how == "repack_list":
                cur = ab.list([cur[j] for j in range(len(cur))])[op[2]]
            elif how == "repack_const":  # constants before, between and after the traced elements
                mk = ab.tuple if op[2] % 2 == 0 else ab.list
                elems = [0.25]
                for j in range(len(cur)):
                    elems += [cur[j], 1.5]
                cur = mk(elems)[1 + 2 * op[2]]
            else:
                cur = (lambda ss: ss[op[2]])(cur)
    return cur


def dict_from_items(items):
    return {k: v for k, v in items}


def type_like(seq):
    from autograd.tracer import getval

    v = getval(seq)
    return list if isinstance(v, list) else tuple


NONTRIVIAL_OPS = {"slice", "add_right", "add_left", "add_empty", "boxplusbox", "get", "values", "items", "iter", "repack_dict",
                  "repack_tuple", "repack_list", "repack_const", "unpack"}


def leafwise(v):
    if isinstance(v, (tuple, list)):
        return [l for e in v for l in leafwise(e)]
    if isinstance(v, dict):
        # canonical key order (the order build() inserts them in): a dict is the same value whatever order it iterates in
        return [l for k in sorted(v, key=lambda k_: DICT_KEYS.index(k_) if k_ in DICT_KEYS else len(DICT_KEYS)) for l in leafwise(v[k])]
    return [v]


def same_structure(a, b):
    if isinstance(a, dict) or isinstance(b, dict):
        return isinstance(a, dict) and isinstance(b, dict) and set(a) == set(b) and all(same_structure(a[k], b[k]) for k in a)
    if isinstance(a, (tuple, list)) or isinstance(b, (tuple, list)):
        return type(a) is type(b) and len(a) == len(b) and all(same_structure(x, y) for x, y in zip(a, b))
    return onp.shape(a) == onp.shape(b)


def _missing(e):
    return isinstance(e, NotImplementedError) and "not defined" in str(e)


def program_body(c):
    import autograd
    import autograd.builtins as ab
    import autograd.numpy as anp
    from autograd.core import vspace

    struct = gen_struct(c, c.int(1, 3))
    lstructs = leaf_structs(struct)
    if not lstructs:
        return Outcome("numpy_rejects", detail="no leaves")
    vseed = c.seed()
    shapes = [tuple(s[1]) if s[0] == "a" else () for s in lstructs]
    vals, _ = values.generic(vseed, shapes, -1.5, 1.5)
    Cs = [values.direction(vseed, sh, 90 + i) for i, sh in enumerate(shapes)]

    def leaf_val(i, s):
        v = vals[i]
        return float(v) if s[0] == "f" else onp.array(v)

    v0 = build(struct, leaf_val, [0])
    idv = build(struct, lambda i, s: i, [0])
    n_uses = c.int(1, 4)
    uses = []
    for _ in range(n_uses):
        ops, leaf = gen_access(c, idv)
        if ops is None:
            continue
        uses.append((ops, leaf, c.choice([1.0, -0.5, 2.0])))
    if not uses:
        return Outcome("numpy_rejects", detail="no reachable leaf")
    # the id-structure run (plain python) is the routing oracle
    try:
        reached = [apply_access(ops, idv, ab) for ops, _, _ in uses]
    except Exception as e:
        raise AssertionError(f"access program fails on plain containers: {e!r}")
    assert reached == [leaf for _, leaf, _ in uses]
    container_out = c.chance(1, 4)
    sample = {"struct": struct, "uses": [[ops, leaf, cu] for ops, leaf, cu in uses], "container_out": container_out, "vseed": vseed}
    bucket = lambda k: f"C12|program|{k}"

    def f(v, ns):
        terms = [ns.sum(apply_access(ops, v, ab) * Cs[leaf]) for ops, leaf, _ in uses]
        S = terms[0]
        for t in terms[1:]:
            S = S + t
        lin = None
        for t, (_, _, cu) in zip(terms, uses):
            lin = cu * t if lin is None else lin + cu * t
        return lin + ns.sin(0.1 * S)

    y0 = f(v0, onp)
    S0 = sum(float(onp.sum(onp.asarray(leafwise(v0)[leaf]) * Cs[leaf])) for _, leaf, _ in uses)
    expect = [onp.zeros(sh) for sh in shapes]
    for _, leaf, cu in uses:
        expect[leaf] = expect[leaf] + (cu + 0.1 * math.cos(0.1 * S0)) * Cs[leaf]
    opnames = {op[1] for ops, _, _ in uses for op in ops}
    nontrivial = depth_of(struct) >= 2 or bool(opnames & NONTRIVIAL_OPS)
    labels = sorted("op=" + o for o in opnames) + [f"depth={depth_of(struct)}", "top=" + struct[0]]
    c.features.update(depth=depth_of(struct), ops=sorted(opnames), top=struct[0])
    key = json.dumps([struct, [[ops, leaf] for ops, leaf, _ in uses]])
    try:
        vjp, y = autograd.make_vjp(lambda v: f(v, anp))(v0)
        g = vjp(1.0)
        g2 = autograd.grad(lambda v: f(v, anp))(v0)
    except Exception as e:
        if not from_autograd(e):
            raise
        if _missing(e):
            return raised(e, "rev", labels=labels, sample=sample)
        return fail("unexpected_exception", "reverse: " + describe_exc(e), bucket("rev_exception"), sample=sample)
    if abs(float(y) - float(y0)) > 1e-12 * max(1.0, abs(float(y0))):
        return fail("primal_mismatch", f"value under tracing {float(y)!r} vs plain {float(y0)!r}", bucket("primal_mismatch"), sample=sample)
    for got in (g, g2):
        if not same_structure(got, v0):
            return fail("wrong_space", f"gradient structure {got!r:.200} for argument {v0!r:.200}", bucket("wrong_space"), sample=sample)
        try:
            if not vspace(got) == vspace(v0):
                return fail("wrong_space", f"vspace(grad) {vspace(got)!r:.200} != vspace(arg)", bucket("wrong_space"), sample=sample)
        except Exception as e:
            return fail("wrong_space", f"gradient has no vector space: {e}", bucket("wrong_space"), sample=sample)
        for i, (gl, el) in enumerate(zip(leafwise(got), expect)):
            if not onp.allclose(onp.asarray(gl, dtype=float), el, rtol=1e-11, atol=1e-12):
                return fail("wrong_value", f"leaf {i}: gradient {onp.asarray(gl).tolist()} expected {onp.asarray(el).tolist()}"[:400],
                            bucket("wrong_value"), sample=sample)
    # forward mode
    tang = build(struct, lambda i, s: float(values.direction(vseed, (), 120 + i)) if s[0] == "f" else values.direction(vseed, shapes[i], 120 + i), [0])
    try:
        yv, t = autograd.make_jvp(lambda v: f(v, anp))(v0)(tang)
        want = sum(float(onp.sum(onp.asarray(a) * b)) for a, b in zip(leafwise(tang), expect))
        if abs(float(t) - want) > 1e-10 * max(1.0, abs(want)):
            return fail("wrong_value", f"forward mode {float(t)!r} vs {want!r}", bucket("fwd_wrong_value"), sample=sample)
        labels.append("fwd_ok")
    except Exception as e:
        if not from_autograd(e):
            raise
        if not (_missing(e) or isinstance(e, (NotImplementedError, KeyError))):
            return fail("unexpected_exception", "forward: " + describe_exc(e), bucket("fwd_exception"), sample=sample)
        labels.append("fwd_raised")
    # container-valued output through autograd's constructors
    if container_out:
        try:
            def fc(v):
                leaves_ = [apply_access(ops, v, ab) for ops, _, _ in uses]
                return ab.tuple((ab.list(leaves_), ab.dict({"s": anp.sin(leaves_[0])})))
            vjpc, yc = autograd.make_vjp(fc)(v0)
            cot = ([Cs[leaf] if shapes[leaf] else float(Cs[leaf]) for _, leaf, _ in uses], {"s": Cs[uses[0][1]] if shapes[uses[0][1]] else float(Cs[uses[0][1]])})
            gc = vjpc(cot)
        except Exception as e:
            if not from_autograd(e):
                raise
            if _missing(e):
                return raised(e, "container_out", labels=labels, sample=sample)
            return fail("unexpected_exception", "container output: " + describe_exc(e), bucket("cout_exception"), sample=sample)
        exp2 = [onp.zeros(sh) for sh in shapes]
        for _, leaf, _ in uses:
            exp2[leaf] = exp2[leaf] + Cs[leaf]
        l0 = uses[0][1]
        exp2[l0] = exp2[l0] + onp.cos(onp.asarray(leafwise(v0)[l0])) * Cs[l0]
        if not same_structure(gc, v0):
            return fail("wrong_space", "container-output gradient structure", bucket("cout_wrong_space"), sample=sample)
        for i, (gl, el) in enumerate(zip(leafwise(gc), exp2)):
            if not onp.allclose(onp.asarray(gl, dtype=float), el, rtol=1e-11, atol=1e-12):
                return fail("wrong_value", f"container output, leaf {i}", bucket("cout_wrong_value"), sample=sample)
        labels.append("container_out")
    return ok(nontrivial=nontrivial, key=key, labels=labels, sample=sample)


# ---- flatten -----------------------------------------------------------------------------------------------------------
def flatten_body(c):
    import autograd
    import autograd.numpy as anp
    from autograd.misc.flatten import flatten

    struct = gen_struct(c, c.int(0, 3), top=c.bool())
    lstructs = leaf_structs(struct)
    vseed = c.seed()
    shapes = [tuple(s[1]) if s[0] == "a" else () for s in lstructs]
    vals, _ = values.generic(vseed, shapes, -1.5, 1.5) if shapes else ([], 0)
    layouts = [c.choice(["C", "F", "T"]) for _ in lstructs]  # memory layout of rank-2 leaves: C order, Fortran copy, transposed view

    def leaf(i, s):
        if s[0] == "f":
            return float(vals[i])
        a = onp.array(vals[i])
        if a.ndim == 2 and layouts[i] == "F":
            return onp.asfortranarray(a)
        if a.ndim == 2 and layouts[i] == "T":
            return onp.ascontiguousarray(a.T).T  # same values and shape, Fortran-contiguous view
        return a

    v0 = build(struct, leaf, [0])
    sample = {"struct": struct, "vseed": vseed, "layouts": layouts}
    bucket = lambda k: f"C12|flatten|{k}"

    def sorted_leaves(v):
        if isinstance(v, (tuple, list)):
            return [l for e in v for l in sorted_leaves(e)]
        if isinstance(v, dict):
            return [l for k in sorted(v) for l in sorted_leaves(v[k])]
        return [v]

    try:
        flat, unflatten = flatten(v0)
        flat = onp.asarray(flat)
        want = onp.concatenate([onp.ravel(l) for l in sorted_leaves(v0)]) if sorted_leaves(v0) else onp.array([])
        if flat.shape != want.shape or not onp.array_equal(flat, want):
            return fail("wrong_value", f"flatten gives {flat.tolist()} expected {want.tolist()}"[:300], bucket("flatten_value"), sample=sample)
        back = unflatten(flat)
        if not same_structure(back, v0) or not all(onp.array_equal(onp.asarray(a), onp.asarray(b)) for a, b in zip(sorted_leaves(back), sorted_leaves(v0))):
            return fail("wrong_value", "unflatten(flatten(v)) != v", bucket("roundtrip"), sample=sample)
        w = values.direction(vseed, flat.shape, 5)
        if not onp.array_equal(onp.asarray(flatten(unflatten(w))[0]), w):
            return fail("wrong_value", "flatten(unflatten(w)) != w", bucket("roundtrip2"), sample=sample)
        w2 = values.direction(vseed, flat.shape, 6)
        lhs = onp.asarray(flatten(unflatten(2.0 * w - 0.5 * w2))[0])
        if not onp.allclose(lhs, 2.0 * w - 0.5 * w2, rtol=1e-14, atol=1e-14):
            return fail("nonlinear", "unflatten/flatten not linear", bucket("linear"), sample=sample)
        if flat.size:
            Cw = values.direction(vseed, flat.shape, 7)

            def f(v):
                fl = flatten(v)[0]
                return anp.sum(anp.sin(fl) * Cw)

            g = autograd.grad(f)(v0)
            gf = onp.asarray(flatten(g)[0])
            g2 = onp.asarray(autograd.grad(lambda fl: f(unflatten(fl)))(flat))
            ref = onp.cos(flat) * Cw
            if not (onp.allclose(gf, ref, rtol=1e-12, atol=1e-13) and onp.allclose(g2, ref, rtol=1e-12, atol=1e-13)):
                return fail("wrong_value", "flatten does not commute with grad", bucket("commute"), sample=sample)
            if not same_structure(g, v0):
                return fail("wrong_space", "grad structure differs from the argument's", bucket("wrong_space"), sample=sample)
    except Exception as e:
        if not from_autograd(e):
            raise
        return fail("unexpected_exception", describe_exc(e), bucket("exception"), sample=sample)
    return ok(nontrivial=depth_of(struct) >= 1, key=json.dumps(struct), labels=[f"depth={depth_of(struct)}", "flatten"], sample=sample)


def levels_body(c):
    """Sequences traced at DIFFERENT levels of a nested differentiation, combined: p (two arrays) is the outer argument, q (one or two arrays)
    the inner one; comb = p + q, q + p, a slice of p + q, plain + p + q, a re-packed mix ...  With S = sum_i sum(C_i * comb_i) the inner
    function is 0.5 S^2, so grad_q = S C_q and h(p) = sum_j sum(W_j * grad_q_j) = S * K with K = sum_j sum(W_j C_qj): dh/dp_i = K C_pi for
    every member of p that reached comb (zero otherwise).  Which member sits where is read off the same expression on plain tuples of names."""
    import autograd
    import autograd.numpy as anp
    from autograd.builtins import list as ab_list, tuple as ab_tuple

    vseed = c.seed()
    seqt = c.choice(["tuple", "list"])
    nq = c.int(1, 2)
    how = c.choice(["outer+inner", "inner+outer", "outer_slice+inner", "plain+outer+inner", "outer+inner+plain", "repack_mixed", "inner+outer_slice", "outer+outer+inner", "repack_only"])
    # (forward mode has no rule for + on traced sequences: those cells fail loudly and are drawn less often)
    outer_mode, inner_mode = c.choice(["rr", "rr", "rr", "rr", "rf", "fr", "ff"]) if how != "repack_only" else c.choice(["rr", "rf", "fr", "ff"])
    arrs, _ = values.generic(vseed, [(3,)] * (2 + nq + 1 + 6 + nq), -1.5, 1.5)
    mk = tuple if seqt == "tuple" else list
    p0 = mk(arrs[:2])
    q0 = mk(arrs[2:2 + nq])
    extra = arrs[2 + nq]
    Cs = arrs[3 + nq:9 + nq]
    Ws = arrs[9 + nq:9 + 2 * nq]
    sample = {"seq": seqt, "nq": nq, "how": how, "outer_mode": outer_mode, "inner_mode": inner_mode, "vseed": vseed}
    c.features.update(how=how, seq=seqt, nq=nq, modes=outer_mode + inner_mode)
    bucket = lambda k: f"C12|levels|{how}|{k}"

    def comb(p, q, plain, pack):
        if how == "outer+inner":
            return p + q
        if how == "inner+outer":
            return q + p
        if how == "outer_slice+inner":
            return p[1:] + q
        if how == "inner+outer_slice":
            return q + p[:1]
        if how == "plain+outer+inner":
            return plain + p + q
        if how == "outer+inner+plain":
            return p + q + plain
        if how == "outer+outer+inner":
            return p + p + q
        if how == "repack_only":
            return pack([q[0], p[1], p[0], q[-1]])
        return pack([q[0], p[1]]) + p[0:1]

    names = comb(mk(["p0", "p1"]), mk(["q%d" % j for j in range(nq)]), mk(["x"]), mk)
    if len(names) > len(Cs):
        return Outcome("numpy_rejects", kind="too many members", sample=sample)

    def inner(p, q):
        pack = ab_tuple if seqt == "tuple" else ab_list
        members = comb(p, q, mk([extra]), pack)
        S = 0.0
        for i, m in enumerate(members):
            S = S + anp.sum(Cs[i] * m)
        return 0.5 * S * S

    def h(p):
        if inner_mode == "r":
            gq = autograd.grad(inner, 1)(p, q0)
        else:
            # forward mode, one unit direction per entry of q: the gradient assembled column by column
            cols = []
            for j in range(nq):
                col = []
                for k in range(3):
                    tang = mk([onp.eye(3)[k] * (1.0 if jj == j else 0.0) for jj in range(nq)])
                    col.append(autograd.make_jvp(lambda q_: inner(p, q_))(q0)(tang)[1])
                cols.append(col)
            gq = cols
        tot = 0.0
        for j in range(nq):
            if inner_mode == "r":
                tot = tot + anp.sum(Ws[j] * gq[j])
            else:
                for k in range(3):
                    tot = tot + Ws[j][k] * gq[j][k]
        return tot

    K = sum(float(onp.sum(Ws[j] * Cs[i])) for i, nm in enumerate(names) for j in range(nq) if nm == "q%d" % j)
    want = [sum((Cs[i] for i, nm in enumerate(names) if nm == "p%d" % k), onp.zeros(3)) * K for k in range(2)]
    try:
        if outer_mode == "r":
            got = autograd.grad(h)(p0)
            got = [onp.asarray(got[0]), onp.asarray(got[1])]
        else:
            got = [onp.zeros(3), onp.zeros(3)]
            for k in range(2):
                for e in range(3):
                    tang = mk([onp.eye(3)[e] * (1.0 if kk == k else 0.0) for kk in range(2)])
                    got[k][e] = float(autograd.make_jvp(h)(p0)(tang)[1])
    except Exception as e:
        if not from_autograd(e):
            raise
        if isinstance(e, NotImplementedError) and "not defined" in str(e):
            return raised(e, "levels", sample=sample)
        return fail("unexpected_exception", describe_exc(e), bucket("exception"), sample=sample)
    for k in range(2):
        if got[k].shape != (3,) or not onp.allclose(got[k], want[k], rtol=1e-11, atol=1e-12):
            return fail("wrong_value", f"d/dp[{k}] of the inner gradient is {got[k].tolist()}, expected {want[k].tolist()} (members of the combined sequence: {list(names)})",
                        bucket("value"), sample=sample)
    return ok(nontrivial=True, key=json.dumps([seqt, nq, how, outer_mode, inner_mode]), labels=["levels", "how=" + how, "modes=" + outer_mode + inner_mode], sample=sample)


def mutated_body(c):
    """A caller keeps ONE list / dict of parameters, differentiates, replaces a leaf of that very object in place by a value of another shape
    (vector -> scalar, (2, 3) -> (3,), ...), and differentiates again: the second gradient is the gradient at the CURRENT contents - every leaf
    of it has the shape of the current leaf and the value k_i cos(leaf_i)."""
    import autograd
    import autograd.numpy as anp

    vseed = c.seed()
    kind = c.choice(["list", "dict", "tuple_of_list", "dict_of_list", "list_of_dict"])
    nleaf = c.int(2, 4)
    shapes_pool = [(), (3,), (2, 3), (1, 3), (1,)]
    shapes = [shapes_pool[c.int(0, len(shapes_pool) - 1)] for _ in range(nleaf)]
    rep_at = c.int(0, nleaf - 1)
    new_shape = c.choice([s_ for s_ in shapes_pool if s_ != shapes[rep_at]])
    access = c.choice(["index", "iterate"])
    other_between = c.chance(1, 4)
    rounds = c.int(1, 2)
    arrs, _ = values.generic(vseed, shapes + [new_shape, (2,)], -1.4, 1.4)
    leaves = [float(a) if a.shape == () and vseed % 2 else a for a in arrs[:nleaf]]
    new_leaf = arrs[nleaf]
    ks = [0.5 + 0.75 * i for i in range(nleaf)]
    sample = {"kind": kind, "shapes": [list(s_) for s_ in shapes], "replace": rep_at, "new_shape": list(new_shape), "access": access, "other_between": other_between, "vseed": vseed}
    c.features.update(kind=kind, access=access, other_between=other_between, old_shape=list(shapes[rep_at]), new_shape=list(new_shape))
    bucket = lambda k: f"C12|mutated|{kind}|{k}"
    keys = ["w", "b", "z", "a"][:nleaf]
    if kind == "list":
        params, inner = list(leaves), None
    elif kind == "dict":
        params, inner = dict(zip(keys, leaves)), None
    elif kind == "tuple_of_list":
        inner = list(leaves)
        params = (inner, 2.5)
    elif kind == "dict_of_list":
        inner = list(leaves)
        params = {"layers": inner, "scale": 2.5}
    else:
        inner = dict(zip(keys, leaves))
        params = [inner, 2.5]
    holder = params if inner is None else inner

    def get_inner(v):
        if kind in ("list", "dict"):
            return v
        if kind == "tuple_of_list":
            return v[0]
        if kind == "dict_of_list":
            return v["layers"]
        return v[0]

    def f(v):
        h_ = get_inner(v)
        tot = 0.0
        if isinstance(holder, dict):
            if access == "index":
                for i, k_ in enumerate(keys):
                    tot = tot + ks[i] * anp.sum(anp.sin(h_[k_]))
            else:
                for i, k_ in enumerate(h_):
                    tot = tot + ks[keys.index(k_)] * anp.sum(anp.sin(h_[k_]))
        else:
            if access == "index":
                for i in range(nleaf):
                    tot = tot + ks[i] * anp.sum(anp.sin(h_[i]))
            else:
                for i, leaf in enumerate(h_):
                    tot = tot + ks[i] * anp.sum(anp.sin(leaf))
        return tot

    def current():
        return [holder[k_] for k_ in keys] if isinstance(holder, dict) else list(holder)

    def check(tag):
        g = autograd.grad(f)(params)
        gl = get_inner(g)
        gl = [gl[k_] for k_ in keys] if isinstance(holder, dict) else list(gl)
        for i, (gv, lv) in enumerate(zip(gl, current())):
            want = ks[i] * onp.cos(onp.asarray(lv))
            if onp.shape(gv) != onp.shape(lv):
                return fail("wrong_space", f"{tag}: gradient leaf {i} has shape {onp.shape(gv)}, the argument's leaf has shape {onp.shape(lv)}", bucket("shape"), sample=sample)
            if not onp.allclose(onp.asarray(gv), want, rtol=1e-12, atol=1e-13):
                return fail("wrong_value", f"{tag}: gradient leaf {i} is {onp.asarray(gv).tolist()}, expected {want.tolist()}", bucket("value"), sample=sample)
        return None

    try:
        err = check("first differentiation")
        if err:
            return err
        for r in range(rounds):
            val = new_leaf if r == 0 else leaves[rep_at]
            if isinstance(holder, dict):
                holder[keys[rep_at]] = val
            else:
                holder[rep_at] = val
            if other_between:
                autograd.grad(lambda t: anp.sum(t[0] * t[1]))([arrs[nleaf + 1], 2.0])
            err = check(f"after replacing leaf {rep_at} in place (round {r})")
            if err:
                return err
    except Exception as e:
        if not from_autograd(e):
            raise
        return fail("unexpected_exception", describe_exc(e), bucket("exception"), sample=sample)
    return ok(nontrivial=True, key=json.dumps([kind, [list(s_) for s_ in shapes], rep_at, list(new_shape), access, other_between]), labels=["mutated", "kind=" + kind], sample=sample)


PROP = Prop("C12", [
    Test("programs", program_body, quick=8000, thorough=40000, shard_size=250),
    Test("flatten", flatten_body, quick=2500, thorough=10000, shard_size=200),
    Test("levels", levels_body, quick=600, thorough=4000, shard_size=100),
    Test("mutated_between", mutated_body, quick=800, thorough=5000, shard_size=200),
], RULE, assumptions=[
    "leaf routing computed by running the same access program on plain Python containers of integer ids",
])
