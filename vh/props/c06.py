"""C06 — differentiation is value-transparent: primal results identical to plain NumPy."""
import hashlib
import json
from functools import partial

import numpy as onp

from .. import values
from ..case import Outcome, fail, ok, raised
from ..derivcheck import bucket_of, key_of
from ..engine import Prop, Test
from ..templates import TEMPLATES
from ..templates.core import instantiate, namespaces

RULE = (
    "(a) every template case evaluated under a generated mode stack of depth 1-3 (make_vjp / make_jvp nested, so the argument "
    "is a box of a box ...) through make_vjp(f)(x)[1], make_jvp(f)(x)(v)[0], value_and_grad(f)(x)[0] and grad_and_aux(f)(x)[1]; "
    "(b) argument forms of the re-implemented wrappers (array, concatenate, vstack, hstack, column_stack, stack, append, select, "
    "r_, c_, reshape/astype/flatten methods, linalg named tuples, split lists ...) under the same stacks; (c) "
    "autograd.builtins.isinstance/type on boxes of every carrier and container kind. Oracle (differential, exact): the value "
    "equals what raw NumPy returns for the same plain call - same Python structure, shape, dtype, bitwise-equal data; a "
    "recursive scanner finds any Box in any returned object; inputs are hashed before and after. Non-trivial = the call went "
    "through at least one primitive under an active trace (autograd did not raise); distinct by (template/form, features, stack, api)."
    ' Forms added later: equality of traced containers, lists mixing low-precision typed elements with Python literals; iteration order of traced dicts; replays of an autograd.misc.const_graph wrapper.'
)


def has_box(o, depth=0):
    from autograd.tracer import isbox

    if isbox(o):
        return True
    if isinstance(o, onp.ndarray) and o.dtype == object:
        return any(has_box(e, depth + 1) for e in o.ravel())
    if isinstance(o, (list, tuple)):
        return any(has_box(e, depth + 1) for e in o)
    if isinstance(o, dict):
        return any(has_box(e, depth + 1) for e in o.values())
    return False


def same(a, b, ulps=0):
    """Exact structural / dtype / bitwise equality (NaN-aware).  Returns None if equal else a description.

    ulps > 0 is used only for Python-operator templates on scalar carriers, where the plain expression is evaluated by
    Python's / NumPy's scalar arithmetic (reflected dispatch, libm pow) and autograd routes it through the array ufunc:
    the two are different correctly-rounded-to-1-ulp algorithms, not a NumPy call that autograd re-executes."""
    if isinstance(a, (list, tuple)) or isinstance(b, (list, tuple)):
        if type(a) is not type(b):
            return f"structure {type(a).__name__} vs {type(b).__name__}"
        if len(a) != len(b):
            return f"length {len(a)} vs {len(b)}"
        for i, (x, y) in enumerate(zip(a, b)):
            d = same(x, y)
            if d:
                return f"[{i}] {d}"
        return None
    if isinstance(a, dict) or isinstance(b, dict):
        if type(a) is not type(b) or sorted(a) != sorted(b):
            return "dict structure"
        for k in a:
            d = same(a[k], b[k])
            if d:
                return f"[{k!r}] {d}"
        return None
    if type(a) is not type(b):
        # a Python float and np.float64 (a float subclass with the same bits) are the same plain value, likewise complex:
        # Python operators on Python scalars are not NumPy calls, and autograd routes them through NumPy ufuncs
        scalarish = (float, complex, onp.floating, onp.complexfloating)
        if not (isinstance(a, scalarish) and isinstance(b, scalarish) and onp.asarray(a).dtype == onp.asarray(b).dtype):
            return f"type {type(a).__name__} vs {type(b).__name__}"
    a_, b_ = onp.asarray(a), onp.asarray(b)
    if a_.shape != b_.shape:
        return f"shape {a_.shape} vs {b_.shape}"
    if a_.dtype != b_.dtype:
        return f"dtype {a_.dtype} vs {b_.dtype}"
    if a_.dtype == object:
        return None if all(same(x, y) is None for x, y in zip(a_.ravel(), b_.ravel())) else "object entries"
    if not isinstance(b, (onp.ndarray, onp.generic)) and isinstance(b, (float, complex)):
        # the plain result was computed by Python's own float/complex arithmetic (not a NumPy call): equal up to 4 ulp
        if abs(complex(a) - complex(b)) <= 4 * onp.finfo(float).eps * max(abs(complex(b)), 1e-300):
            return None
    if ulps and a_.dtype.kind in "fc" and a_.shape == () and b_.shape == ():
        if abs(complex(a_) - complex(b_)) <= ulps * onp.finfo(float).eps * max(abs(complex(b_)), 1e-300):
            return None
    if a_.dtype.kind == "c" and a_.shape == b_.shape and a_.size:
        # NumPy's complex multiply/square kernels are not bitwise reproducible between calls on the same values (the SIMD
        # and scalar code paths, chosen by buffer alignment / scalar-vs-array dispatch, round differently by 1 ulp; observed
        # with raw np.square on one complex128 value), so complex results are compared to 4 ulp per component
        eps = onp.finfo(a_.real.dtype).eps
        mag = onp.maximum(onp.abs(b_), 1e-300)
        if onp.all((onp.abs(a_ - b_) <= 4 * eps * mag) | (onp.isnan(a_) & onp.isnan(b_))):
            return None
    if not onp.array_equal(a_, b_, equal_nan=a_.dtype.kind in "fc"):
        return f"values differ (max abs diff {float(onp.max(onp.abs(a_.astype(complex) - b_.astype(complex)))):.3e})"
    return None


def digest(xs):
    h = hashlib.sha256()
    for x in xs:
        a = onp.asarray(x)
        h.update(str(a.dtype).encode() + str(a.shape).encode() + a.tobytes())
    return h.hexdigest()


def nest(f, x, stack, vseed):
    """Evaluate f at x under the mode stack; returns the primal value seen at the outermost level."""
    import autograd

    if not stack:
        return f(x)
    m = stack[0]
    inner = lambda y: nest(f, y, stack[1:], vseed)
    if m == "r":
        return autograd.make_vjp(inner)(x)[1]
    v = _tangent_like(x, vseed)
    return autograd.make_jvp(inner)(x)(v)[0]


def _tangent_like(x, vseed):
    from autograd.tracer import getval

    xv = getval(x)
    xa = onp.asarray(xv)
    v = values.cdirection(vseed, xa.shape, 61) if xa.dtype.kind == "c" else values.direction(vseed, xa.shape, 61)
    if xa.ndim == 0 and not isinstance(xv, onp.ndarray):
        return complex(v) if xa.dtype.kind == "c" else float(v)
    return v


def draw_stack(c):
    d = c.int(1, 3)
    return "".join("r" if c.bool() else "f" for _ in range(d))


def compare(got, want, inputs_before, inputs, mk_bucket, key, labels, sample, ulps=0):
    if has_box(got):
        return fail("tracer_leak", "a returned value contains a tracer object", mk_bucket("tracer_leak"), sample=sample)
    d = same(got, want, ulps)
    if d:
        return fail("primal_mismatch", f"value under differentiation differs from plain NumPy: {d}", mk_bucket("primal_mismatch"), sample=sample)
    if digest(inputs) != inputs_before:
        return fail("input_mutated", "a user-supplied input was modified", mk_bucket("input_mutated"), sample=sample)
    return ok(nontrivial=True, key=key, labels=labels, sample=sample)


def _body(tdef, case):
    import autograd

    call = tdef.draw(case)
    inst = instantiate(case, call, allow_complex=case.chance(1, 4))
    NP, AG = namespaces()
    stack = draw_stack(case)
    api = case.choice(["stack", "value_and_grad", "grad_and_aux"])
    sample = dict(inst.describe(), stack=stack, api=api)
    x = inst.x_carried()
    try:
        want = inst.f(NP)(x)
    except Exception as e:
        return Outcome("numpy_rejects", detail=str(e)[:100], sample=sample)
    before = digest(inst.xs)
    f = inst.f(AG)
    labels = ["stack=" + stack, "api=" + api]
    case.features.update(stack=stack, api=api)
    mk_bucket = lambda kind: bucket_of(inst, "value", kind)
    try:
        if api == "stack":
            got = nest(f, x, stack, inst.vseed)
        elif api == "value_and_grad":
            wa = onp.asarray(want)
            if wa.size != 1 or wa.dtype.kind != "f":
                got = nest(f, x, stack, inst.vseed)
            else:
                got = nest(lambda y: autograd.value_and_grad(f)(y)[0], x, stack[1:], inst.vseed)
        else:
            # aux carries the primal through grad_and_aux untouched
            got = nest(lambda y: autograd.grad_and_aux(lambda z: (AG.sum(AG.real(f(z))), f(z)))(y)[1], x, stack[1:], inst.vseed)
    except Exception as e:
        return raised(e, "value", labels=labels, sample=sample)
    scalar_op = inst.call.name.startswith(("op:", "u:op_")) and all(len(sh) == 0 for sh in inst.call.shapes)
    return compare(got, want, before, inst.xs, mk_bucket, key_of(inst, stack + api), labels, sample, ulps=4 if scalar_op else 0)


# ---- argument forms / result structures -------------------------------------------------------------------------
def forms():
    c = onp.array([[0.3, -1.2, 0.7], [1.1, 0.45, -0.6]])
    F = {
        "array nested": lambda m, x: m.array([[x[0, 0], 1.0], [2.0, x[1, 1]]]),
        "array of rows": lambda m, x: m.array([x[0], x[1], c[0]]),
        "array ndmin": lambda m, x: m.array(x, ndmin=4),
        "array dtype": lambda m, x: m.array([x[0], x[1]], dtype=onp.float32),
        "array tuple": lambda m, x: m.array((x[0, 0], x[0, 1])),
        "array scalar": lambda m, x: m.array(x[0, 0]),
        "array copy": lambda m, x: m.array(x),
        "concat ax-1": lambda m, x: m.concatenate([x, c], axis=-1),
        "concat axNone": lambda m, x: m.concatenate([x, c], axis=None),
        "concat tuple": lambda m, x: m.concatenate((x, c, x)),
        "concat 1": lambda m, x: m.concatenate([x]),
        "vstack 1d": lambda m, x: m.vstack([x[0], c[1]]),
        "vstack 0d": lambda m, x: m.vstack([x[0, 0], 1.0]),
        "vstack 2d": lambda m, x: m.vstack((x, c)),
        "hstack 0d": lambda m, x: m.hstack([x[0, 0], 1.0]),
        "hstack 2d": lambda m, x: m.hstack([x, c]),
        "hstack tuple1": lambda m, x: m.hstack((x[0],)),
        "column_stack": lambda m, x: m.column_stack([x[:, 0], c]),
        "column_stack 0d": lambda m, x: m.column_stack([x[0, 0], 2.0]),
        "column_stack 1d": lambda m, x: m.column_stack((x[0], x[1])),
        "stack ax-1": lambda m, x: m.stack([x, c], axis=-1),
        "stack ax1": lambda m, x: m.stack((x, c), 1),
        "stack ax-3": lambda m, x: m.stack((x, c), -3),
        "stack scalars": lambda m, x: m.stack([x[0, 0], 3.0]),
        "append": lambda m, x: m.append(x, c),
        "append axis": lambda m, x: m.append(x, c, axis=1),
        "append axis-1": lambda m, x: m.append(x, c, axis=-1),
        "append scalar": lambda m, x: m.append(x, 2.0),
        "select": lambda m, x: m.select([c > 0.5, c > 0], [x, 2 * x], default=-1.0),
        "select default": lambda m, x: m.select([c > 0.5], [x]),
        "r_": lambda m, x: m.r_[x[0], c[0], 1.0],
        "r_ slice": lambda m, x: m.r_[x[0], 0:3],
        "r_ 2d": lambda m, x: m.r_[x, c],
        "r_ str": lambda m, x: m.r_["-1", x, c],
        "r_ str2": lambda m, x: m.r_["0,2", x[0], c[0]],
        "c_": lambda m, x: m.c_[x[0], c[0]],
        "c_ 2d": lambda m, x: m.c_[x, c],
        "reshape m": lambda m, x: x.reshape(3, 2),
        "reshape m tuple": lambda m, x: x.reshape((3, 2)),
        "reshape m -1": lambda m, x: x.reshape(-1),
        "reshape F": lambda m, x: x.reshape((3, 2), order="F"),
        "reshape star F": lambda m, x: x.reshape(3, 2, order="F"),
        "reshape fn F": lambda m, x: m.reshape(x, (3, 2), order="F"),
        "ravel F": lambda m, x: m.ravel(x, order="F"),
        "flatten": lambda m, x: x.flatten(),
        "flatten F": lambda m, x: x.flatten("F"),
        "astype": lambda m, x: x.astype(onp.float32),
        "astype complex": lambda m, x: x.astype(complex),
        "astype then K": lambda m, x: m.ravel(x.astype(onp.float32), order="K"),
        "astype then A": lambda m, x: m.reshape(x.astype(complex), (3, 2), order="A"),
        "ravel K": lambda m, x: m.ravel(x * 2.0, order="K"),
        "ravel A": lambda m, x: m.ravel(x, order="A"),
        "T then K": lambda m, x: m.ravel(x.T, order="K"),
        "T": lambda m, x: x.T,
        "x.max": lambda m, x: x.max(1),
        "x.sum kw": lambda m, x: x.sum(axis=0, keepdims=True),
        "x.mean": lambda m, x: x.mean(),
        "x.std": lambda m, x: x.std(axis=-1, ddof=1),
        "x.clip": lambda m, x: x.clip(-0.5, 0.5),
        "x.cumsum": lambda m, x: x.cumsum(axis=1),
        "x.diagonal": lambda m, x: x.diagonal(),
        "x.squeeze": lambda m, x: x[:, :1].squeeze(),
        "x.swapaxes": lambda m, x: x.swapaxes(0, 1),
        "x.trace": lambda m, x: x.trace(),
        "x.take": None,
        "x.repeat": lambda m, x: x.repeat(2, axis=0),
        "x.prod": lambda m, x: x.prod(axis=0),
        "x.var": lambda m, x: x.var(),
        "len": lambda m, x: float(len(x)) * x,
        "shape": lambda m, x: x * float(x.shape[1] + x.ndim + x.size),
        "iter": lambda m, x: [r for r in x][1],
        "ops": lambda m, x: (2.0 - x) / (x ** 2 + 1) % 0.7,
        "rops": lambda m, x: 2.0 ** x + (1.5 / (x * x + 1.0)) - (0.5 * x),
        "neg abs": lambda m, x: -abs(x),
        "matmul": lambda m, x: x @ c.T,
        "rmatmul": lambda m, x: c.T @ x,
        "eq": lambda m, x: x == c,
        "lt": lambda m, x: (x < c, x >= 0.0, x != c),
        "cmp all": lambda m, x: (x <= c, x > c, c >= x, c < x, x >= c, 0.25 <= x, x <= x),
        "bool branch": lambda m, x: (x * 2.0 if x[0, 0] else x * 3.0) + (1.0 if x[1, 2] > 0.1 else -1.0) + (0.0 if not x[0, 1] else 0.5),
        "bool all": lambda m, x: x if (x == x).all() and bool(m.any(x > -9.0)) else -x,
        "props": lambda m, x: x * float(x.ndim + x.size + len(x.shape) + x.T.shape[0]) + (1.0 if x.dtype == onp.float64 else 0.0),
        "min method": lambda m, x: _tup(x.min(axis=1), x.max(), x.ptp(axis=0) if hasattr(onp.ndarray, "ptp") else x.min(), x.cumprod(axis=1), x.compress([True, False, True], axis=1)),
        "int methods": lambda m, x: x * float(x.argmax() + 2 * x.argmin(axis=0)[1] + 4 * x.all() + 8 * x.any(axis=1)[0] + 16 * x.argsort(axis=1)[1, 0] + 32 * x[0].searchsorted(0.2)
                                              + 64 * x[0].argpartition(1)[1] + 128 * x.nonzero()[0].size),
        "ravel method": lambda m, x: _tup(x.ravel(), x.transpose(), x.transpose((1, 0)), x.real, x.imag),
        "conj method": lambda m, x: x.conj(),
        "transpose star": lambda m, x: x.transpose(1, 0),
        "dot method": lambda m, x: x.dot(c.T),
        "round method": lambda m, x: _tup(x.round() * x, m.sort(x[1]), x.copy() if hasattr(x, "copy") else x),
        "getitem forms": lambda m, x: _tup(x[0], x[:, 1], x[..., -1], x[None, 1, ::2], x[[0, 1], [2, 0]], x[x > 0.1], x[m.array([1, 0])]),
        "slogdet": lambda m, x: m.linalg.slogdet(x @ x.T + m.eye(2)),
        "eigh": lambda m, x: m.linalg.eigh(x @ x.T),
        "svd": lambda m, x: m.linalg.svd(x, full_matrices=False),
        "svd s": lambda m, x: m.linalg.svd(x, compute_uv=False),
        "split": lambda m, x: m.split(x, 3, axis=1),
        "array_split": lambda m, x: m.array_split(x, 2, axis=1),
        "gradient": lambda m, x: m.gradient(x),
        "where1": lambda m, x: m.where(x > 0),
        "where3": lambda m, x: m.where(c > 0, x, 0.0),
        "sort": lambda m, x: m.sort(x[0]),
        "argsort": lambda m, x: m.argsort(x[0]),
        "floor": lambda m, x: m.floor(x) * x,
        "mean": lambda m, x: m.mean(x),
        "sum scalar": lambda m, x: m.sum(x[0, 0]),
        "float64 mul": lambda m, x: onp.float64(2.0) * x,
        "ndarray add": lambda m, x: c + x,
        "ndarray rsub": lambda m, x: c - x,
        "ndarray rpow": lambda m, x: (c * c + 1.0) ** x,
        "tile": lambda m, x: m.tile(x, (2, 1)),
        "pad": lambda m, x: m.pad(x, 1, "constant"),
        "einsum": lambda m, x: m.einsum("ij,kj->ik", x, c),
        "tensordot": lambda m, x: m.tensordot(x, c, axes=([1], [1])),
        "fft": lambda m, x: m.fft.fft(x, axis=0),
        "kron": lambda m, x: m.kron(x, c[:1]),
        "outer": lambda m, x: m.outer(x[0], c[1]),
        "atleast_3d": lambda m, x: m.atleast_3d(x),
        "expand_dims": lambda m, x: m.expand_dims(x, (0, -1)),
        "full": lambda m, x: m.full((2, 2), x[0, 0]),
        "linspace": lambda m, x: m.linspace(x[0, 0], x[1, 1], 4),
        "zeros_like": lambda m, x: m.zeros_like(x) + m.ones_like(x),
        "isnan": lambda m, x: m.isnan(x),
        # autograd's own containers holding traced values (plain + traced, traced + plain, slicing, dict access)
        "tuple radd": lambda m, x: (1.0, 2.0) + _ab().tuple((x[0], x[1, 1])),
        "tuple add": lambda m, x: _ab().tuple((x[0], x[1, 1])) + (1.0, 2.0),
        "list radd": lambda m, x: [c[0]] + _ab().list([x[0], x[1]]),
        "tuple add tuple": lambda m, x: _ab().tuple((x[0],)) + _ab().tuple((x[1], 3.0)),
        "tuple slice": lambda m, x: _ab().tuple((x[0], x[1], x[0, 0]))[::-1][:2],
        "dict values": lambda m, x: _ab().list(_ab().dict({"a": x[0], "b": x[1] * 2}).values()),
        "dict get": lambda m, x: _ab().dict({"a": x[0], "b": x[1] * 2}).get("b"),
        "nested containers": lambda m, x: _ab().tuple((_ab().list([x[0], 1.0]), _ab().dict({"k": x[1]}))),
        "seq contains": lambda m, x: x * (1.0 * (3.0 in _ab().tuple((x[0, 0], 3.0))) + 2.0 * (4.0 in _ab().list([x[0, 0], 3.0])) + 4.0 * len(_ab().tuple((x[0], 2.0, x[1])))),
        "seq eq": lambda m, x: x * (1.0 * (_ab().tuple((x[0, 0] * 0 + 2.0, 3.0)) == (2.0, 3.0)) + 2.0 * (_ab().tuple((x[0, 0] * 0 + 2.0, 3.0)) != (2.0, 3.0))
                                    + 4.0 * (_ab().list([x[0, 0] * 0 + 2.0, 3.0]) == [2.0, 4.0]) + 8.0 * (_ab().list([x[0, 0] * 0 + 2.0]) != [2.0, 4.0])
                                    + 16.0 * (_ab().tuple((x[0, 0] * 0 + 2.0, 3.0)) == _ab().tuple((x[1, 1] * 0 + 2.0, 3.0))) + 32.0 * ((2.0, 3.0) == _ab().tuple((x[0, 0] * 0 + 2.0, 3.0)))),
        "dict eq": lambda m, x: x * (1.0 * (_ab().dict({"a": x[0, 0] * 0 + 2.0, "b": 3.0}) == {"b": 3.0, "a": 2.0}) + 2.0 * (_ab().dict({"a": x[0, 0] * 0 + 2.0}) != {"a": 2.0})
                                     + 4.0 * (_ab().dict({"a": x[0, 0] * 0 + 2.0}) == {"a": 2.5}) + 8.0 * ({"a": 2.0} == _ab().dict({"a": x[0, 0] * 0 + 2.0}))),
        # lists mixing low-precision NumPy-typed (or traced) elements with Python literals: the constructor's own type discovery, not promotion rules
        "array mixed f32": lambda m, x: m.array([x.astype(onp.float32)[0, 0], 0.1, 2]),
        "array mixed f32 const": lambda m, x: m.array([onp.float32(1.5), 0.1]) * x[0, 0],
        "array mixed c64": lambda m, x: m.array([(x[0, 0] * (1.0 + 2.0j)).astype(onp.complex64), 0.1 + 0.3j]),
        "array mixed f16 nested": lambda m, x: m.array([[x.astype(onp.float16)[0, 0], 0.1], [1, x.astype(onp.float16)[1, 1]]]),
        # constants with special values (exact zeros in a base / an argument of abs; negative positions in an int64 index array): the
        # rules that treat them specially must leave the constants - and the values they have handed out - as they are (checked below)
        "power zero base": lambda m, x: m.sum(m.power(_CZ, 1.0 + 0.1 * x)),
        "pow op zero base": lambda m, x: m.sum(_CZ ** (1.5 + 0.1 * x)),
        "abs with zeros": lambda m, x: m.abs(x * _CZ),
        "int64 negative index array": lambda m, x: m.ravel(x)[_IDX64] * 2.0,
        "int64 negative index array 2": lambda m, x: m.sum(m.ravel(m.sin(x))[_IDX64]) + m.ravel(x)[_IDX64[:2]][0],
        "seq index": lambda m, x: float(_ab().list([x[0, 0], 3.0, 7.0]).index(7.0)) * x,
        "seq iter": lambda m, x: _ab().list([2.0 * e for e in _ab().tuple((x[0], x[1, 1], 1.5))]),
        "dict queries": lambda m, x: x * float(len(_ab().dict({"a": x[0], "b": 1.0})) + 4 * ("a" in _ab().dict({"a": x[0]})) + 8 * ("z" in _ab().dict({"a": x[0]}))
                                               + 16 * (sorted(_ab().dict({"b": x[0], "a": x[1]}).keys()) == ["a", "b"])
                                               + 32 * ([k for k in _ab().dict({"b": x[0], "a": x[1]})] == ["b", "a"])),
        "dict items": lambda m, x: _ab().list([_tup(k, v * 2.0) for k, v in sorted(_ab().dict({"b": x[0], "a": x[1, 1]}).items())]),
        # iteration order of a traced dict is its insertion order (keys inserted in non-sorted order)
        "dict order values": lambda m, x: sum(w_ * v for w_, v in zip((1.0, 10.0, 100.0), _ab().dict({"w": x[0], "b": x[1], "a": x[0] * 2.0}).values())),
        "dict order keys": lambda m, x: x * float(["w", "b", "a"].index(list(_ab().dict({"w": x[0], "b": 1.0, "a": x[1]}).keys())[0]) + 1)
                                             + x[0, 0] * float("".join(k for k in _ab().dict({"z": x[0], "c": x[1], "m": 2.0})) == "zcm"),
        "dict order items": lambda m, x: _ab().list([v * (i + 1.0) for i, (k, v) in enumerate(_ab().dict({"q": x[0], "d": x[1, 1], "k": x[1]}).items())]),
        # autograd.misc.const_graph: the second call of a wrapper replays the recorded graph (non-commutative operations of two traced operands)
        "const_graph replay": lambda m, x: _cgraph(m, x, 2),
        "const_graph third call": lambda m, x: _cgraph(m, x, 3),
        "dict empty": lambda m, x: _tup(_ab().dict({}), _ab().dict(), x[0]),
        "dict kwargs": lambda m, x: _ab().dict(a=x[0], b=2.0),
        "dict pairs": lambda m, x: _ab().dict([("a", x[0]), ("b", x[1, 0])]),
        "tuple empty": lambda m, x: _tup(_ab().tuple(()), _ab().list([]), x[1]),
        "tuple of gen": lambda m, x: _ab().tuple(r * 2.0 for r in x),
        "list of box": lambda m, x: _ab().list(x),
        # exception-driven control flow inside the evaluated function: an inner differentiation fails and is caught
        "caught inner failure r": lambda m, x: _caught(m, x, "r"),
        "caught inner failure f": lambda m, x: _caught(m, x, "f"),
    }
    return {k: v for k, v in F.items() if v is not None}


_CZ = onp.array([[0.0, 1.5, 2.0], [0.5, 0.0, 1.25]])
_IDX64 = onp.array([-1, 0, -1, 2, -6], dtype=onp.int64)
_CONSTS_DIGEST = []


def _ab():
    import autograd.builtins as ab

    return ab


class _Stop(Exception):
    pass


def _caught(m, x, mode):
    import autograd
    import autograd.numpy as anp

    def bad(y):
        z = anp.sin(y) * x[0, 0]
        if z == z:
            raise _Stop()
        return z

    try:
        autograd.grad(bad)(0.5) if mode == "r" else autograd.make_jvp(bad)(0.5)(1.0)
    except _Stop:
        pass
    return m.tanh(x) * 2.0 + x[1, 1]


def _cgraph(m, x, calls):
    body = lambda a, b: (a - b) / (m.exp(b) + 2.0) + m.dot(a, b) * (b ** 2 - a) + m.arctan2(a, b + 3.0)
    if m.__name__ == "numpy":
        return body(x[0], x[1])
    from autograd.misc.tracers import const_graph

    cg = const_graph(body)
    out = None
    for k in range(calls):
        out = cg(x[0] * (1.0 + (calls - 1 - k)), x[1])  # earlier calls at other values of the first operand; the last one at x itself
    return out


def _tup(*a):
    """Results holding several values are returned in autograd's own tuple (plain containers are documented as opaque)."""
    return _ab().tuple(a)


_FORMS = {}


def forms_body(c):
    if not _FORMS:
        _FORMS.update(forms())
    NP, AG = namespaces()
    names = sorted(_FORMS)
    name = names[c.int(0, len(names) - 1)]
    f = _FORMS[name]
    stack = draw_stack(c)
    vseed = c.seed()
    x = values.relayout(values.generic(vseed, [(2, 3)], -1.5, 1.5)[0][0], values.layout_key(vseed, 901))
    x.flags.writeable = False
    sample = {"form": name, "stack": stack, "vseed": vseed}
    try:
        want = f(NP, x)
    except Exception as e:
        return Outcome("numpy_rejects", detail=str(e)[:100], sample=sample)
    before = digest([x])
    c.features.update(form=name, stack=stack)
    if not _CONSTS_DIGEST:
        _CONSTS_DIGEST.append(digest([_CZ, _IDX64]))
    try:
        got = nest(lambda y: f(AG, y), x, stack, vseed)
        # ... and a derivative is actually pulled back / pushed forward once, after which everything handed out so far must be unchanged
        import autograd

        if stack and stack[0] == "r":
            vjp_, y_held = autograd.make_vjp(lambda y: f(AG, y))(x)
            held = digest([y_held]) if isinstance(y_held, onp.ndarray) else None
            try:
                vjp_(onp.ones(onp.shape(y_held)) if isinstance(y_held, onp.ndarray) else 1.0)
            except Exception:
                held = None
            if held is not None and digest([y_held]) != held:
                return fail("primal_mismatch", "the value handed out by make_vjp changed when its VJP function was called", f"C06|form:{name}|value_changed", sample=sample)
    except Exception as e:
        return raised(e, "value", labels=["stack=" + stack], sample=sample)
    if digest([_CZ, _IDX64]) != _CONSTS_DIGEST[0]:
        return fail("primal_mismatch", "a constant captured by the evaluated expression (an array with exact zeros / an int64 index array) was modified: "
                    "the same expression now has another value", f"C06|form:{name}|constant_changed", sample=sample)
    return compare(got, want, before, [x], lambda kind: f"C06|form:{name}|{kind}", json.dumps([name, stack]), ["stack=" + stack, "forms"], sample)


# ---- isinstance / type ---------------------------------------------------------------------------------------------------
def isinstance_body(c):
    import autograd
    import autograd.builtins as ab

    kinds = ["pyfloat", "npfloat64", "array0d", "array", "complex", "carray", "tuple", "list", "dict", "nested"]
    kind = kinds[c.int(0, len(kinds) - 1)]
    stack = draw_stack(c)
    a = onp.array([0.5, -1.5])
    val = {"pyfloat": 0.75, "npfloat64": onp.float64(0.75), "array0d": onp.array(0.75), "array": a, "complex": 0.5 + 1j,
           "carray": a + 1j, "tuple": (a, 0.5), "list": [a, 0.5], "dict": {"k": a, "j": 0.5}, "nested": ([a, (0.5,)], {"z": a})}[kind]
    queries = [float, complex, int, onp.ndarray, tuple, list, dict, onp.float64, (float, onp.ndarray), str]
    # autograd's own container classes stand for the builtin ones in type queries (metaclass __instancecheck__), with either isinstance
    own = [(ab.tuple, tuple), (ab.list, list), (ab.dict, dict), ((ab.tuple, ab.list), (tuple, list))]
    sample = {"kind": kind, "stack": stack}
    want = ([isinstance(val, q) for q in queries] + [isinstance(val, q) for _, q in own] * 2, type(val))
    seen = {}

    def probe(x):
        seen["isinstance"] = ([ab.isinstance(x, q) for q in queries] + [ab.isinstance(x, q) for q, _ in own]
                              + [isinstance(autograd.tracer.getval(x), q) for q, _ in own])
        seen["type"] = ab.type(x)
        return x

    rev_only = kind in ("tuple", "list", "dict", "nested") and "f" in stack
    try:
        if kind in ("tuple", "list", "dict", "nested"):
            # containers: reverse mode only (no JVP rules needed for the identity, but tangents of containers are awkward)
            f = probe
            for m in stack:
                f = (lambda f_: (lambda y: autograd.make_vjp(f_)(y)[1]))(f)
            f(val)
        else:
            nest(probe, val, stack, 3)
    except Exception as e:
        return raised(e, "isinstance", sample=sample)
    if seen.get("isinstance") != want[0]:
        return fail("primal_mismatch", f"isinstance answers {seen.get('isinstance')} vs plain {want[0]}", f"C06|isinstance:{kind}|isinstance", sample=sample)
    if seen.get("type") is not want[1]:
        return fail("primal_mismatch", f"type answers {seen.get('type')} vs plain {want[1]}", f"C06|isinstance:{kind}|type", sample=sample)
    return ok(nontrivial=True, key=json.dumps([kind, stack]), labels=["isinstance", "stack=" + stack], sample=sample)


def tests():
    out = [Test("val:" + name, partial(_body, t), quick=100 * t.weight, thorough=800 * t.weight, shard_size=200)
           for name, t in sorted(TEMPLATES.items())]
    out.append(Test("forms", forms_body, quick=4000, thorough=30000, shard_size=250))
    out.append(Test("isinstance", isinstance_body, quick=300, thorough=2000, shard_size=150))
    return out


PROP = Prop("C06", tests(), RULE, assumptions=[
    "raw NumPy's return value for the same plain call is the reference (structure, shape, dtype, bits)",
    "plain Python containers holding tracers are documented as opaque and are not generated as outputs",
])
