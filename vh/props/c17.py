"""C17 — user-defined primitives obey the extension contract; checkpoint is transparent."""
import itertools
import json

import numpy as onp

from .. import values
from ..case import Outcome, describe_exc, fail, from_autograd, ok, raised
from ..engine import Prop, Test

RULE = (
    "User primitives of arity 1-5 computing p(a; k) = k * prod_i (a_i + c_i) + sum_i d_i a_i^2 (every partial depends on the other "
    "arguments and on a keyword parameter; multilinear variant for def_linear / 'same'); registration API drawn from defvjp (with None "
    "entries), defvjp(argnums=), defvjp_argnum, defvjp_argnums, defjvp (callables / None / 'same'), defjvp_argnum, def_linear; a "
    "non-empty subset of positions is differentiated; every argument is assigned a trace level (constant, outer variable t1, inner "
    "variable t2, both) in a depth-2 nesting, also the same variable in several positions; rules are written in differentiable "
    "operations and log (ans, args, kwargs). Oracle: closed-form first derivatives and mixed partial d2/dt1 dt2 of the composite, "
    "with None-registered positions contributing zero; logged ans/args/kwargs equal (after getval) the primitive's output and "
    "original argument values; a differentiated position without a rule must raise. Checkpoint: generated multi-argument functions "
    "with kwargs wrapped in autograd.checkpoint - value bitwise equal; reverse-mode derivatives of order 1-3 (incl. mixed partials "
    "between checkpointed arguments) equal to the un-wrapped function to 1e-12. Non-trivial = >= 2 differentiated positions at >= 2 "
    "distinct trace levels, or a None / argnums= / 'same' registration; checkpoint at order >= 2; distinct by configuration."
    ' Positional-style defvjp_argnums / defjvp_argnums rules; checkpointed blocks closing over traced values (same level: open finding) or over a loop variable / a list that changes after the call.'
    ' identity_rule: a primitive linear in its arguments whose rules return the incoming (co)tangent itself, several arguments traced at one level, closed-form first and second derivatives, caller arrays unchanged. identity_view: one argument enters reversed (its rule returns a view of the (co)tangent), operands also consumed before the call, result consumed three times, terms in a drawn order; central / Richardson second differences of the plain function.'
)

VJP_APIS = ["defvjp", "defvjp_none", "defvjp_argnums_kw", "defvjp_argnum", "defvjp_argnums", "no_vjp", "defvjp_argnums_positional"]
JVP_APIS = ["defjvp", "defjvp_none", "defjvp_argnum", "def_linear", "defjvp_same", "none", "defjvp_argnums_positional"]


def poly(args, k, cs, ds):
    prod = k
    for a, c_ in zip(args, cs):
        prod = prod * (a + c_)
    s = prod
    for a, d in zip(args, ds):
        s = s + d * a * a
    return s


def dpoly(i, args, k, cs, ds):
    prod = k
    for j, (a, c_) in enumerate(zip(args, cs)):
        if j != i:
            prod = prod * (a + c_)
    return prod + 2.0 * ds[i] * args[i]


def d2poly(i, j, args, k, cs, ds):
    if i == j:
        return 2.0 * ds[i]
    prod = k
    for l, (a, c_) in enumerate(zip(args, cs)):
        if l not in (i, j):
            prod = prod * (a + c_)
    return prod


def prim_body(c):
    import autograd
    import autograd.numpy as anp
    from autograd.extend import def_linear, defjvp, defjvp_argnum, defjvp_argnums, defvjp, defvjp_argnum, defvjp_argnums, primitive
    from autograd.tracer import getval, isbox

    n = c.int(1, 5)
    vapi = VJP_APIS[c.int(0, len(VJP_APIS) - 1)]
    japi = JVP_APIS[c.int(0, len(JVP_APIS) - 1)]
    linear = japi in ("def_linear", "defjvp_same")
    cs = [0.0] * n if linear else [c.choice([0.5, 1.0, -0.25]) for _ in range(n)]
    ds = [0.0] * n if linear else [c.choice([0.5, -1.0, 0.25]) for _ in range(n)]
    k0 = c.choice([1.5, -0.5, 2.0])
    # registration pattern per position: 'rule' | 'none' | 'missing'
    reg = []
    for i in range(n):
        r = c.int(0, 5)
        reg.append("rule" if r <= 3 else ("none" if r == 4 else "missing"))
    if vapi == "defvjp":
        reg = ["rule" if r == "none" else r for r in reg]
    if vapi in ("defvjp_argnum", "defvjp_argnums", "defvjp_argnums_positional"):
        reg = ["rule"] * n  # these APIs register one maker for all positions
    # trace-level assignment: a_i = alpha_i * t1 + gamma_i * t2 + beta_i
    levels = [c.choice(["const", "outer", "inner", "both"]) for _ in range(n)]
    if all(l == "const" for l in levels):
        levels[c.int(0, n - 1)] = "inner"
    same_var = n >= 2 and c.chance(1, 4)  # the same traced value in two positions
    vseed = c.seed()
    sibling = c.chance(1, 4)  # another primitive wrapping the SAME Python function, with rules of its own, registered first
    (al, ga, be), _ = values.generic(vseed, [(n,), (n,), (n,)], 0.4, 1.6)
    alpha = [al[i] if levels[i] in ("outer", "both") else 0.0 for i in range(n)]
    gamma = [ga[i] if levels[i] in ("inner", "both") else 0.0 for i in range(n)]
    beta = list(be)
    if same_var:
        alpha[1], gamma[1], beta[1] = alpha[0], gamma[0], beta[0]
        levels[1] = levels[0]
    t10, t20 = 0.7, 1.1
    LOG = []

    def raw_p(*args, k=1.0):
        return poly(list(args), k, cs, ds)

    if sibling:
        # rules are registered per primitive object: what is registered for this wrapper (unrelated, wrong derivatives) and for a
        # checkpointed wrapper of the same function must not be visible through p
        q = primitive(raw_p)
        defvjp(q, *[(lambda ans, *args, k=1.0: lambda g: g * 123.456) for _ in range(n)])
        defjvp(q, *[(lambda g, ans, *args, k=1.0: g * 123.456) for _ in range(n)])
        autograd.checkpoint(raw_p)
    p = primitive(raw_p)

    def vjp_maker(i):
        def maker(ans, *args, k=1.0):
            LOG.append(("vjp", i, ans, args, k))
            return lambda g: g * dpoly(i, list(args), k, cs, ds)
        return maker

    def jvp_fun(i):
        def jf(g, ans, *args, k=1.0):
            LOG.append(("jvp", i, ans, args, k))
            return g * dpoly(i, list(args), k, cs, ds)
        return jf

    rule_pos = [i for i in range(n) if reg[i] == "rule"]
    none_pos = [i for i in range(n) if reg[i] == "none"]
    if vapi in ("defvjp", "defvjp_none"):
        # positional makers up to the last registered position; missing positions in between cannot be expressed -> use argnums form
        if any(r == "missing" for r in reg[: max([i for i in range(n) if reg[i] != "missing"] + [-1]) + 1]):
            vapi = "defvjp_argnums_kw"
        else:
            makers = [vjp_maker(i) if reg[i] == "rule" else None for i in range(n) if reg[i] != "missing"]
            defvjp(p, *makers)
    if vapi == "defvjp_argnums_kw":
        idx = [i for i in range(n) if reg[i] != "missing"]
        defvjp(p, *[vjp_maker(i) if reg[i] == "rule" else None for i in idx], argnums=idx)
    elif vapi == "defvjp_argnum":
        defvjp_argnum(p, lambda argnum, ans, args, kwargs: (LOG.append(("vjp", argnum, ans, args, kwargs.get("k", 1.0))),
                                                           lambda g: g * dpoly(argnum, list(args), kwargs.get("k", 1.0), cs, ds))[1])
    elif vapi == "defvjp_argnums":
        def vjp_argnums(argnums, ans, args, kwargs):
            for a_ in argnums:
                LOG.append(("vjp", a_, ans, args, kwargs.get("k", 1.0)))
            return lambda g: tuple(g * dpoly(a_, list(args), kwargs.get("k", 1.0), cs, ds) for a_ in argnums)
        defvjp_argnums(p, vjp_argnums)
    elif vapi == "defvjp_argnums_positional":
        # the style of the in-tree rules written against this API (`if 0 in argnums: ...`): the cotangents are produced position by
        # position in ascending order, relying on the differentiated positions being handed over in ascending order too
        def vjp_argnums_pos(argnums, ans, args, kwargs):
            def vjp(g):
                out = []
                for pos_ in range(n):
                    if pos_ in argnums:
                        LOG.append(("vjp", pos_, ans, args, kwargs.get("k", 1.0)))
                        out.append(g * dpoly(pos_, list(args), kwargs.get("k", 1.0), cs, ds))
                return tuple(out)
            return vjp
        defvjp_argnums(p, vjp_argnums_pos)
    jreg = list(reg)
    if vapi == "no_vjp":
        reg = ["missing"] * n  # no reverse-mode rule registered at all: every reverse-mode request must raise
    if japi == "defjvp":
        jreg = ["rule" if r == "none" else r for r in reg]
    if japi in ("defjvp_argnum", "def_linear", "defjvp_argnums_positional"):
        jreg = ["rule"] * n
    if japi in ("defjvp", "defjvp_none", "defjvp_same"):
        idx = [i for i in range(n) if jreg[i] != "missing"]
        funs = [(("same" if japi == "defjvp_same" else jvp_fun(i)) if jreg[i] == "rule" else None) for i in idx]
        defjvp(p, *funs, argnums=idx)
    elif japi == "defjvp_argnum":
        defjvp_argnum(p, lambda argnum, g, ans, args, kwargs: g * dpoly(argnum, list(args), kwargs.get("k", 1.0), cs, ds))
    elif japi == "def_linear":
        def_linear(p)
    elif japi == "defjvp_argnums_positional":
        def jvp_argnums_pos(argnums, gs, ans, args, kwargs):
            gs = list(gs)
            total = 0.0
            for pos_ in range(n):  # tangents consumed in ascending order of position, as the in-tree rules do (`gs[0]`, `gs[-1]`)
                if pos_ in argnums:
                    total = total + gs.pop(0) * dpoly(pos_, list(args), kwargs.get("k", 1.0), cs, ds)
            return total
        defjvp_argnums(p, jvp_argnums_pos)
    sample = {"n": n, "vapi": vapi, "japi": japi, "reg": reg, "levels": levels, "same_var": same_var, "k": k0, "vseed": vseed}
    bucket = lambda kind: f"C17|prim|{kind}"

    def args_at(t1, t2):
        out = []
        for i in range(n):
            if levels[i] == "const":
                out.append(beta[i])
            elif levels[i] == "outer":
                out.append(alpha[i] * t1 + beta[i])
            elif levels[i] == "inner":
                out.append(gamma[i] * t2 + beta[i])
            else:
                out.append(alpha[i] * t1 + gamma[i] * t2 + beta[i])
        if same_var and levels[0] != "const":
            out[1] = out[0]
        return out

    a0 = [alpha[i] * t10 + gamma[i] * t20 + beta[i] if levels[i] != "const" else beta[i] for i in range(n)]
    y0 = poly(a0, k0, cs, ds)
    traced_inner = [i for i in range(n) if gamma[i] != 0.0]
    traced_outer = [i for i in range(n) if alpha[i] != 0.0]
    labels = ["vapi=" + vapi, "japi=" + japi, f"arity={n}"]

    def outcome_for_missing(e, what):
        if not from_autograd(e):
            raise e
        return None

    # ---- reverse: d/dt2 at fixed t1 -------------------------------------------------------------------------------------
    inner_missing = [i for i in traced_inner if reg[i] == "missing"]
    exp_inner = sum(gamma[i] * dpoly(i, a0, k0, cs, ds) for i in traced_inner if reg[i] == "rule")
    del LOG[:]
    npath = len(traced_inner)
    labels.append("defvjp_path=" + ("1" if npath == 1 else "2" if npath == 2 else ">=3" if npath >= 3 else "0"))
    if traced_inner:
        try:
            val, g_in = autograd.value_and_grad(lambda t2: p(*args_at(t10, t2), k=k0))(t20)
            raised_rev = None
        except Exception as e:
            if not from_autograd(e):
                raise
            raised_rev = e
        if inner_missing:
            if raised_rev is None:
                return fail("silent_missing_rule", f"positions {inner_missing} have no VJP rule but grad returned {g_in!r}", bucket("silent_missing"), sample=sample)
        else:
            if raised_rev is not None:
                return fail("unexpected_exception", "reverse: " + describe_exc(raised_rev), bucket("rev_exception"), sample=sample)
            if abs(float(val) - y0) > 1e-12 * max(1.0, abs(y0)):
                return fail("primal_mismatch", f"{float(val)!r} vs {y0!r}", bucket("primal"), sample=sample)
            if abs(float(g_in) - exp_inner) > 1e-11 * max(1.0, abs(exp_inner)):
                return fail("wrong_value", f"d/dt2 = {float(g_in)!r} expected {exp_inner!r} (None positions contribute zero)", bucket("rev_wrong_value"), sample=sample)
            # what the rules saw
            for kind, i, ans, args, k in LOG:
                if kind != "vjp":
                    continue
                if isbox(ans) or any(isbox(a) for a in args):
                    return fail("rule_saw_box", f"rule {i} received a box at the level being differentiated", bucket("rule_args"), sample=sample)
                if abs(float(ans) - y0) > 1e-12 * max(1.0, abs(y0)) or k != k0 or [float(a) for a in args] != [float(a) for a in a0]:
                    return fail("rule_args", f"rule {i} saw ans={ans!r} args={args!r} k={k!r}; expected {y0!r} {a0!r} {k0!r}", bucket("rule_args"), sample=sample)
            # the VJP function of a graph containing the primitive is reusable (rules built once, applied per call)
            vjp_fn, _ = autograd.make_vjp(lambda t2: p(*args_at(t10, t2), k=k0))(t20)
            for rep in range(3):
                r = float(vjp_fn(1.0))
                if abs(r - exp_inner) > 1e-11 * max(1.0, abs(exp_inner)):
                    return fail("wrong_value", f"call #{rep + 1} of the same VJP function gives {r!r}, expected {exp_inner!r}", bucket("vjp_reuse"), sample=sample)
            called = sorted({i for kind, i, *_ in LOG if kind == "vjp"})
            want_called = sorted(i for i in traced_inner if reg[i] == "rule")
            if called != want_called:
                return fail("rule_routing", f"rules invoked for positions {called}, expected {want_called}", bucket("rule_routing"), sample=sample)
    # ---- nested: d2/dt1 dt2, both reverse --------------------------------------------------------------------------------
    nested_ok = False
    if traced_inner and traced_outer and not inner_missing:
        exp_mixed = 0.0
        for i in traced_inner:
            if reg[i] != "rule":
                continue
            for j in range(n):
                exp_mixed += gamma[i] * d2poly(i, j, a0, k0, cs, ds) * alpha[j]
        try:
            mixed = autograd.grad(lambda t1: autograd.grad(lambda t2: p(*args_at(t1, t2), k=k0))(t20))(t10)
        except Exception as e:
            if not from_autograd(e):
                raise
            if any(reg[j] == "missing" for j in traced_outer):
                # the primitive itself is recorded at the outer level, where a traced position has no rule: raising is the contract
                return raised(e, "nested_missing_rule", labels=labels, sample=sample)
            return fail("unexpected_exception", "nested: " + describe_exc(e), bucket("nested_exception"), sample=sample)
        if abs(float(mixed) - exp_mixed) > 1e-10 * max(1.0, abs(exp_mixed)):
            return fail("wrong_value", f"d2/dt1dt2 = {float(mixed)!r} expected {exp_mixed!r} (arguments must stay boxed at the outer level inside rules)",
                        bucket("nested_wrong_value"), sample=sample)
        nested_ok = True
        labels.append("nested")
    # ---- forward ------------------------------------------------------------------------------------------------------------
    if japi != "none" and traced_inner:
        j_missing = [i for i in traced_inner if jreg[i] == "missing"]
        exp_f = sum(gamma[i] * dpoly(i, a0, k0, cs, ds) for i in traced_inner if jreg[i] == "rule")
        try:
            val, t = autograd.make_jvp(lambda t2: p(*args_at(t10, t2), k=k0))(t20)(1.0)
            err = None
        except Exception as e:
            if not from_autograd(e):
                raise
            err = e
        if j_missing:
            if err is None:
                return fail("silent_missing_rule", f"positions {j_missing} have no JVP rule but make_jvp returned {t!r}", bucket("silent_missing_jvp"), sample=sample)
        elif err is not None:
            return fail("unexpected_exception", "forward: " + describe_exc(err), bucket("fwd_exception"), sample=sample)
        elif abs(float(t) - exp_f) > 1e-11 * max(1.0, abs(exp_f)):
            return fail("wrong_value", f"forward d/dt2 = {float(t)!r} expected {exp_f!r}", bucket("fwd_wrong_value"), sample=sample)
    elif japi == "none" and traced_inner:
        try:
            autograd.make_jvp(lambda t2: p(*args_at(t10, t2), k=k0))(t20)(1.0)
            return fail("silent_missing_rule", "no JVP registered at all but make_jvp returned", bucket("silent_missing_jvp"), sample=sample)
        except Exception as e:
            if not from_autograd(e):
                raise
    distinct_levels = len({levels[i] for i in range(n) if levels[i] != "const"})
    nontrivial = (len(traced_inner) >= 2 and distinct_levels >= 2) or bool(none_pos) or vapi == "defvjp_argnums_kw" or japi in ("defjvp_same", "def_linear") or nested_ok
    c.features.update(n=n, vapi=vapi, japi=japi, path=npath)
    return ok(nontrivial=nontrivial, key=json.dumps([n, vapi, japi, reg, levels, same_var]), labels=labels, sample=sample)


# ---- None-registered positions receive a zero of the ARGUMENT's space -------------------------------------------------------
def none_space_body(c):
    import autograd
    import autograd.numpy as anp
    from autograd.core import vspace
    from autograd.extend import defjvp, defvjp, primitive

    res = c.shape(0, 3)
    sa, sb = c.bshape(res), c.bshape(res)
    which_none = c.int(0, 1)
    api = c.choice(["positional", "argnums"])
    vseed = c.seed()
    (a0, b0), _ = values.generic(vseed, [sa, sb], 0.4, 1.6)
    carrier = c.choice(["array", "pyfloat"])
    if carrier == "pyfloat":
        if sa == ():
            a0 = float(a0)
        if sb == ():
            b0 = float(b0)

    @primitive
    def q(a, b):
        return onp.asarray(a) * onp.asarray(b) + onp.zeros(res)

    def unb(g, like):
        g = onp.asarray(g)
        sh = onp.shape(like)
        while g.ndim > len(sh):
            g = g.sum(axis=0)
        for ax, d in enumerate(sh):
            if d == 1 and g.shape[ax] != 1:
                g = g.sum(axis=ax, keepdims=True)
        return g

    rules = [lambda ans, a, b: lambda g: unb(g * b, a), lambda ans, a, b: lambda g: unb(g * a, b)]
    if api == "positional":
        defvjp(q, *[None if i == which_none else rules[i] for i in range(2)])
    else:
        defvjp(q, None, rules[1 - which_none], argnums=[which_none, 1 - which_none])
    sample = {"res": list(res), "sa": list(sa), "sb": list(sb), "none": which_none, "api": api, "carrier": carrier, "vseed": vseed}
    bucket = lambda k: f"C17|none_space|{k}"
    W = values.direction(vseed, res, 3)
    f = lambda a, b: anp.sum(q(a, b) * W)
    try:
        g_none = autograd.grad(f, which_none)(a0, b0)
        g_both = autograd.grad(f, (0, 1))(a0, b0)
        # the None argument also used elsewhere: contributions must add in ITS space
        g_mix = autograd.grad(lambda a, b: f(a, b) + anp.sum([a, b][which_none] * 2.0), which_none)(a0, b0)
    except Exception as e:
        if not from_autograd(e):
            raise
        return fail("unexpected_exception", describe_exc(e), bucket("exception"), sample=sample)
    arg = [a0, b0][which_none]
    other = [a0, b0][1 - which_none]
    for what, got, want in (("grad wrt the None position", g_none, onp.zeros(onp.shape(arg))),
                            ("multi-argnum grad, None position", g_both[which_none], onp.zeros(onp.shape(arg))),
                            ("None position also used elsewhere", g_mix, 2.0 * onp.ones(onp.shape(arg))),
                            ("multi-argnum grad, other position", g_both[1 - which_none], unb(W * onp.asarray(arg), other))):
        ga = onp.asarray(got)
        if ga.shape != onp.shape(want) or not onp.allclose(ga, want, rtol=1e-12, atol=1e-12):
            return fail("wrong_space", f"{what}: got shape {ga.shape} value {ga.tolist()!r:.120}, expected shape {onp.shape(want)}", bucket("wrong_space"), sample=sample)
    if not vspace(g_none) == vspace(arg):
        return fail("wrong_space", f"zero for the None position lies in {vspace(g_none)!r}, argument in {vspace(arg)!r}", bucket("wrong_space"), sample=sample)
    # forward mode: a None entry of defjvp contributes a zero of the OUTPUT's space
    jrules = [lambda g, ans, a, b: g * b + onp.zeros(res), lambda g, ans, a, b: a * g + onp.zeros(res)]
    defjvp(q, *[None if i == which_none else jrules[i] for i in range(2)])
    va = values.direction(vseed, sa, 4) if sa else float(values.direction(vseed, (), 4))
    vb = values.direction(vseed, sb, 5) if sb else float(values.direction(vseed, (), 5))
    try:
        t_none = autograd.make_jvp(lambda z: q(*([z, b0] if which_none == 0 else [a0, z])))([a0, b0][which_none])([va, vb][which_none])[1]
        t_both = autograd.make_jvp(lambda a, b: q(a, b), (0, 1))(a0, b0)((va, vb))[1]
    except Exception as e:
        if not from_autograd(e):
            raise
        return fail("unexpected_exception", "forward: " + describe_exc(e), bucket("fwd_exception"), sample=sample)
    want_both = (onp.asarray(a0) * onp.asarray(vb) if which_none == 0 else onp.asarray(va) * onp.asarray(b0)) + onp.zeros(res)
    for what, got, want in (("tangent for the None position", t_none, onp.zeros(res)), ("tangent with both positions traced", t_both, want_both)):
        ga = onp.asarray(got)
        if ga.shape != tuple(res) or not onp.allclose(ga, want, rtol=1e-12, atol=1e-12):
            return fail("wrong_space", f"forward mode, {what}: shape {ga.shape} value {ga.tolist()!r:.100}, expected shape {tuple(res)}", bucket("fwd_wrong_space"), sample=sample)
    return ok(nontrivial=sa != res or sb != res, key=json.dumps([list(res), list(sa), list(sb), which_none, api, carrier]),
              labels=["none_space", "api=" + api], sample=sample)


# ---- checkpoint ----------------------------------------------------------------------------------------------------------------
def checkpoint_body(c):
    import autograd
    import autograd.numpy as anp

    nargs = c.int(1, 3)
    form = c.int(0, 5)
    vseed = c.seed()
    kw_scale = c.choice([1.0, 2.0, -0.5])
    n = c.int(1, 3)
    (W,), _ = values.generic(vseed, [(nargs, n)], -1.0, 1.0)

    # form 5: checkpoint applied directly to a derivative operator's result on a primitive (not to a def / lambda)
    dtanh_plain = autograd.elementwise_grad(anp.tanh)
    dtanh = [dtanh_plain]

    def f(*args, scale=1.0):
        u = args[0]
        v = args[1] if nargs > 1 else u * 0.5
        w = args[2] if nargs > 2 else 1.0
        if form == 4:
            # v only selects branches (a mask): the output does not depend on it, although it is a differentiated argument
            return scale * anp.sum(anp.where(v > 0.6, anp.sin(u) * u, u * u * u)) * anp.sum(w * anp.ones(n))
        if form == 5:
            return scale * anp.sum(dtanh[0](u) * v * w)
        if form == 0:
            return scale * anp.sum(anp.sin(u) * v * w)
        if form == 1:
            return scale * anp.sum(anp.exp(0.3 * u * v) + w * u)
        if form == 2:
            return scale * anp.sum(anp.tanh(u) * anp.tanh(v)) * anp.sum(w * anp.ones(n))
        return scale * anp.sum(u * u * v + anp.sin(w * v))

    if form == 5:
        dtanh_ck = autograd.checkpoint(dtanh_plain)

        def ck(*args, **kw):
            dtanh[0] = dtanh_ck
            try:
                return f(*args, **kw)
            finally:
                dtanh[0] = dtanh_plain
    else:
        ck = autograd.checkpoint(f)
    x0 = values.generic(vseed, [(n,)], -1.0, 1.0, stream=3)[0][0]

    def compose(fn):
        def g(x):
            args = [anp.sin(x) * W[0] + x, x * x * W[1 % nargs] + 0.5, anp.cos(x) + W[2 % nargs]][:nargs]
            return fn(*args, scale=kw_scale) if kw_scale != 1.0 else fn(*args)
        return g

    g_plain, g_ck = compose(f), compose(ck)
    closure = c.int(0, 11)
    closure = closure if closure <= 3 else 0
    if closure == 3:
        # checkpointed blocks created in a loop, each closing over the LOOP VARIABLE (and a list that grows afterwards): every block is the
        # function it was when it was applied
        Ks = [0.7, -1.3, 0.4]

        def g_loop(x, wrap):
            h = x * x + 0.25
            later = [1.0]
            for i in range(c_loop_n):
                blk = (lambda v_: anp.tanh(v_ * Ks[i] * W[0]) + v_ * len(later))
                blk = autograd.checkpoint(blk) if wrap else blk
                h = blk(h)
            i = 0  # noqa: F841  (the loop variable lives on, and changes, after the blocks were applied)
            later.extend([2.0, 3.0])
            return anp.sum(h * anp.sin(x))

        c_loop_n = c.int(2, 3)
        g_plain, g_ck = (lambda x: g_loop(x, False)), (lambda x: g_loop(x, True))
    if closure == 1:
        # the checkpointed function is defined INSIDE the differentiated function and closes over a value traced at the same level (a block
        # that closes over the parameters being differentiated, applied to an activation that depends on them too)
        def g_closure(x, wrap):
            p_ = anp.sin(x) * W[0] + 0.5
            block = (lambda h: anp.tanh(h * p_) + h)
            block = autograd.checkpoint(block) if wrap else block
            return anp.sum(block(x * x + 0.25) * W[0])

        g_plain, g_ck = (lambda x: g_closure(x, False)), (lambda x: g_closure(x, True))
    elif closure == 2:
        # the closed-over value is traced at an OUTER level only: the checkpointed block is differentiated (inner level) with respect to an
        # activation that does not depend on x, and the result is differentiated with respect to x through the closed-over value
        h0 = values.direction(vseed, (n,), 9) * 0.7

        def g_outer(x, wrap):
            p_ = anp.sin(x) * W[0] + 0.5
            block = (lambda h: anp.sum(anp.tanh(h * p_) + h * h * p_))
            block = autograd.checkpoint(block) if wrap else block
            return anp.sum(autograd.grad(block)(h0) * W[0]) + block(h0 * 0.5)

        g_plain, g_ck = (lambda x: g_outer(x, False)), (lambda x: g_outer(x, True))
    sample = {"nargs": nargs, "form": form, "scale": kw_scale, "n": n, "vseed": vseed, "closure_over_traced_value": closure}
    c.features.update(closure=closure)
    bucket = lambda k: f"C17|checkpoint|{('', 'closure|', 'outer_closure|', 'loop_closure|')[closure]}{k}"
    u = values.direction(vseed, (n,), 4)
    v = values.direction(vseed, (n,), 5)
    try:
        if onp.asarray(g_ck(x0)).dtype == object or not onp.array_equal(onp.asarray(g_ck(x0)), onp.asarray(g_plain(x0))):
            return fail("primal_mismatch", "checkpoint changes the value", bucket("value"), sample=sample)
        d1 = lambda fn: autograd.grad(fn)
        d2 = lambda fn: autograd.grad(lambda x: anp.sum(autograd.grad(fn)(x) * u))
        d3 = lambda fn: autograd.grad(lambda x: anp.sum(d2(fn)(x) * v))
        from autograd.tracer import isbox as _isbox

        for order, d in ((1, d1), (2, d2), (3, d3)):
            ra = d(g_ck)(x0)
            if _isbox(ra) or onp.asarray(ra).dtype == object:
                return fail("tracer_leak", f"order-{order} reverse derivative through checkpoint contains a tracer", bucket("tracer_leak"), sample=sample)
            a, b = onp.asarray(ra), onp.asarray(d(g_plain)(x0))
            if a.shape != b.shape or not onp.all(onp.abs(a - b) <= 1e-12 * max(1.0, float(onp.max(onp.abs(b))))):
                return fail("wrong_value", f"order-{order} reverse derivative through checkpoint differs by {float(onp.max(onp.abs(a - b))):.3e}",
                            bucket(f"order{order}"), sample=sample)
        # direct mixed partial between two checkpointed arguments
        if nargs >= 2 and not closure:
            a0, b0 = x0, x0 * 0.5 + 0.3
            rest = [1.25] * (nargs - 2)
            mix = lambda fn: autograd.grad(lambda a_: anp.sum(autograd.grad(lambda b_: fn(a_, b_, *rest), 0)(b0) * u))(a0)
            m1, m2 = onp.asarray(mix(ck)), onp.asarray(mix(f))
            if not onp.all(onp.abs(m1 - m2) <= 1e-12 * max(1.0, float(onp.max(onp.abs(m2))))):
                return fail("wrong_value", "mixed partial between two checkpointed arguments differs", bucket("mixed"), sample=sample)
    except Exception as e:
        if not from_autograd(e):
            raise
        return fail("unexpected_exception", describe_exc(e), bucket("exception"), sample=sample)
    c.features.update(sample)
    return ok(nontrivial=True, key=json.dumps([nargs, form, kw_scale, n]), labels=[f"nargs={nargs}", f"form={form}", "kw" if kw_scale != 1.0 else "nokw"], sample=sample)


def identity_rule_body(c):
    """A user primitive lin(a, b, c) = k0 a + k1 b + k2 c on arrays whose rules hand back the incoming tangent / cotangent ITSELF where the
    coefficient is 1 (the natural rule of a function linear in an argument), with two or three arguments traced at the same level and the
    first one used again afterwards: f(x) = sum(lin(x, sin x, x^2) * x * W).  Closed forms for first and second derivatives; the caller's
    tangent / cotangent arrays are unchanged."""
    import autograd
    import autograd.numpy as anp
    from autograd.extend import defjvp, defjvp_argnum, defjvp_argnums, defvjp, defvjp_argnum, primitive

    vseed = c.seed()
    n = c.int(1, 4)
    ks = [[1.0, 2.0, -1.0][i] for i in c.perm(3)]
    japi = c.choice(["defjvp_argnum", "defjvp", "defjvp_argnums"])
    vapi = c.choice(["defvjp_argnum", "defvjp"])
    how = c.choice(["jvp", "jvp_twice", "jvp_of_grad", "grad", "grad_of_grad", "vjp_twice"])
    (x0, W, v, u), _ = values.generic(vseed, [(n,), (n,), (n,), (n,)], 0.3, 1.4)
    sample = {"n": n, "ks": ks, "japi": japi, "vapi": vapi, "how": how, "vseed": vseed}
    c.features.update(japi=japi, vapi=vapi, how=how, identity_first=ks[0] == 1.0)
    bucket = lambda k: f"C17|identity_rule|{k}"

    @primitive
    def lin(a, b, cc):
        return ks[0] * a + ks[1] * b + ks[2] * cc

    scale = lambda i, g: g if ks[i] == 1.0 else ks[i] * g
    if japi == "defjvp_argnum":
        defjvp_argnum(lin, lambda argnum, g, ans, args, kwargs: scale(argnum, g))
    elif japi == "defjvp":
        defjvp(lin, *[(lambda g, ans, a, b, cc, i=i: scale(i, g)) for i in range(3)])
    else:
        def jvps(argnums, gs, ans, args, kwargs):
            tot = None
            for i, g in zip(argnums, gs):
                tot = scale(i, g) if tot is None else tot + scale(i, g)
            return tot
        defjvp_argnums(lin, jvps)
    if vapi == "defvjp_argnum":
        defvjp_argnum(lin, lambda argnum, ans, args, kwargs: lambda g: scale(argnum, g))
    else:
        defvjp(lin, *[(lambda ans, a, b, cc, i=i: lambda g: scale(i, g)) for i in range(3)])

    def f(x):
        return anp.sum(lin(x, anp.sin(x), x * x) * x * W)

    L = ks[0] * x0 + ks[1] * onp.sin(x0) + ks[2] * x0 * x0
    L1 = ks[0] + ks[1] * onp.cos(x0) + 2 * ks[2] * x0
    L2 = -ks[1] * onp.sin(x0) + 2 * ks[2]
    d1 = W * (L1 * x0 + L)
    d2 = W * (L2 * x0 + 2 * L1)
    v_before, u_before, x_before = v.copy(), u.copy(), x0.copy()
    close = lambda a_, b_: onp.shape(a_) == onp.shape(b_) and onp.allclose(onp.asarray(a_), b_, rtol=1e-12, atol=1e-13)
    try:
        if how == "jvp":
            got, want = autograd.make_jvp(f)(x0)(v)[1], onp.sum(d1 * v)
        elif how == "jvp_twice":
            op = autograd.make_jvp(f)(x0)
            first = op(v)[1]
            got, want = op(v)[1], onp.sum(d1 * v_before)
            if not close(first, want):
                got = first
        elif how == "jvp_of_grad":
            got, want = autograd.make_jvp(autograd.grad(f))(x0)(v)[1], d2 * v
        elif how == "grad":
            got, want = autograd.grad(f)(x0), d1
        elif how == "grad_of_grad":
            got, want = autograd.grad(lambda x: anp.sum(autograd.grad(f)(x) * u))(x0), d2 * u
        else:
            # a vector-valued stage so that the caller's cotangent array reaches lin's rule
            vj = autograd.make_vjp(lambda x: lin(x, anp.sin(x), x * x) * 1.0)(x0)[0]
            vj(u)
            got, want = vj(u), u_before * L1
    except Exception as e:
        if not from_autograd(e):
            raise
        return fail("unexpected_exception", describe_exc(e), bucket("exception"), sample=sample)
    if not (onp.array_equal(v, v_before) and onp.array_equal(u, u_before) and onp.array_equal(x0, x_before)):
        return fail("caller_array_changed", f"{how}: an array the caller passed in (point / tangent / cotangent) was modified", bucket("caller_array"), sample=sample)
    if not close(got, want):
        return fail("wrong_value", f"{how} through a primitive whose rules return their incoming (co)tangent where the coefficient is 1 (ks={ks}, {japi}/{vapi}): "
                    f"{onp.asarray(got).tolist()} expected {onp.asarray(want).tolist()}", bucket(how), sample=sample)
    return ok(nontrivial=True, key=json.dumps([n, ks, japi, vapi, how]), labels=["identity_rule", "how=" + how, "japi=" + japi], sample=sample)


def identity_view_body(c):
    """As identity_rule, but one argument enters reversed - lin(a, b, c) = k0 a + k1 b[::-1] + k2 c - so that its rule hands back a VIEW of the incoming
    (co)tangent where k1 = 1 while another argument's rule hands back the (co)tangent itself; the three arguments are a drawn arrangement of 2x, sin x,
    x^2 (all traced at one level, each also consumed by a term written BEFORE the call), the result is consumed three times, the terms of the loss summed in a drawn order.
    Oracle: the same function in plain NumPy, differentiated by central differences (first order, 1e-6) and by second differences (u.H.v, 1e-5)."""
    import autograd
    import autograd.numpy as anp
    from autograd.extend import defjvp, defjvp_argnum, defvjp, defvjp_argnum, primitive

    vseed = c.seed()
    n = c.int(2, 4)
    ks = [[1.0, 1.0, -2.0][i] for i in c.perm(3)]
    slots = c.perm(3)
    order = c.perm(3)
    japi = c.choice(["defjvp_argnum", "defjvp"])
    vapi = c.choice(["defvjp_argnum", "defvjp"])
    how = c.choice(["grad", "grad", "hvp_rr", "hvp_fr", "jvp"])
    (x0, W, V, U, u, v), _ = values.generic(vseed, [(n,)] * 6, 0.3, 1.4)
    sample = {"n": n, "ks": ks, "slots": slots, "order": order, "japi": japi, "vapi": vapi, "how": how, "vseed": vseed}
    c.features.update(japi=japi, vapi=vapi, how=how, view_identity=ks[1] == 1.0, other_identity=ks[0] == 1.0 or ks[2] == 1.0)
    bucket = lambda k: f"C17|identity_view|{k}"
    raw = lambda a, b, cc: ks[0] * a + ks[1] * b[::-1] + ks[2] * cc
    lin = primitive(raw)
    sc = lambda i, g: g if ks[i] == 1.0 else ks[i] * g
    rule = lambda i, g: sc(i, g)[::-1] if i == 1 else sc(i, g)
    if japi == "defjvp_argnum":
        defjvp_argnum(lin, lambda argnum, g, ans, args, kwargs: rule(argnum, g))
    else:
        defjvp(lin, *[(lambda g, ans, a, b, cc, i=i: rule(i, g)) for i in range(3)])
    if vapi == "defvjp_argnum":
        defvjp_argnum(lin, lambda argnum, ans, args, kwargs: lambda g: rule(argnum, g))
    else:
        defvjp(lin, *[(lambda ans, a, b, cc, i=i: lambda g: rule(i, g)) for i in range(3)])

    def f(x, ns=anp, L=lin):
        ops = [x * 2.0, ns.sin(x), x * x]
        # every operand is ALSO consumed by a term written before the call (so it receives that contribution later in the backward pass)
        early = ns.sum(ns.cos(ops[0]) * U) + ns.sum(ns.exp(ops[1]) * W) + ns.sum(ops[2] * V)
        out = L(*[ops[j] for j in slots])
        terms = [ns.sum(out * x * W), ns.sum(ns.cos(out) * V), early + ns.sum(out)]
        tot = terms[order[0]]
        for j in order[1:]:
            tot = tot + terms[j]
        return tot

    fn = lambda x: float(f(x, onp, raw))
    h1, h2 = 1e-6, 5e-3
    x_before, u_before, v_before = x0.copy(), u.copy(), v.copy()
    try:
        if how in ("grad", "jvp"):
            num = onp.array([(fn(x0 + h1 * e) - fn(x0 - h1 * e)) / (2 * h1) for e in onp.eye(n)])
            if how == "grad":
                got, want, tol = onp.asarray(autograd.grad(f)(x0)), num, 1e-6
            else:
                got, want, tol = onp.asarray(autograd.make_jvp(f)(x0)(v)[1]), onp.sum(num * v_before), 1e-6
        else:
            d2 = lambda hh: (fn(x0 + hh * (u + v)) - fn(x0 + hh * (u - v)) - fn(x0 - hh * (u - v)) + fn(x0 - hh * (u + v))) / (4 * hh * hh)
            want = (4 * d2(h2 / 2) - d2(h2)) / 3  # Richardson: O(h^4) truncation, ~1e-10 rounding
            tol = 2e-5
            if how == "hvp_rr":
                got = onp.sum(onp.asarray(autograd.grad(lambda x: anp.sum(autograd.grad(f)(x) * u))(x0)) * v_before)
            else:
                got = onp.sum(onp.asarray(autograd.make_jvp(autograd.grad(f))(x0)(v)[1]) * u_before)
    except Exception as e:
        if not from_autograd(e):
            raise
        return fail("unexpected_exception", describe_exc(e), bucket("exception"), sample=sample)
    if not (onp.array_equal(x0, x_before) and onp.array_equal(u, u_before) and onp.array_equal(v, v_before)):
        return fail("caller_array_changed", f"{how}: an array the caller passed in was modified", bucket("caller_array"), sample=sample)
    scale = max(1.0, float(onp.max(onp.abs(want))))
    if onp.shape(got) != onp.shape(want) or not onp.all(onp.abs(onp.asarray(got) - want) <= tol * scale):
        return fail("wrong_value", f"{how} (ks={ks}, arguments {slots}, term order {order}, {japi}/{vapi}): {onp.asarray(got).tolist()} but differences of the plain function give {onp.asarray(want).tolist()}",
                    bucket(how), sample=sample)
    return ok(nontrivial=True, key=json.dumps([n, ks, slots, order, japi, vapi, how]), labels=["identity_view", "how=" + how], sample=sample)


PROP = Prop("C17", [
    Test("primitives", prim_body, quick=8000, thorough=30000, shard_size=300),
    Test("none_space", none_space_body, quick=1500, thorough=5000, shard_size=100),
    Test("checkpoint", checkpoint_body, quick=800, thorough=3000, shard_size=50),
    Test("identity_rule", identity_rule_body, quick=800, thorough=5000, shard_size=200),
    Test("identity_view", identity_view_body, quick=1500, thorough=8000, shard_size=250),
], RULE, assumptions=["closed-form partials of the polynomial family; registration through the public autograd.extend API only"])
