"""Kink variants (filled in later)."""


def tests(mode):
    return []
