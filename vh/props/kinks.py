"""Kink variants for C01 / C02: the non-smooth points that the rules handle explicitly.

At such a point the derivative returned by autograd must be finite and a valid generalised gradient: for every direction v
and every output component i, (J_an v)_i lies between the two one-sided directional derivatives of raw NumPy.
"""
import json
from functools import partial

import numpy as onp

from .. import oracle, values
from ..case import Outcome, describe_exc, fail, from_autograd, ok, raised
from ..engine import Test
from ..templates.core import namespaces

KINDS = ["reduce_tie", "binary_tie", "abs_zero", "clip_bound", "pow_zero"]


def build(c):
    """Draw a kink configuration: returns (name, f(ns, x), x0 (array), onesided_only, description)."""
    kind = KINDS[c.int(0, len(KINDS) - 1)]
    vseed = c.seed()
    if kind == "reduce_tie":
        name = c.choice(["max", "min", "amax", "amin"])
        shape = c.shape(1, 3, max_side=4)
        x0 = values.generic(vseed, [shape], -2.0, 2.0)[0][0].copy()
        nd = len(shape)
        k = c.int(0, 2)
        axis = None if k == 0 else (c.axis(nd) if k == 1 else tuple(c.sample(range(nd), c.int(1, nd))))
        keepdims = c.bool()
        mult = c.int(2, 4)
        # tie: copy the extreme value of the whole array to `mult - 1` further positions (ties along whatever axis is reduced)
        flat = x0.reshape(-1)
        ext = flat.max() if name in ("max", "amax") else flat.min()
        for _ in range(mult - 1):
            flat[c.int(0, flat.size - 1)] = ext
        kw = {"keepdims": keepdims}
        if axis is not None:
            kw["axis"] = axis
        f = lambda ns, x: getattr(ns, name)(x, **kw)
        return "kink:" + name, f, x0, False, [kind, name, list(shape), kw_repr(kw), mult]
    if kind == "binary_tie":
        name = c.choice(["maximum", "minimum", "fmax", "fmin"])
        res = c.shape(0, 2, max_side=3)
        sa, sb = c.bshape(res), c.bshape(res)
        (a0, b0), _ = values.generic(vseed, [sa, sb], -2.0, 2.0)
        a0, b0 = a0.copy(), b0.copy()
        argnum = c.int(0, 1)
        # make some broadcast entries tie: set entries of the differentiated argument equal to the partner's broadcast value
        A, B = onp.broadcast_arrays(a0, b0)
        tgt, oth = (a0, B) if argnum == 0 else (b0, A)
        if tgt.shape == onp.broadcast_shapes(sa, sb):
            mask_bits = [c.bool() for _ in range(tgt.size)]
            m = onp.array(mask_bits, dtype=bool).reshape(tgt.shape)
            if not m.any() and tgt.size:
                m.reshape(-1)[0] = True
            tgt[m] = oth[m]
        else:
            # lower-rank argument: tie its first entry with one of the partner entries it is broadcast against
            tgt.reshape(-1)[0] = onp.broadcast_to(oth, onp.broadcast_shapes(sa, sb)).reshape(-1)[0]
        if argnum == 0:
            f = lambda ns, x: getattr(ns, name)(x, b0)
            x0 = a0
        else:
            f = lambda ns, x: getattr(ns, name)(a0, x)
            x0 = b0
        return "kink:" + name, f, x0, False, [kind, name, list(sa), list(sb), argnum]
    if kind == "abs_zero":
        name = c.choice(["abs", "absolute", "fabs", "op_abs"])
        shape = c.shape(0, 2, max_side=3)
        x0 = values.generic(vseed, [shape], -2.0, 2.0)[0][0].copy()
        flat = x0.reshape(-1)
        for _ in range(c.int(1, 2)):
            flat[c.int(0, flat.size - 1)] = 0.0
        f = (lambda ns, x: abs(x)) if name == "op_abs" else (lambda ns, x: getattr(ns, name)(x))
        return "kink:" + name, f, x0, False, [kind, name, list(shape)]
    if kind == "clip_bound":
        shape = c.shape(0, 2, max_side=3)
        lo, hi = c.choice([(-0.7, 0.9), (-1.1, 0.2)])
        x0 = values.generic(vseed, [shape], -2.0, 2.0, avoid=(lo, hi))[0][0].copy()
        flat = x0.reshape(-1)
        for _ in range(c.int(1, 2)):
            flat[c.int(0, flat.size - 1)] = c.choice([lo, hi])
        f = lambda ns, x: ns.clip(x, lo, hi)
        return "kink:clip", f, x0, False, [kind, list(shape), lo, hi]
    # pow_zero: x ** y at x = 0
    shape = c.shape(0, 2, max_side=3)
    y = c.choice([0, 1, 2, 3, 1.5, 2.5, 2.0, 3.0])
    x0 = values.generic(vseed, [shape], 0.4, 2.0)[0][0].copy()
    flat = x0.reshape(-1)
    for _ in range(c.int(1, 2)):
        flat[c.int(0, flat.size - 1)] = 0.0
    form = c.int(0, 1)
    f = (lambda ns, x: ns.power(x, y)) if form == 0 else (lambda ns, x: x ** y)
    onesided = isinstance(y, float) and y != int(y)
    return "kink:power", f, x0, onesided, [kind, list(shape), y, form]


def kw_repr(kw):
    return {k: (list(v) if isinstance(v, tuple) else v) for k, v in kw.items()}


def body(mode, c):
    import autograd

    NP, AG = namespaces()
    name, f, x0, onesided, desc = build(c)
    vseed = c.choice([0, 1, 2, 3, 4, 5, 6, 7])
    sample = {"kink": desc, "mode": mode, "x": onp.asarray(x0).tolist()}
    x0 = onp.array(x0)
    x0.flags.writeable = False
    f_np = lambda x: f(NP, x)
    bucket = lambda k: f"{name}|{mode}|{k}"
    try:
        y0 = onp.asarray(f_np(x0), dtype=float)
    except Exception as e:
        return Outcome("numpy_rejects", detail=str(e)[:100], sample=sample)
    if not onp.all(onp.isfinite(y0)) or y0.size == 0:
        return Outcome("numpy_rejects", detail="non-finite primal", sample=sample)
    # analytic Jacobian
    try:
        if mode == "rev":
            vjp, y = autograd.make_vjp(lambda x: f(AG, x))(x0)
            rows = []
            for i in range(y0.size):
                e = onp.zeros(y0.shape)
                e.reshape(-1)[i] = 1.0
                rows.append(onp.asarray(vjp(e if y0.shape else 1.0), dtype=float))
            apply_J = lambda v: onp.array([float(onp.sum(r * v)) for r in rows])
            finite = all(onp.all(onp.isfinite(r)) for r in rows)
            shapes_ok = all(r.shape == x0.shape for r in rows)
        else:
            jvp = autograd.make_jvp(lambda x: f(AG, x))(x0)
            apply_J = lambda v: onp.asarray(jvp(v)[1], dtype=float).reshape(-1)
            probe = apply_J(onp.ones(x0.shape))
            finite = bool(onp.all(onp.isfinite(probe)))
            shapes_ok = probe.shape == (y0.size,)
    except Exception as e:
        if not from_autograd(e):
            raise
        return raised(e, mode, sample=sample)
    if not shapes_ok:
        return fail("wrong_shape", "derivative of the wrong shape at a kink", bucket("wrong_shape"), sample=sample)
    if not finite:
        return fail("nonfinite", "non-finite derivative at an explicitly handled non-smooth point", bucket("nonfinite"), sample=sample)
    zero_mask = (x0 == 0.0)
    for k in range(5):
        v = values.direction(vseed, x0.shape, 600 + k)
        if onesided:
            v = onp.where(zero_mask, onp.abs(v), v)  # only the right side exists at x = 0 for a non-integer exponent
        try:
            dp, ep = oracle.one_sided(f_np, x0, v, +1.0)
            dm, em = (dp, ep) if onesided else oracle.one_sided(f_np, x0, v, -1.0)
        except oracle.Inconclusive as e:
            return Outcome("inconclusive", detail=str(e), sample=sample)
        try:
            an = apply_J(v)
        except Exception as e:
            if not from_autograd(e):
                raise
            return raised(e, mode, sample=sample)
        dp, dm = onp.asarray(dp, dtype=float).reshape(-1), onp.asarray(dm, dtype=float).reshape(-1)
        lo, hi = onp.minimum(dp, dm), onp.maximum(dp, dm)
        tol = 1e-6 * max(1.0, float(onp.max(onp.abs(hi), initial=0.0)), float(onp.max(onp.abs(lo), initial=0.0))) + 100 * (ep + em)
        if not onp.all(onp.isfinite(an)):
            return fail("nonfinite", "non-finite directional derivative at a kink", bucket("nonfinite"), sample=sample)
        bad = (an < lo - tol) | (an > hi + tol)
        if bad.any():
            i = int(onp.argmax(bad))
            return fail("not_generalised_gradient", f"direction {k}: (J v)[{i}] = {an[i]!r} outside the one-sided derivatives [{lo[i]!r}, {hi[i]!r}]",
                        bucket("outside_interval"), sample=sample)
    c.features.update(kink=desc[0], fn=name)
    return ok(nontrivial=True, key=json.dumps(desc), labels=["kink=" + desc[0], "fn=" + name], sample=sample)


def tests(mode):
    return [Test(f"{mode}:kinks", partial(body, mode), quick=1500, thorough=20000, shard_size=200)]
