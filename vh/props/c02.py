"""C02 — forward-mode derivatives exact for every call configuration."""
from functools import partial

from .. import oracle
from ..derivcheck import run_first_order
from ..engine import Prop, Test
from ..templates import TEMPLATES
from . import kinks

RULE = (
    "Same call templates, configurations and generic points as C01; make_jvp(f)(x)(v) for every input basis direction "
    "(<=6 entries) or 3 dense directions against the Ridders directional derivative of raw NumPy; the tangent must "
    "have the NumPy output's shape and kind. Non-trivial = a tangent was returned and the oracle was conclusive; "
    "distinct by (template, feature tuple, argsel, carrier). Primitives without a JVP rule raise (counted as raised)."
)


def _body(tdef, case):
    return run_first_order(case, tdef, "fwd")


def tests():
    out = []
    for name, t in sorted(TEMPLATES.items()):
        out.append(Test("fwd:" + name, partial(_body, t), quick=120 * t.weight, thorough=1500 * t.weight, shard_size=200))
    out += kinks.tests("fwd")
    return out


PROP = Prop("C02", tests(), RULE, assumptions=[
    "NumPy's primal functions are the reference semantics; derivatives of raw NumPy by Ridders extrapolation (self-tested each run)",
    "generic points only; array rank <= 4, side <= 4",
], selftest=oracle.selftest)
