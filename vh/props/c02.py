"""C02 — forward-mode derivatives exact for every call configuration."""
from functools import partial

from .. import oracle
from ..derivcheck import run_first_order
from ..engine import Prop, Test
from ..templates import TEMPLATES
from ..templates.core import complex_capable
from . import kinks

RULE = (
    "Same call templates, configurations and generic points as C01; make_jvp(f)(x)(v) for every input basis direction "
    "(<=6 entries) or 3 dense directions against the Ridders directional derivative of raw NumPy; the tangent must "
    "have the NumPy output's shape and kind. Non-trivial = a tangent was returned and the oracle was conclusive; "
    "distinct by (template, feature tuple, argsel, carrier). Primitives without a JVP rule raise (counted as raised)."
    " Also: the namespace sweep (x:sweep / x:sweep_rest: every callable of autograd.numpy, .linalg and .fft in eight generic call forms - "
    "a function that has or acquires a rule but no template is still held to right-or-raises) and, for complex-capable templates, "
    "<mode>c:* tests with any subset of the arguments complex (real argument next to a complex partner and vice versa)."
)


def _body(tdef, case):
    return run_first_order(case, tdef, "fwd")


def _body_mixed(tdef, case):
    # any subset of the arguments complex (C09 owns the complex convention; here the point is the PARTNER operands: a real argument
    # differentiated next to a complex one and vice versa, in this mode)
    return run_first_order(case, tdef, "fwd", allow_complex=True)


def coverage_accounting(agg):
    """Which registered primitives had a jvp node built during this run, and which never did (coverage gap, not a violation)."""
    from autograd import core

    table = core.primitive_jvps
    names = sorted({getattr(f, "__name__", repr(f)) for f in table})
    seen = {k.split(":", 1)[1] for k in agg.prims if k.startswith("jvp:")}
    owned_elsewhere = {"container_take", "container_untake", "sequence_extend_right", "sequence_extend_left", "make_sequence", "_make_dict",
                       "add", "mut_add", "scalar_mul", "inner_prod", "covector", "sparse_add", "wrapped", "convolve"}
    return {"primitives_registered": len(names), "primitives_exercised": len([n for n in names if n in seen]),
            "primitives_not_exercised": [n for n in names if n not in seen and n not in owned_elsewhere],
            "primitives_owned_by_other_checks": sorted(n for n in names if n in owned_elsewhere and n not in seen)}


def tests():
    out = []
    for name, t in sorted(TEMPLATES.items()):
        out.append(Test("fwd:" + name, partial(_body, t), quick=200 * t.weight, thorough=1500 * t.weight, shard_size=200))
        if complex_capable(t):
            out.append(Test("fwdc:" + name, partial(_body_mixed, t), quick=40 * t.weight, thorough=300 * t.weight, shard_size=200))
    out += kinks.tests("fwd")
    return out


PROP = Prop("C02", tests(), RULE, assumptions=[
    "NumPy's primal functions are the reference semantics; derivatives of raw NumPy by Ridders extrapolation (self-tested each run)",
    "generic points only; array rank <= 4, side <= 4",
], selftest=oracle.selftest, finalize=lambda agg: coverage_accounting(agg))
PROP.record_primitives = True
