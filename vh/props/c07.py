"""C07 — derivatives of derivatives: higher-order and mixed-mode differentiation is exact."""
import itertools
import json
import math
from functools import partial

import numpy as onp

from .. import oracle, values
from ..case import Outcome, fail, ok, raised
from ..derivcheck import bucket_of, key_of, primal
from ..engine import Prop, Test
from ..refs import symbolic as S
from ..templates import TEMPLATES
from ..templates.core import binary_complex_capable, instantiate, namespaces

RULE = (
    "(a) every real template case at a generic point, second order: phi(x) = <g, f(x)>; the Hessian-vector product H u by "
    "rev-over-rev (make_vjp of grad), fwd-over-rev (make_jvp of grad), rev-over-fwd (grad of a JVP) and u.H.v by fwd-over-fwd; "
    "sequences that raise (missing rule) are counted; the returned ones must agree with each other (1e-9 relative), "
    "satisfy u.Hv == v.Hu, and match the four-point second central difference of raw NumPy (Richardson step, 1e-6 relative, "
    "regularity guard). (b) generated array compositions (vh/progs.py), same checks plus hessian symmetry. (c) scalar expression "
    "programs at order 3 and 4: every mode sequence in {rev, fwd}^k (all 2^k for k=3, 8 drawn for k=4) against the symbolic "
    "reference differentiator (1e-9 relative). Non-trivial = at least two mode sequences returned and the second derivative is "
    "non-zero on the oracle side; distinct by (template, features) / program / expression. (d) zero_entries: 30 functions that are analytic "
    "where some entries of the argument are exactly zero (powers with integer exponents, norms of vectors with a non-zero entry, products, "
    "inactive maximum / where, ...) at points with a drawn subset of entries set to exactly 0.0: the same second-order checks (rules that "
    "guard against zeros with where / replace_zero must still have the right derivative of their own)."
    ' Later additions: hvpm:<template> (real differentiated argument, complex partners, optionally coupled to the input), saturated (14 elementwise functions at extreme magnitudes: finite and zero second derivatives), zero_entries families with a traced exponent, fixed_point (orders 1-3 through autograd.misc.fixed_points against the closed form).'
)


def hvps(phi, x, u, v, scalar_conv):
    """The four second-order constructions; returns dict name -> value or exception."""
    import autograd
    import autograd.numpy as anp

    out = {}
    uu, vv = scalar_conv(u), scalar_conv(v)

    def rr():
        return autograd.make_vjp(autograd.grad(phi))(x)[0](uu)

    def fr():
        return autograd.make_jvp(autograd.grad(phi))(x)(uu)[1]

    def rf():
        return autograd.grad(lambda y: autograd.make_jvp(phi)(y)(uu)[1])(x)

    def ff():
        return autograd.make_jvp(lambda y: autograd.make_jvp(phi)(y)(uu)[1])(x)(vv)[1]

    for name, fn in (("rev_rev", rr), ("fwd_rev", fr), ("rev_fwd", rf), ("fwd_fwd", ff)):
        try:
            out[name] = fn()
        except Exception as e:
            out[name] = e
    return out


def second_order_check(phi_ag, phi_np, x, xa, vseed, h0, sample, bucket, key, labels=()):
    u = values.direction(vseed, xa.shape, 51)
    v = values.direction(vseed, xa.shape, 52)
    scalar = xa.ndim == 0 and not isinstance(x, onp.ndarray)
    conv = (lambda t: float(t)) if scalar else (lambda t: t)
    res = hvps(phi_ag, x, u, v, conv)
    returned = {k: r for k, r in res.items() if not isinstance(r, Exception)}
    for k, r in res.items():
        if isinstance(r, Exception):
            if not (isinstance(r, NotImplementedError) or True):
                pass
    labels = list(labels) + [f"returned={len(returned)}"]
    if not returned:
        e = next(iter(res.values()))
        return raised(e, "second_order", labels=labels, sample=sample)
    # scalar u.H.v from every construction
    vals = {}
    for k, r in returned.items():
        try:
            if onp.iscomplexobj(r) and not onp.iscomplexobj(xa):
                return fail("wrong_kind", f"{k} returned a complex second derivative for a real argument", bucket("wrong_kind"), sample=sample)
            ra = onp.asarray(r, dtype=float)
        except Exception as e:
            return fail("wrong_kind", f"{k} returned {type(r).__name__}: {e}", bucket("wrong_kind"), sample=sample)
        if k == "fwd_fwd":
            if ra.shape != ():
                return fail("wrong_shape", f"fwd_fwd returned shape {ra.shape}", bucket("wrong_shape"), sample=sample)
            vals[k] = float(ra)
        else:
            if ra.shape != xa.shape:
                return fail("wrong_shape", f"{k} returned shape {ra.shape} for argument shape {xa.shape}", bucket("wrong_shape"), sample=sample)
            vals[k] = float(onp.sum(ra * v))
            returned[k] = ra
    if not all(math.isfinite(t) for t in vals.values()):
        return fail("nonfinite", f"non-finite second derivative at a regular point: {vals}", bucket("nonfinite"), sample=sample)
    # oracle: second difference of raw numpy
    try:
        num, err = oracle.second_directional(phi_np, xa, u, v, h=min(2e-3, h0 / 4))
        num = float(num)
    except oracle.Inconclusive as e:
        num = None
    ref_scale = max(1.0, max(abs(t) for t in vals.values()), abs(num) if num is not None else 0.0)
    names = sorted(vals)
    for a_, b_ in itertools.combinations(names, 2):
        if not abs(vals[a_] - vals[b_]) <= 1e-9 * ref_scale:
            return fail("mode_disagreement", f"u.H.v: {a_}={vals[a_]!r} but {b_}={vals[b_]!r}", bucket("mode_disagreement"), sample=sample)
    # symmetry u.Hv == v.Hu via one more evaluation with roles swapped
    any_vec = next((k for k in ("rev_rev", "fwd_rev", "rev_fwd") if k in returned), None)
    if any_vec is not None:
        res2 = hvps(phi_ag, x, v, u, conv)
        r2 = res2.get(any_vec)
        if not isinstance(r2, Exception):
            sym = float(onp.sum(onp.asarray(r2, dtype=float) * u))
            if not abs(sym - vals[any_vec]) <= 1e-9 * ref_scale:
                return fail("asymmetric_hessian", f"{any_vec}: u.Hv={vals[any_vec]!r} but v.Hu={sym!r}", bucket("asymmetric"), sample=sample)
    if num is None:
        return Outcome("inconclusive", detail="second-difference oracle inconclusive", labels=labels, sample=sample)
    for k in names:
        if not abs(vals[k] - num) <= 1e-6 * ref_scale + 100 * err:
            return fail("wrong_value", f"{k}: u.H.v={vals[k]!r} but second difference of NumPy gives {num!r} (err {err:.1e})",
                        bucket("wrong_value"), sample=sample)
    nontrivial = len(vals) >= 2 and abs(num) > 1e-9
    return ok(nontrivial=nontrivial, key=key, labels=labels, sample=sample)


def _body(tdef, case):
    call = tdef.draw(case)
    inst = instantiate(case, call, allow_complex=False)
    st, y0 = primal(inst)
    sample = inst.describe()
    if st != "ok":
        return Outcome("numpy_rejects", detail=y0, sample=sample)
    y0a = onp.asarray(y0)
    if y0a.dtype.kind == "c":
        g = values.cdirection(inst.vseed, y0a.shape, 53)
    else:
        g = values.direction(inst.vseed, y0a.shape, 53)
    NP, AG = namespaces()
    f_np, f_ag = inst.f(NP), inst.f(AG)
    # post-compose with a smooth nonlinearity psi(y) = y + y^2/2 so that linear primitives (whose own second
    # derivative vanishes) still exercise the derivative of their VJP/JVP rules: H = J^T psi'' J + psi' f''
    psi = lambda y: y + 0.5 * y * y
    phi_np = lambda x: onp.real(onp.sum(g * psi(f_np(x))))
    phi_ag = lambda x: AG.real(AG.sum(g * psi(f_ag(x)))) if y0a.dtype.kind == "c" else AG.sum(g * psi(f_ag(x)))
    out = second_order_check(phi_ag, phi_np, inst.x_carried(), onp.asarray(inst.x), inst.vseed, inst.h0, sample,
                             lambda kind: bucket_of(inst, "2nd", kind), key_of(inst, "2nd"))
    if out.status != "ok" or y0a.dtype.kind == "c":
        return out
    # the derivative of the VJP function with respect to its cotangent, linearised at a ZERO cotangent, is the JVP
    # (make_jvp_reversemode); it must agree with forward mode / the numerical directional derivative
    import autograd
    from autograd import differential_operators as do

    from .. import oracle as _o
    from ..case import from_autograd

    xa = onp.asarray(inst.x)
    v = values.direction(inst.vseed, xa.shape, 54)
    try:
        num, err = _o.directional(f_np, xa, v, inst.h0)
    except _o.Inconclusive:
        return out
    try:
        t = onp.asarray(do.make_jvp_reversemode(f_ag)(inst.x_carried())(v))
    except Exception as e:
        if not from_autograd(e):
            raise
        return out  # raising is allowed
    num = onp.asarray(num, dtype=float)
    if t.shape != num.shape or not onp.all(onp.abs(t - num) <= 1e-7 * max(1.0, float(onp.max(onp.abs(num), initial=0.0))) + 100 * err):
        case.features["subcheck"] = "jvp_reversemode"
        return fail("wrong_value", f"make_jvp_reversemode (derivative of the VJP at a zero cotangent) gives {t.tolist()!r:.120} but J v = {num.tolist()!r:.120}",
                    bucket_of(inst, "2nd", "jvp_reversemode"), sample=sample)
    return out


def _body_mixed(tdef, case):
    """Second order with operands of mixed kind: the differentiated argument is REAL, its partners may be complex, and when the same
    value sits in two positions the second one is a complex multiple of it (both operands depend on the input, only one is complex)."""
    call = tdef.draw(case)
    inst = instantiate(case, call, allow_complex=True, force_complex=True)
    pos = (inst.argsel,) if isinstance(inst.argsel, int) else inst.argsel
    for i in pos:  # the differentiated value itself stays real
        if onp.iscomplexobj(inst.xs[i]):
            inst.xs[i] = onp.real(inst.xs[i]) if isinstance(inst.xs[i], onp.ndarray) else float(onp.real(inst.xs[i]))
    entangle = isinstance(inst.argsel, tuple)
    others = [i for i in range(len(inst.xs)) if i not in pos]
    if not entangle and others and not any(onp.iscomplexobj(inst.xs[i]) for i in others):
        i = others[0]  # the drawn mask made only the differentiated argument complex: give its first partner an imaginary part instead
        im = values.generic(inst.vseed, [onp.shape(inst.xs[i])], -1.5, 1.5, stream=7, avoid=(0.0,), margin=0.3)[0][0]
        inst.xs[i] = inst.xs[i] + 1j * (im if onp.ndim(inst.xs[i]) else complex(im).real)
    cfac = 0.8 + 0.6j
    # partners that depend on the input too: each partner operand scaled by a complex scalar function of x
    coupled = bool(others) and case.bool()
    NP, AG = namespaces()
    a0 = pos[0]

    def mk(ns):
        def f(x):
            args = list(inst.xs)
            args[a0] = x
            if entangle:
                args[pos[1]] = x * cfac
            if coupled:
                m = 1.0 + (0.3 + 0.2j) * ns.mean(x)
                for i in others:
                    args[i] = args[i] * m
            return inst.call.fn(ns, *args)
        return f

    f_np, f_ag = mk(NP), mk(AG)
    sample = dict(inst.describe(), entangled=entangle, partners_depend_on_input=coupled)
    try:
        y0a = onp.asarray(f_np(inst.xs[a0]))
    except Exception as e:
        return Outcome("numpy_rejects", detail=str(e)[:100], sample=sample)
    if y0a.dtype.kind not in "fc" or not onp.all(onp.isfinite(y0a)) or y0a.size == 0:
        return Outcome("numpy_rejects", detail="non-float / non-finite / empty primal", sample=sample)
    if not (entangle or any(onp.iscomplexobj(a_) for i, a_ in enumerate(inst.xs) if i not in pos)):
        return Outcome("numpy_rejects", detail="no complex partner", sample=sample)
    g = values.cdirection(inst.vseed, y0a.shape, 53)
    psi = lambda y: y + 0.5 * y * y
    phi_np = lambda x: onp.real(onp.sum(g * psi(f_np(x))))
    phi_ag = lambda x: AG.real(AG.sum(g * psi(f_ag(x))))
    case.features.update(entangled=entangle, coupled=coupled)
    x = inst.xs[a0]
    return second_order_check(phi_ag, phi_np, x, onp.asarray(x), inst.vseed, inst.h0, sample,
                              lambda kind: bucket_of(inst, "2nd_mixed", kind), key_of(inst, "2nd_mixed" + ("_coupled" if coupled else "")))


def _prog_body(case):
    import autograd
    import autograd.numpy as anp

    from .. import progs

    prog = progs.gen(case, max_ops=case.int(3, 10))
    vseed = case.seed()
    x0 = progs.input_value(prog, vseed)
    sample = {"program": prog, "vseed": vseed}
    try:
        y0 = onp.asarray(progs.run(prog, x0, onp))
        if not onp.all(onp.isfinite(y0)):
            return Outcome("numpy_rejects", detail="non-finite", sample=sample)
    except Exception as e:
        return Outcome("numpy_rejects", detail=str(e)[:100], sample=sample)
    g = values.direction(vseed, y0.shape, 53)
    ckpt = case.chance(1, 3)  # the program wrapped in autograd.checkpoint (reverse mode only): second order must be unchanged
    sample["checkpoint"] = ckpt
    phi_np = lambda x: onp.sum(g * progs.run(prog, x, onp))
    if ckpt:
        phi_ag = lambda x: anp.sum(g * autograd.checkpoint(lambda t: progs.run(prog, t, anp))(x))
    else:
        phi_ag = lambda x: anp.sum(g * progs.run(prog, x, anp))
    out = second_order_check(phi_ag, phi_np, x0, onp.asarray(x0), vseed, 0.02, sample, lambda kind: f"C07|program|{kind}",
                             json.dumps([prog, ckpt]), ["composition"] + (["checkpoint"] if ckpt else []))
    if out.status != "ok":
        return out
    # the public HVP wrappers with a non-default argnum / extra arguments must give the same H u as make_vjp(grad)
    try:
        u = values.direction(vseed, x0.shape, 51)
        Hu = onp.asarray(autograd.make_vjp(autograd.grad(phi_ag))(x0)[0](u))
        two = lambda k, x, scale=1.0: scale * (phi_ag(x) * k + anp.sum(x * x) * k * k)
        w1 = onp.asarray(autograd.hessian_vector_product(two, 1)(1.5, x0, u, scale=2.0))
        w2 = onp.asarray(autograd.make_hvp(two, 1)(1.5, x0, scale=2.0)[0](u))
        w3 = onp.tensordot(onp.asarray(autograd.hessian(two, 1)(1.5, x0, scale=2.0)), u, u.ndim)
        want = 2.0 * (1.5 * Hu + 2.0 * 1.5 * 1.5 * u)
        for nm, w in (("hessian_vector_product(argnum=1)", w1), ("make_hvp(argnum=1)", w2), ("hessian(argnum=1)", w3)):
            if w.shape != want.shape or not onp.allclose(w, want, rtol=1e-9, atol=1e-10 * max(1.0, float(onp.max(onp.abs(want))))):
                return fail("wrong_value", f"{nm} disagrees with make_vjp(grad): shape {w.shape} vs {want.shape}", "C07|program|hvp_wrapper", sample=sample)
    except Exception as e:
        from ..case import describe_exc, from_autograd

        if not from_autograd(e):
            raise
        return fail("unexpected_exception", "HVP wrappers: " + describe_exc(e), "C07|program|hvp_wrapper_exception", sample=sample)
    # full hessian symmetry for small inputs
    if x0.size <= 8:
        try:
            H = onp.asarray(autograd.hessian(phi_ag)(x0)).reshape(x0.size, x0.size)
        except Exception as e:
            return fail("unexpected_exception", f"hessian raised {type(e).__name__}: {e}"[:200], "C07|program|hessian_exception", sample=sample)
        if not onp.allclose(H, H.T, rtol=1e-9, atol=1e-10 * max(1.0, float(onp.max(onp.abs(H))))):
            return fail("asymmetric_hessian", f"hessian not symmetric, max |H-H^T| = {float(onp.max(onp.abs(H - H.T))):.3e}",
                        "C07|program|asymmetric", sample=sample)
    return out


# ---- order 3 / 4 on scalar expression programs -----------------------------------------------------------
def gen_expr(c, depth):
    if depth <= 0:
        return ("v", "x") if c.chance(3, 4) else ("c", c.choice([0.5, 0.75, 1.25]))
    k = c.int(0, 8)
    if k == 0:
        return ("v", "x")
    if k <= 2:
        return ("+", gen_expr(c, depth - 1), gen_expr(c, depth - 1))
    if k <= 4:
        return ("*", gen_expr(c, depth - 1), gen_expr(c, depth - 1))
    if k == 5:
        return ("/", gen_expr(c, depth - 1), ("+", ("c", 2.0), ("pow", gen_expr(c, depth - 2), 2)))
    if k <= 7:
        return (c.choice(["sin", "exp", "tanh", "cos"]), ("*", ("c", 0.5), gen_expr(c, depth - 1)))
    return ("pow", gen_expr(c, depth - 1), c.choice([2, 3]))


def comp_expr(e, x, np):
    t = e[0]
    if t == "c":
        return e[1]
    if t == "v":
        return x
    if t == "+":
        return comp_expr(e[1], x, np) + comp_expr(e[2], x, np)
    if t == "*":
        return comp_expr(e[1], x, np) * comp_expr(e[2], x, np)
    if t == "/":
        return comp_expr(e[1], x, np) / comp_expr(e[2], x, np)
    if t == "pow":
        return comp_expr(e[1], x, np) ** e[2]
    return getattr(np, t)(comp_expr(e[1], x, np))


def high_order_body(order, c):
    import autograd
    import autograd.numpy as anp

    e = gen_expr(c, c.int(1, 3))
    x0 = c.choice([0.3, 0.55, 0.8, 1.05])
    if order <= 3:
        seqs = ["".join(s) for s in itertools.product("rf", repeat=order)]
    else:
        seqs = sorted({"".join(c.choice("rf") for _ in range(order)) for _ in range(8)})
    sample = {"expr": repr(e), "x": x0, "order": order, "sequences": seqs}
    d = e
    for _ in range(order):
        d = S.d(d, "x")
    try:
        if S.size(d) > 400000:
            return Outcome("numpy_rejects", detail="derivative tree too large", sample=sample)
        ref = S.ev(d, {"x": x0})
    except (OverflowError, ZeroDivisionError, RecursionError):
        return Outcome("numpy_rejects", detail="overflow", sample=sample)
    if not math.isfinite(ref) or abs(ref) > 1e8:
        return Outcome("numpy_rejects", detail="too large", sample=sample)
    got = {}
    for s in seqs:
        f = lambda x: comp_expr(e, x, anp)
        for m in s:  # innermost first
            f = (lambda f_: autograd.grad(f_))(f) if m == "r" else (lambda f_: (lambda x: autograd.make_jvp(f_)(x)(1.0)[1]))(f)
        try:
            got[s] = float(f(x0))
        except NotImplementedError as ex:
            if "not defined" in str(ex):
                continue
            return fail("unexpected_exception", f"{s}: {type(ex).__name__}: {ex}"[:300], "C07|order|unexpected_exception", sample=sample)
        except Exception as ex:
            return fail("unexpected_exception", f"{s}: {type(ex).__name__}: {ex}"[:300], "C07|order|unexpected_exception", sample=sample)
    for s, val in got.items():
        if not abs(val - ref) <= 1e-9 * max(1.0, abs(ref)):
            return fail("wrong_value", f"order {order} sequence {s}: {val!r} but reference {ref!r}", "C07|order|wrong_value", sample=sample)
    return ok(nontrivial=len(got) >= 2 and abs(ref) > 1e-12, key=repr(e) + str(x0) + str(order), labels=[f"order={order}"], sample=sample)


def mixed_body(c):
    """Mixed partials of f(x, y) = a(x) + b(x) * c(y)^m, m in {0, 1, 2}: for m = 0 the inner function is constant in its own
    variable but depends on the enclosing one, so the inner derivative must be an exact zero at every order."""
    import autograd
    import autograd.numpy as anp

    m = c.int(0, 2)
    fa, fb, fc = c.choice(["sin", "exp", "sq"]), c.choice(["sin", "exp", "sq"]), c.choice(["sin", "exp", "sq"])
    modes = "".join(c.choice("rf") for _ in range(2))
    x0, y0 = c.choice([0.4, 0.9, 1.3]), c.choice([0.5, 1.1])
    F = {"sin": (anp.sin, math.sin, math.cos, lambda t: -math.sin(t)), "exp": (lambda t: anp.exp(0.5 * t), lambda t: math.exp(0.5 * t),
         lambda t: 0.5 * math.exp(0.5 * t), lambda t: 0.25 * math.exp(0.5 * t)), "sq": (lambda t: t * t, lambda t: t * t, lambda t: 2 * t, lambda t: 2.0)}
    sample = {"m": m, "a": fa, "b": fb, "c": fc, "modes": modes, "x": x0, "y": y0}

    def f(x, y):
        return F[fa][0](x) + F[fb][0](x) * (F[fc][0](y) ** m if m else 1.0)

    def D(mode, fn):
        return autograd.grad(fn) if mode == "r" else (lambda t: autograd.make_jvp(fn)(t)(1.0)[1])

    # g(x) = x * d/dy f(x, y)|_{y0};   g'(x) = f_y + x f_xy
    cy, dcy = F[fc][1](y0), F[fc][2](y0)
    fy = F[fb][1](x0) * (m * cy ** (m - 1) * dcy if m else 0.0)
    fxy = F[fb][2](x0) * (m * cy ** (m - 1) * dcy if m else 0.0)
    want = fy + x0 * fxy
    try:
        with __import__("warnings").catch_warnings():
            __import__("warnings").simplefilter("ignore")
            got = float(D(modes[0], lambda x: x * D(modes[1], lambda y: f(x, y))(y0))(x0))
    except Exception as e:
        from ..case import describe_exc, from_autograd

        if not from_autograd(e):
            raise
        return fail("unexpected_exception", describe_exc(e), "C07|mixed|exception", sample=sample)
    if abs(got - want) > 1e-10 * max(1.0, abs(want)):
        return fail("wrong_value", f"d/dx [x * df/dy] = {got!r}, expected {want!r} (modes {modes}, m={m})", "C07|mixed|wrong_value", sample=sample)
    return ok(nontrivial=True, key=json.dumps(sample), labels=[f"m={m}", "modes=" + modes], sample=sample)


# ---- second order at points with exactly-zero entries --------------------------------------------------------------------
def zero_families():
    """Functions that are analytic at points where some (not all) entries of the argument are exactly zero."""
    W2 = onp.array([[0.5, -1.0, 2.0], [1.5, 0.25, -0.75], [0.3, 0.9, -0.4]])
    return {
        "square": lambda ns, x: ns.square(x), "x**2": lambda ns, x: x ** 2, "x**3": lambda ns, x: x ** 3, "power(x,2)": lambda ns, x: ns.power(x, 2),
        "power(x,3.0)": lambda ns, x: ns.power(x, 3.0), "power(x,k)": lambda ns, x: ns.power(x, onp.array([2, 3, 1])[: x.shape[-1]]),
        "x*x": lambda ns, x: x * x, "sin": lambda ns, x: ns.sin(x), "tanh*x": lambda ns, x: ns.tanh(x) * x, "exp": lambda ns, x: ns.exp(0.5 * x),
        "norm2": lambda ns, x: ns.linalg.norm(ns.ravel(x), 2), "norm_default": lambda ns, x: ns.linalg.norm(x), "norm_ord3": lambda ns, x: ns.linalg.norm(ns.ravel(x), 3),
        "norm2_axis": lambda ns, x: ns.linalg.norm(ns.reshape(x, (-1, x.shape[-1])), ord=2, axis=1) if x.ndim >= 1 else ns.abs(x),
        "norm_axis_default": lambda ns, x: ns.linalg.norm(ns.reshape(x, (-1, x.shape[-1])), axis=-1),
        "dot": lambda ns, x: ns.dot(ns.ravel(x), ns.ravel(x)), "outer": lambda ns, x: ns.outer(ns.ravel(x), ns.ravel(x)), "sum_sq": lambda ns, x: ns.sum(x * x, axis=-1),
        "var": lambda ns, x: ns.var(x), "mean_sq": lambda ns, x: ns.mean(x) ** 2, "cumsum_sq": lambda ns, x: ns.cumsum(x, axis=-1) ** 2,
        "matvec": lambda ns, x: ns.dot(W2[:, : x.shape[-1]], ns.ravel(x)[: x.shape[-1]]) ** 2, "einsum": lambda ns, x: ns.einsum("...i,...i->...", x, x),
        "maximum_inactive": lambda ns, x: ns.maximum(x, -5.0) ** 2, "where": lambda ns, x: ns.where(x > -9.0, x * x, 0.0),
        "hypot": lambda ns, x: ns.hypot(x, 1.5), "arctan2": lambda ns, x: ns.arctan2(x, 1.5), "logaddexp": lambda ns, x: ns.logaddexp(x, 0.3),
        "power_exponent": lambda ns, x: ns.power(1.5 + 0.5 * x, x), "pow_op_exponent": lambda ns, x: (2.0 + x * x) ** x,
        "multiply": lambda ns, x: ns.multiply(x, x + 1.0), "divide": lambda ns, x: x / (x * x + 1.0), "prod_shifted": lambda ns, x: ns.prod(x + 1.5, axis=-1),
    }


_ZF = {}


def zero_entries_body(c):
    import autograd.numpy as anp

    if not _ZF:
        _ZF.update(zero_families())
    names = sorted(_ZF)
    fam = names[c.int(0, len(names) - 1)]
    f = _ZF[fam]
    shape = c.choice([(3,), (2,), (2, 3), (3, 2)])
    vseed = c.seed()
    x0 = values.generic(vseed, [shape], -1.5, 1.5)[0][0]
    n = x0.shape[-1]
    rows = x0.reshape(-1, n)
    nz = 0
    for r in rows:  # zero out a drawn subset of each row, always keeping one entry
        keep = c.int(0, n - 1)
        for j in range(n):
            if j != keep and c.bool():
                r[j] = 0.0
                nz += 1
    if nz == 0:
        rows[0][(c.int(0, n - 1))] = 0.0
        if not rows[0].any():
            rows[0][0] = 0.7
    x0 = rows.reshape(shape)
    sample = {"family": fam, "x": x0.tolist(), "vseed": vseed}
    try:
        y0 = onp.asarray(f(onp, x0))
    except Exception as e:
        return Outcome("numpy_rejects", detail=str(e)[:100], sample=sample)
    if not onp.all(onp.isfinite(y0)):
        return Outcome("numpy_rejects", detail="non-finite", sample=sample)
    g = values.direction(vseed, y0.shape, 53)
    phi_np = lambda x: onp.sum(g * f(onp, x))
    phi_ag = lambda x: anp.sum(g * f(anp, x))
    c.features.update(family=fam)
    return second_order_check(phi_ag, phi_np, x0, x0, vseed, 0.02, sample, lambda kind: f"C07|zero_entries|{fam}|{kind}", json.dumps([fam, x0.tolist()]),
                              ["zero_entries"])


def saturated_families():
    """Elementwise functions at magnitudes where the value and the first derivative are representable and the true second derivative
    underflows to zero: (function of (ns, x), list of domains for x)."""
    return {
        "tanh": (lambda ns, x: ns.tanh(x), [(360.0, 900.0), (-900.0, -360.0), (20.0, 300.0)]),
        "arctan": (lambda ns, x: ns.arctan(x), [(1e180, 1e200), (-1e200, -1e180)]),
        "arcsinh": (lambda ns, x: ns.arcsinh(x), [(1e180, 1e200), (-1e200, -1e180)]),
        "logaddexp_x": (lambda ns, x: ns.logaddexp(x, 0.5), [(-900.0, -760.0), (760.0, 900.0)]),
        "logaddexp_y": (lambda ns, x: ns.logaddexp(-0.25, x), [(-900.0, -760.0), (760.0, 900.0)]),
        "logaddexp2_x": (lambda ns, x: ns.logaddexp2(x, 0.5), [(-1300.0, -1100.0), (1100.0, 1300.0)]),
        "exp": (lambda ns, x: ns.exp(x), [(-900.0, -760.0)]),
        "expm1": (lambda ns, x: ns.expm1(x), [(-900.0, -760.0)]),
        "log1p": (lambda ns, x: ns.log1p(x), [(1e290, 1e300)]),
        "log": (lambda ns, x: ns.log(x), [(1e290, 1e300)]),
        "sqrt": (lambda ns, x: ns.sqrt(x), [(1e290, 1e300)]),
        "reciprocal": (lambda ns, x: ns.reciprocal(x), [(1e180, 1e200), (-1e200, -1e180)]),
        "divide": (lambda ns, x: 1.5 / x, [(1e180, 1e200), (-1e200, -1e180)]),
        "power_neg2": (lambda ns, x: x ** -2.0, [(1e100, 1e120), (-1e120, -1e100)]),
    }


_SF = {}


def saturated_body(c):
    """Second derivatives at saturated / extreme (but regular) arguments: every construction returns a finite result, and all agree that
    the second derivative has underflowed to zero (a closed form that overflows on the way gives nan or inf instead)."""
    import warnings

    import autograd.numpy as anp

    if not _SF:
        _SF.update(saturated_families())
    names = sorted(_SF)
    fam = names[c.int(0, len(names) - 1)]
    f, doms = _SF[fam]
    lo, hi = doms[c.int(0, len(doms) - 1)]
    shape = c.choice([(), (3,), (2, 2)])
    vseed = c.seed()
    u01 = (values.generic(vseed, [shape], 0.0, 1.0)[0][0])
    x0 = onp.asarray(lo + (hi - lo) * u01)
    if fam == "tanh" and lo == 20.0:
        x0 = x0 * onp.where(values.direction(vseed, shape, 9) > 0, 1.0, -1.0)
    w = values.direction(vseed, shape, 3)
    u, v = values.direction(vseed, shape, 4), values.direction(vseed, shape, 5)
    sample = {"family": fam, "x": onp.asarray(x0).tolist(), "vseed": vseed}
    bucket = lambda k: f"C07|saturated|{fam}|{k}"
    c.features.update(family=fam)
    with warnings.catch_warnings():
        warnings.simplefilter("ignore")
        y0 = onp.asarray(f(onp, x0))
        if not onp.all(onp.isfinite(y0)):
            return Outcome("numpy_rejects", detail="non-finite value", sample=sample)
        phi = lambda x: anp.sum(f(anp, x) * w)
        res = hvps(phi, x0 if shape else onp.float64(x0), u, v, lambda r: r)  # (a Python float would raise OverflowError in x ** 2)
    bad = []
    for k, r in res.items():
        if isinstance(r, Exception):
            if "not defined" in str(r):
                continue
            return fail("unexpected_exception", f"{k}: {type(r).__name__}: {r}"[:300], bucket("exception"), sample=sample)
        ra = onp.asarray(r, dtype=float)
        if not onp.all(onp.isfinite(ra)):
            bad.append(f"{k} is not finite ({ra.tolist()})")
        elif float(onp.max(onp.abs(ra), initial=0.0)) > (1e-100 if not (fam == "tanh" and lo == 20.0) else 1e-12):
            bad.append(f"{k} = {ra.tolist()}, expected an underflowed zero")
    if bad:
        return fail("nonfinite", f"{fam} at {onp.asarray(x0).tolist()}: " + "; ".join(bad), bucket("second_order"), sample=sample)
    return ok(nontrivial=True, key=json.dumps([fam, lo, list(shape)]), labels=["saturated", "family=" + fam], sample=sample)


def fixed_point_body(c):
    """autograd.misc.fixed_points.fixed_point (a primitive with an implicit-function VJP that itself calls fixed_point): derivatives of
    orders 1-3 of w . x*(a) for the contraction x = a M x + tanh(b a) against the closed form x* = (I - a M)^-1 tanh(b a) differentiated
    by Richardson-extrapolated central differences of the closed form."""
    import autograd
    import autograd.numpy as anp
    from autograd.misc.fixed_points import fixed_point

    n = c.int(2, 3)
    vseed = c.seed()
    (M0, b, w), _ = values.generic(vseed, [(n, n), (n,), (n,)], -1.0, 1.0)
    M = 0.4 * M0 / max(1.0, float(onp.max(onp.abs(onp.linalg.eigvals(M0)))))
    a0 = c.choice([0.5, 0.8, 1.1])
    order = c.int(1, 3)
    form = c.int(0, 1)  # the parameter enters the map linearly / also through a second factor (a * a)
    sample = {"n": n, "a": a0, "order": order, "form": form, "vseed": vseed}

    def closed(a):
        A = a * M if form == 0 else a * M + 0.1 * a * a * M.T
        return float(w @ onp.linalg.solve(onp.eye(n) - A, onp.tanh(b * a)))

    def step(a):
        if form == 0:
            return lambda x: a * anp.dot(M, x) + anp.tanh(b * a)
        return lambda x: a * anp.dot(M, x) + 0.1 * a * a * anp.dot(M.T, x) + anp.tanh(b * a)

    dist = lambda x, y: float(onp.max(onp.abs(onp.asarray(autograd.tracer.getval(x)) - onp.asarray(autograd.tracer.getval(y)))))
    phi = lambda a: anp.dot(w, fixed_point(step, a, onp.zeros(n), dist, 1e-14))

    def num(f, x, k):
        if k == 0:
            return f(x)
        h = 2e-2 if k == 1 else 4e-2
        d = lambda hh: (num(f, x + hh, k - 1) - num(f, x - hh, k - 1)) / (2 * hh)
        return (4 * d(h / 2) - d(h)) / 3

    want = num(closed, a0, order)
    g = phi
    try:
        for _ in range(order):
            g = autograd.grad(g)
        got = float(g(a0))
    except Exception as e:
        from ..case import describe_exc, from_autograd

        if not from_autograd(e):
            raise
        return fail("unexpected_exception", describe_exc(e), "C07|fixed_point|exception", sample=sample)
    tol = {1: 1e-7, 2: 1e-5, 3: 2e-3}[order] * max(1.0, abs(want))
    if not abs(got - want) <= tol:
        return fail("wrong_value", f"order-{order} derivative through fixed_point: autograd {got!r}, closed form {want!r}", f"C07|fixed_point|order{order}", sample=sample)
    c.features.update(order=order, form=form)
    return ok(nontrivial=order >= 2, key=json.dumps([n, a0, order, form]), labels=["fixed_point", f"order={order}"], sample=sample)


def tests():
    out = []
    for name, t in sorted(TEMPLATES.items()):
        out.append(Test("hvp:" + name, partial(_body, t), quick=50 * t.weight, thorough=400 * t.weight, shard_size=100))
        if binary_complex_capable(t):
            out.append(Test("hvpm:" + name, partial(_body_mixed, t), quick=30 * t.weight, thorough=250 * t.weight, shard_size=100))
    out.append(Test("hvp:programs", _prog_body, quick=400, thorough=6000, shard_size=100))
    out.append(Test("mixed_partials", mixed_body, quick=400, thorough=3000, shard_size=100))
    out.append(Test("zero_entries", zero_entries_body, quick=1500, thorough=10000, shard_size=150))
    out.append(Test("saturated", saturated_body, quick=1200, thorough=8000, shard_size=150))
    out.append(Test("fixed_point", fixed_point_body, quick=120, thorough=600, shard_size=20))
    out.append(Test("order3", partial(high_order_body, 3), quick=300, thorough=5000, shard_size=100))
    out.append(Test("order4", partial(high_order_body, 4), quick=150, thorough=3000, shard_size=60))
    return out


PROP = Prop("C07", tests(), RULE, assumptions=[
    "second differences of raw NumPy (Richardson, self-tested) as the value oracle at 1e-6; mode agreement and symmetry are exact identities at 1e-9",
    "symbolic reference differentiator for orders 3-4 on scalar expressions",
], selftest=oracle.selftest)
