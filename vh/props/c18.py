"""C18 — the bundled gradient checker accepts correct rules and rejects wrong ones."""
import json
import math

import numpy as onp

from .. import values
from ..case import Outcome, describe_exc, fail, from_autograd, ok
from ..engine import Prop, Test

RULE = (
    "A case is one CELL: (primitive family in {elementwise, matmul, broadcast, complex-holomorphic, container, scalar}, argument shape, "
    "defect operator in {none, factor 1+-eps (eps = 3e-3, 1e-2, 1e-1), sign flip, transpose, missing reduction, missing conj, dropped "
    "imaginary cotangent, one wrong entry (>= 1e-2 relative), second-order-only (rule right, rule's own derivative wrong)}, defect "
    "placed in the VJP or the JVP rule, modes requested in {[rev], [fwd], [fwd, rev] (default)}, order in {1, 2}) x N trials (100 "
    "quick / 300 thorough); every trial seeds numpy.random (which check_grads draws its projections from) from the case's own "
    "choice sequence and restores it. Decision: (a) defect 'none': check_grads must return normally in every trial; (b) defect cells: "
    "with m misses in N trials the cell violates iff the exact binomial tail P[X >= m | N, p = 0.01] < 1e-6, i.e. the miss rate is "
    "significantly above the allowed 1 % (a deterministic function of the seeds). Non-trivial = a defect cell, or a correct primitive "
    "with complex / container arguments or order 2; distinct by cell. One cell in four registers every rule twice - an earlier wrong version "
    "first, then the intended one - so the verdict must follow the rule registered last. combo: combo_check over lists of 1-3 x 1-2 positional values and 1-3 x "
    "1-2 keyword values of a two-argument primitive whose VJP or JVP rule is wrong (factor 1.1 or sign) for exactly one drawn combination "
    "(or none), 20 trials, same binomial decision: every listed combination must actually be checked."
    ' argnum: check_grads(f, argnum) with positive, negative and tuple positions on a three-argument primitive with one wrong rule. Families skew (antisymmetric linear map), reduce (reductions with unreduced tangents), masked (structural zeros in the derivative; a rule that forgets the mask) and leaves4 (a four-leaf tuple argument or result whose last leaf comes back with shape (1, n)); Python-int points (refusal allowed, acceptance of a wrong rule is not).'
)

FAMILIES = ["elementwise", "matmul", "broadcast", "complex", "container", "scalar", "dict_complex", "skew", "reduce", "masked", "leaves4"]
DEFECTS = ["none", "factor", "sign", "transpose", "missing_reduction", "missing_conj", "drop_imag", "one_entry", "second_order_only", "missing_mask", "keepdims_leaf"]


def binom_tail(n, m, p=0.01):
    return sum(math.comb(n, k) * p ** k * (1 - p) ** (n - k) for k in range(m, n + 1))


def build(family, shape, defect, eps, where, vseed, rereg=False):
    """Return (function f(x), argument x0).  `where` in {'vjp', 'jvp'} says which rule carries the defect.  With rereg every rule is
    registered twice: first an earlier, wrong version, then the intended one (the workflow of fixing a rule and re-running the checker)."""
    import autograd.numpy as anp
    from autograd.builtins import tuple as ab_tuple
    from autograd.extend import defjvp, defvjp, primitive

    if rereg:
        first_vjp, first_jvp = defvjp, defjvp

        def defvjp(fun, *rules, **kw):  # noqa: F811
            first_vjp(fun, *[(lambda ans, *a, **k: (lambda g: 0.37)) for _ in rules], **kw)
            first_vjp(fun, *rules, **kw)

        def defjvp(fun, *rules, **kw):  # noqa: F811
            first_jvp(fun, *[(lambda g, ans, *a, **k: 0.37) for _ in rules], **kw)
            first_jvp(fun, *rules, **kw)

    dv = defect if where == "vjp" else "none"
    dj = defect if where == "jvp" else "none"

    def wrong_entry(r):
        r = onp.array(r)
        if r.size:
            idx = (r.size // 2,)
            flat = r.reshape(-1)
            flat[idx] = flat[idx] * 1.05 + 0.02
        return r

    def apply_defect(kind, val, x=None):
        if kind == "factor":
            return val * (1.0 + eps)
        if kind == "sign":
            return -val
        if kind == "transpose":
            return anp.swapaxes(val, -1, -2)
        if kind == "one_entry":
            return wrong_entry_prim(val)
        return val

    @primitive
    def wrong_entry_prim(r):
        return wrong_entry(r)

    defvjp(wrong_entry_prim, lambda ans, r: lambda g: g)
    defjvp(wrong_entry_prim, lambda g, ans, r: g)

    # helper with a correct value but a wrong derivative (for second-order-only defects)
    @primitive
    def cos_bad(x):
        return onp.cos(x)

    defvjp(cos_bad, lambda ans, x: lambda g: -g * anp.sin(x) * 1.5)
    defjvp(cos_bad, lambda g, ans, x: -g * anp.sin(x) * 1.5)

    if family in ("elementwise", "scalar"):
        sh = () if family == "scalar" else shape
        # well-scaled points: cos(x) >= 0.36, so a relative defect of the rule is not hidden below check_grads' absolute tolerance
        (cc, x0), _ = values.generic(vseed, [sh, sh], 0.4, 1.2)
        if family == "scalar":
            x0, cc = float(x0), float(cc)

        @primitive
        def f(x):
            return onp.sin(x) * cc

        cosv = lambda x: cos_bad(x) if dv == "second_order_only" else anp.cos(x)
        cosj = lambda x: cos_bad(x) if dj == "second_order_only" else anp.cos(x)
        defvjp(f, lambda ans, x: lambda g: apply_defect(dv, g * cosv(x) * cc))
        defjvp(f, lambda g, ans, x: apply_defect(dj, g * cosj(x) * cc))
        return f, x0
    if family == "reduce":
        # a reduction (over everything, or over the leading axis): the forward rule must reduce its tangent like the function reduces its
        # argument - a rule that hands back the UNREDUCED tangent has the wrong shape, which only a checker that compares spaces notices
        m, n = 3, max(2, shape[-1] if shape else 2)
        full = bool(vseed % 2)
        (W, x0), _ = values.generic(vseed, [(m, n), (m, n)], 0.4, 1.6)
        red = (lambda a: onp.sum(a)) if full else (lambda a: onp.sum(a, axis=0))
        ared = (lambda a: anp.sum(a)) if full else (lambda a: anp.sum(a, axis=0))

        @primitive
        def f(X):
            return red(onp.sin(X) * W)

        def vjp(ans, X):
            def r(g):
                if dv == "missing_reduction":
                    return (g * anp.cos(X) * W)[0] if not full else g * anp.cos(X[0]) * W[0]  # cotangent not spread over the reduced axis
                return apply_defect(dv, g * anp.cos(X) * W)
            return r

        def jvp(g, ans, X):
            if dj == "missing_reduction":
                return g * anp.cos(X) * W  # the tangent is not reduced
            return apply_defect(dj, ared(g * anp.cos(X) * W))

        defvjp(f, vjp)
        defjvp(f, jvp)
        return f, x0
    if family == "masked":
        # a function whose derivative has structural zeros (the strict lower triangle of the result does not depend on the argument): a rule
        # that forgets the mask is wrong ONLY where the true derivative is zero - invisible to a checker that projects on the true derivative
        n = max(2, shape[0] if shape else 3)
        (W, x0), _ = values.generic(vseed, [(n, n), (n, n)], 0.4, 1.2)

        @primitive
        def f(X):
            return onp.triu(onp.sin(X) * W)

        def vjp(ans, X):
            def r(g):
                if dv == "missing_mask":
                    return g * anp.cos(X) * W
                return apply_defect(dv, anp.triu(g) * anp.cos(X) * W)
            return r

        def jvp(g, ans, X):
            if dj == "missing_mask":
                return g * anp.cos(X) * W
            return apply_defect(dj, anp.triu(g * anp.cos(X) * W))

        defvjp(f, vjp)
        defjvp(f, jvp)
        return f, x0
    if family == "leaves4":
        # containers with four array leaves, handed over whole: a tuple ARGUMENT (defect in the reverse rule) or a tuple RESULT (defect in
        # the forward rule).  keepdims_leaf: the LAST leaf comes back with shape (1, n) instead of (n,) - same size, another space
        n = max(2, shape[0] if shape else 3)
        (a0, b0, c0, d0), _ = values.generic(vseed, [(n,), (n,), (n,), (n,)], 0.4, 1.2)
        if where == "vjp":
            @primitive
            def f(t):
                a, b, cc_, d = t
                return onp.sin(a) * b + cc_ * d

            def vjp(ans, t):
                a, b, cc_, d = t

                def r(g):
                    last = g * cc_
                    if dv == "keepdims_leaf":
                        last = anp.reshape(last, (1, n))
                    return ab_tuple((apply_defect(dv, g * anp.cos(a) * b), g * anp.sin(a), g * d, last))
                return r

            def jvp(g, ans, t):
                a, b, cc_, d = t
                return g[0] * anp.cos(a) * b + g[1] * anp.sin(a) + g[2] * d + g[3] * cc_

            defvjp(f, vjp)
            defjvp(f, jvp)
            return f, (a0, b0, c0, d0)

        @primitive
        def f(x):
            return (onp.sin(x) * b0, onp.cos(x), x * x, c0 * x)

        def vjp(ans, x):
            return lambda g: g[0] * anp.cos(x) * b0 - g[1] * anp.sin(x) + g[2] * 2 * x + g[3] * c0

        def jvp(g, ans, x):
            last = g * c0
            if dj == "keepdims_leaf":
                last = anp.reshape(last, (1, n))
            return ab_tuple((apply_defect(dj, g * anp.cos(x) * b0), -g * anp.sin(x), g * 2 * x, last))

        defvjp(f, vjp)
        defjvp(f, jvp)
        return f, a0
    if family == "skew":
        # a linear map with an antisymmetric matrix on vectors (input and output live in the SAME space): a transposed Jacobian or a flipped
        # sign is then a purely antisymmetric error - invisible to a checker that pairs J v with v itself
        n = max(2, shape[0] if shape else 3)
        (M0, x0), _ = values.generic(vseed, [(n, n), (n,)], 0.4, 1.6)
        S = M0 - M0.T

        @primitive
        def f(x):
            return onp.dot(S, x)

        def vjp(ans, x):
            def r(g):
                if dv == "transpose":
                    return anp.dot(S, g)
                return apply_defect(dv, anp.dot(S.T, g))
            return r

        def jvp(g, ans, x):
            if dj == "transpose":
                return anp.dot(S.T, g)
            return apply_defect(dj, anp.dot(S, g))

        defvjp(f, vjp)
        defjvp(f, jvp)
        return f, x0
    if family == "matmul":
        n = max(2, shape[0] if shape else 2)
        (B, x0), _ = values.generic(vseed, [(n, n), (n, n)], -1.1, 1.1)

        @primitive
        def f(X):
            return onp.dot(onp.sin(X), B)

        cosv = lambda x: cos_bad(x) if dv == "second_order_only" else anp.cos(x)
        cosj = lambda x: cos_bad(x) if dj == "second_order_only" else anp.cos(x)
        defvjp(f, lambda ans, X: lambda g: apply_defect(dv, anp.dot(g, B.T)) * cosv(X))
        defjvp(f, lambda g, ans, X: apply_defect(dj, anp.dot(g * cosj(X), B)))
        return f, x0
    if family == "broadcast":
        m, n = 3, max(2, shape[-1] if shape else 2)
        (A, x0), _ = values.generic(vseed, [(m, n), (n,)], 0.4, 1.6)

        @primitive
        def f(b):
            return A * onp.sin(b)

        def vjp(ans, b):
            def r(g):
                full = g * A * anp.cos(b)
                if dv == "missing_reduction":
                    return full
                return apply_defect(dv, anp.sum(full, axis=0))
            return r

        def jvp(g, ans, b):
            if dj == "missing_reduction":
                return g * anp.cos(b) * A[0]  # tangent not broadcast against A: wrong rows
            return apply_defect(dj, A * (g * anp.cos(b)))

        defvjp(f, vjp)
        defjvp(f, jvp)
        return f, x0
    if family == "complex":
        sh = shape
        (cr, xr, xi), _ = values.generic(vseed, [sh, sh, sh], 0.4, 1.6)
        cc = cr + 0.5j
        x0 = xr + 1j * (xi - 1.0)

        @primitive
        def f(z):
            return z * z * cc

        def vjp(ans, z):
            def r(g):
                if dv == "missing_conj":
                    return g * anp.conj(2 * z * cc)
                if dv == "drop_imag":
                    return anp.real(g) * (2 * z * cc)
                return apply_defect(dv, g * 2 * z * cc)
            return r

        def jvp(g, ans, z):
            if dj == "missing_conj":
                return anp.conj(g) * 2 * z * cc
            if dj == "drop_imag":
                return anp.real(g) * 2 * z * cc
            return apply_defect(dj, g * 2 * z * cc)

        defvjp(f, vjp)
        defjvp(f, jvp)
        return f, (complex(x0) if sh == () else x0)
    if family == "dict_complex":
        # a dict argument with a complex and a real entry: f(d) = d["z"] * d["z"] * cc + d["r"]
        sh = shape or (2,)
        (cr, zr, zi, r0), _ = values.generic(vseed, [sh, sh, sh, sh], 0.4, 1.6)
        cc = cr + 0.5j
        z0 = zr + 1j * (zi - 1.0)
        from autograd.builtins import dict as ab_dict

        @primitive
        def f(d):
            return d["z"] * d["z"] * cc + d["r"]

        def vjp(ans, d):
            z = d["z"]

            def r(g):
                gz = g * 2 * z * cc
                if dv == "missing_conj":
                    gz = g * anp.conj(2 * z * cc)
                elif dv == "drop_imag":
                    gz = anp.real(g) * (2 * z * cc)
                else:
                    gz = apply_defect(dv, gz)
                # (a dict is the same value whatever order it was built in: half of the cases build the gradient in the other key order)
                return ab_dict({"r": anp.real(g), "z": gz}) if vseed % 2 else ab_dict({"z": gz, "r": anp.real(g)})
            return r

        def jvp(g, ans, d):
            z = d["z"]
            tz = g["z"] * 2 * z * cc
            if dj == "missing_conj":
                tz = anp.conj(g["z"]) * 2 * z * cc
            elif dj == "drop_imag":
                tz = anp.real(g["z"]) * 2 * z * cc
            else:
                tz = apply_defect(dj, tz)
            return tz + g["r"]

        defvjp(f, vjp)
        defjvp(f, jvp)
        return f, {"z": z0, "r": r0}
    # container argument: f((a, b)) = sin(a) * b  -> array
    sh = shape or (2,)
    (a0, b0), _ = values.generic(vseed, [sh, sh], 0.4, 1.6)

    @primitive
    def f(ab):
        a, b = ab
        return onp.sin(a) * b

    def vjp(ans, ab):
        a, b = ab
        # the cotangent of a container argument must be built with autograd's own tuple (plain containers are opaque)
        return lambda g: ab_tuple((apply_defect(dv, g * anp.cos(a) * b), g * anp.sin(a)))

    def jvp(g, ans, ab):
        a, b = ab
        return apply_defect(dj, g[0] * anp.cos(a) * b) + g[1] * anp.sin(a)

    defvjp(f, vjp)
    defjvp(f, jvp)
    return f, (a0, b0)


def applicable(family, defect, where, order):
    if defect == "missing_mask":
        return family == "masked"
    if defect == "keepdims_leaf":
        return family == "leaves4"
    if family == "masked":
        return defect in ("factor", "sign", "one_entry")
    if family == "leaves4":
        return defect in ("factor", "sign")
    if defect == "transpose":
        return family in ("matmul", "skew")
    if family == "skew":
        return defect in ("factor", "sign", "one_entry")
    if defect == "missing_reduction":
        return family in ("broadcast", "reduce")
    if family == "reduce":
        return defect in ("factor", "sign", "one_entry")
    if defect in ("missing_conj", "drop_imag"):
        return family in ("complex", "dict_complex")
    if defect == "second_order_only":
        return family in ("elementwise", "scalar", "matmul") and order == 2
    if defect == "one_entry":
        return family in ("elementwise", "matmul", "broadcast", "container")
    if family == "dict_complex":
        return defect in ("factor", "sign", "missing_conj", "drop_imag")
    return True


def cell_body(trials, c):
    from autograd.test_util import check_grads

    family = FAMILIES[c.int(0, len(FAMILIES) - 1)]
    where = c.choice(["vjp", "jvp"])
    order = c.int(1, 2)
    cands = [d for d in DEFECTS if d != "none" and applicable(family, d, where, order)]
    defect = cands[c.int(0, len(cands) - 1)] if c.chance(4, 5) else "none"
    eps = c.choice([3e-3, 1e-2, 1e-1, -1e-2])
    modes_req = c.choice(["default", "rev", "fwd"])
    shape = c.choice([(), (3,), (3, 2), (4, 4)]) if family not in ("matmul", "skew", "masked", "leaves4") else c.choice([(2,), (3,), (4,)])
    if family in ("broadcast", "reduce"):
        shape = c.choice([(2,), (4,)])
    if not applicable(family, defect, where, order):
        defect = "none"
    # the requested modes must cover the defective rule
    covered = modes_req == "default" or (modes_req == "rev" and where == "vjp") or (modes_req == "fwd" and where == "jvp")
    if defect != "none" and not covered:
        modes_req = "default"
    vseed = c.seed()
    base = c.seed()
    rereg = c.chance(1, 4)
    sample = {"family": family, "defect": defect, "eps": eps if defect == "factor" else None, "where": where if defect != "none" else None,
              "order": order, "modes": modes_req, "shape": list(shape), "trials": trials, "vseed": vseed, "seed_base": base, "registered_twice": rereg}
    # the point (scalar family only) may be a Python int: the checker may refuse it loudly, but it must not ACCEPT a wrong rule there
    int_point = family == "scalar" and c.chance(1, 3)
    sample["int_point"] = int_point
    try:
        f, x0 = build(family, shape, defect, eps, where, vseed, rereg)
    except Exception as e:
        if not from_autograd(e):
            raise
        return fail("unexpected_exception", describe_exc(e), "C18|build", sample=sample)
    if int_point:
        x0 = 1
    kwargs = {"order": order}
    if modes_req != "default":
        kwargs["modes"] = [modes_req]
    state = onp.random.get_state()
    rejected = 0
    first_err = None
    other_exc = None
    try:
        for i in range(trials):
            onp.random.seed((base * 7919 + i * 104729 + 12345) % (2 ** 32))
            try:
                check_grads(f, **kwargs)(x0)
            except AssertionError as e:
                rejected += 1
                first_err = first_err or str(e)[:160]
            except NotImplementedError as e:
                if "not defined" in str(e) and ("JVP of" in str(e) or "VJP of" in str(e)):
                    # autograd has no rule for an operation the requested mode/order needs (e.g. forward mode through a dict
                    # constructor): the cell is not applicable - loud, and not a verdict of the checker
                    onp.random.set_state(state)
                    from ..case import raised as _raised

                    return _raised(e, "check_grads", sample=sample)
                rejected += 1
                other_exc = other_exc or describe_exc(e)
            except Exception as e:
                if not from_autograd(e):
                    raise
                rejected += 1  # any loud failure of the checker on a defective rule counts as a rejection
                other_exc = other_exc or describe_exc(e)
    finally:
        onp.random.set_state(state)
    c.features.update({k: v for k, v in sample.items() if k not in ("vseed", "seed_base")})
    cell = json.dumps([family, defect, eps if defect == "factor" else None, where if defect != "none" else None, order, modes_req, list(shape), rereg, int_point])
    labels = ["family=" + family, "defect=" + defect, f"order={order}", "modes=" + modes_req] + (["registered_twice"] if rereg else [])
    if int_point and rejected == trials and first_err is None:
        # refused every time with an error that is not a verdict (no derivative with respect to an int): loud, allowed
        from ..case import Outcome as _Outcome

        return _Outcome("raised", kind="int point refused", detail=other_exc, labels=labels + ["int_point"], sample=sample)
    if defect == "none":
        if rejected:
            return fail("false_rejection", f"check_grads rejected a correct primitive in {rejected}/{trials} trials: {first_err or other_exc}",
                        f"C18|false_rejection|{family}", sample=sample)
        return ok(nontrivial=family in ("complex", "container", "dict_complex", "leaves4") or order == 2, key=cell, labels=labels, sample=sample)
    misses = trials - rejected
    tail = binom_tail(trials, misses) if misses else 1.0
    sample["misses"] = misses
    if misses and tail < 1e-6:
        return fail("missed_defect", f"check_grads accepted a wrong rule in {misses}/{trials} trials (P[X>={misses} | p=0.01] = {tail:.2e})",
                    f"C18|missed|{family}|{defect}|{where}|order{order}|{modes_req}", sample=sample)
    return ok(nontrivial=True, key=cell, labels=labels + (["some_misses"] if misses else []), sample=sample)


def argnum_body(trials, c):
    """check_grads(f, argnum)(a, b, c): the checker examines the argument(s) the caller names - by a positive or NEGATIVE position, or a tuple of
    positions.  A three-argument primitive p(a, b, c) = sin(a) * b + c * c whose rule for ONE argument (drawn) is wrong by a factor or a sign: a
    check that names that argument must reject it (same binomial decision as cells); a check that does not name it, or a correct primitive, must pass."""
    import autograd.numpy as anp
    from autograd.extend import defjvp, defvjp, primitive
    from autograd.test_util import check_grads

    vseed, base = c.seed(), c.seed()
    bad = c.int(0, 2)
    defect = c.choice(["factor", "sign", "none"])
    where = c.choice(["vjp", "jvp"])
    form = c.choice(["pos", "neg", "tuple_pos", "tuple_neg", "tuple_all", "tuple_mixed", "default"])
    order = c.int(1, 2)
    sh = c.choice([(), (3,)])
    (a0, b0, c0), _ = values.generic(vseed, [sh, sh, sh], 0.4, 1.2)
    if sh == ():
        a0, b0, c0 = float(a0), float(b0), float(c0)
    argnum = {"pos": bad, "neg": bad - 3, "tuple_pos": (bad,), "tuple_neg": (bad - 3,), "tuple_all": (0, 1, 2), "tuple_mixed": ((bad + 1) % 3, bad - 3), "default": None}[form]
    named = (form != "default") or bad == 0  # the default examines argument 0
    k = {"factor": 1.1, "sign": -1.0, "none": 1.0}[defect]
    kv = [k if (i == bad and where == "vjp") else 1.0 for i in range(3)]
    kj = [k if (i == bad and where == "jvp") else 1.0 for i in range(3)]

    @primitive
    def p(a, b, cc):
        return onp.sin(a) * b + cc * cc

    defvjp(p, lambda ans, a, b, cc: lambda g: kv[0] * g * anp.cos(a) * b, lambda ans, a, b, cc: lambda g: kv[1] * g * anp.sin(a), lambda ans, a, b, cc: lambda g: kv[2] * g * 2 * cc)
    defjvp(p, lambda g, ans, a, b, cc: kj[0] * g * anp.cos(a) * b, lambda g, ans, a, b, cc: kj[1] * g * anp.sin(a), lambda g, ans, a, b, cc: kj[2] * g * 2 * cc)
    sample = {"bad_arg": bad, "defect": defect, "where": where, "form": form, "argnum": repr(argnum), "order": order, "shape": list(sh), "trials": trials, "vseed": vseed, "seed_base": base}
    c.features.update({k_: v_ for k_, v_ in sample.items() if k_ not in ("vseed", "seed_base")})
    state = onp.random.get_state()
    rejected, first_err, other = 0, None, None
    try:
        for i in range(trials):
            onp.random.seed((base * 7919 + i * 104729 + 777) % (2 ** 32))
            try:
                (check_grads(p, order=order) if argnum is None else check_grads(p, argnum, order=order))(a0, b0, c0)
            except AssertionError as e:
                rejected += 1
                first_err = first_err or str(e)[:160]
            except Exception as e:
                if not from_autograd(e):
                    raise
                rejected += 1
                other = other or describe_exc(e)
    finally:
        onp.random.set_state(state)
    cell = json.dumps([bad, defect, where, form, order, list(sh)])
    labels = ["argnum", "form=" + form, "defect=" + defect]
    if defect == "none" or not named:
        if rejected:
            return fail("false_rejection", f"check_grads(p, {argnum!r}) rejected although the rules of the examined argument(s) are right, in {rejected}/{trials} trials: {first_err or other}",
                        f"C18|argnum|false_rejection|{form}", sample=sample)
        return ok(nontrivial=form != "default", key=cell, labels=labels, sample=sample)
    misses = trials - rejected
    tail = binom_tail(trials, misses) if misses else 1.0
    if misses and tail < 1e-6:
        return fail("missed_defect", f"check_grads(p, {argnum!r}) accepted a wrong {where} rule of argument {bad} in {misses}/{trials} trials", f"C18|argnum|missed|{form}|{where}", sample=sample)
    return ok(nontrivial=True, key=cell, labels=labels, sample=sample)


def combo_body(trials, c):
    """combo_check: every combination of the listed positional values and keyword values is checked.  A two-argument primitive with two
    keyword options carries a wrong rule (factor 1.1 / sign / transpose-like swap) for exactly one drawn combination - or for none."""
    import autograd.numpy as anp
    from autograd.extend import defjvp, defvjp, primitive
    from autograd.test_util import combo_check

    nx, nw = c.int(1, 3), c.int(1, 2)
    scales = [1.0, 0.5, 2.0][:c.int(1, 3)]
    kinds = ["sin", "tanh"][:c.int(1, 2)]
    shape = c.choice([(), (3,), (2, 2)])
    vseed = c.seed()
    base = c.seed()
    vals, _ = values.generic(vseed, [shape] * (nx + nw), 0.4, 1.2)
    xs, ws = [onp.array(v) for v in vals[:nx]], [onp.array(v) for v in vals[nx:]]
    has_defect = c.chance(3, 4)
    bad = (c.int(0, nx - 1), c.int(0, nw - 1), scales[c.int(0, len(scales) - 1)], kinds[c.int(0, len(kinds) - 1)]) if has_defect else None
    defect = c.choice(["factor", "sign"])
    where = c.choice(["vjp_x", "vjp_w", "jvp_x", "jvp_w"])
    modes_req = c.choice(["default", "rev", "fwd"])
    if has_defect and ((modes_req == "rev" and where.startswith("jvp")) or (modes_req == "fwd" and where.startswith("vjp"))):
        modes_req = "default"
    K = {"sin": (onp.sin, onp.cos), "tanh": (onp.tanh, lambda t: 1.0 - onp.tanh(t) ** 2)}

    def is_bad(x, w, scale, kind, slot):
        if bad is None or slot != where:
            return False
        return (onp.array_equal(x, xs[bad[0]]) and onp.array_equal(w, ws[bad[1]]) and scale == bad[2] and kind == bad[3])

    def spoil(val):
        return val * 1.1 if defect == "factor" else -val

    @primitive
    def h(x, w, scale=1.0, kind="sin"):
        return scale * K[kind][0](x) * w

    defvjp(h,
           lambda ans, x, w, scale=1.0, kind="sin": lambda g: (spoil if is_bad(x, w, scale, kind, "vjp_x") else (lambda t: t))(g * scale * K[kind][1](x) * w),
           lambda ans, x, w, scale=1.0, kind="sin": lambda g: (spoil if is_bad(x, w, scale, kind, "vjp_w") else (lambda t: t))(g * scale * K[kind][0](x)))
    defjvp(h,
           lambda g, ans, x, w, scale=1.0, kind="sin": (spoil if is_bad(x, w, scale, kind, "jvp_x") else (lambda t: t))(g * scale * K[kind][1](x) * w),
           lambda g, ans, x, w, scale=1.0, kind="sin": (spoil if is_bad(x, w, scale, kind, "jvp_w") else (lambda t: t))(g * scale * K[kind][0](x)))

    def fun(x, w, scale=1.0, kind="sin"):
        return anp.sum(h(x, w, scale=scale, kind=kind)) if len(shape) else h(x, w, scale=scale, kind=kind)

    sample = {"nx": nx, "nw": nw, "scales": scales, "kinds": kinds, "shape": list(shape), "bad": list(bad) if bad else None, "defect": defect if bad else None,
              "where": where if bad else None, "modes": modes_req, "trials": trials, "vseed": vseed, "seed_base": base}
    kw = {"order": 1}
    if modes_req != "default":
        kw["modes"] = [modes_req]
    state = onp.random.get_state()
    rejected = 0
    first = None
    try:
        for i in range(trials):
            onp.random.seed((base * 7919 + i * 104729 + 4321) % (2 ** 32))
            try:
                combo_check(fun, (0, 1), **kw)(xs, ws, scale=scales, kind=kinds)
            except AssertionError as e:
                rejected += 1
                first = first or str(e)[:160]
            except Exception as e:
                if not from_autograd(e):
                    raise
                onp.random.set_state(state)
                return fail("unexpected_exception", describe_exc(e), "C18|combo|exception", sample=sample)
    finally:
        onp.random.set_state(state)
    ncombo = nx * nw * len(scales) * len(kinds)
    labels = ["combo", f"combinations={min(ncombo, 12)}", "defect=" + (defect if bad else "none"), "modes=" + modes_req]
    key = json.dumps({k: v for k, v in sample.items() if k not in ("vseed", "seed_base")})
    if bad is None:
        if rejected:
            return fail("false_rejection", f"combo_check rejected a correct primitive in {rejected}/{trials} trials: {first}", "C18|combo|false_rejection", sample=sample)
        return ok(nontrivial=ncombo >= 2, key=key, labels=labels, sample=sample)
    misses = trials - rejected
    tail = binom_tail(trials, misses) if misses else 1.0
    if misses and tail < 1e-6:
        last = bad == (nx - 1, nw - 1, scales[-1], kinds[-1])
        firstc = bad == (0, 0, scales[0], kinds[0])
        return fail("missed_defect", f"combo_check accepted a rule that is wrong for the combination {list(bad)} in {misses}/{trials} trials "
                    f"(P[X>={misses} | p=0.01] = {tail:.2e})", f"C18|combo|missed|{'first' if firstc else 'last' if last else 'inner'}", sample=sample)
    return ok(nontrivial=ncombo >= 2, key=key, labels=labels, sample=sample)


from functools import partial  # noqa: E402

PROP = Prop("C18", [
    Test("cells", partial(cell_body, 100), quick=960, thorough=0, shard_size=30),
    Test("cells_300", partial(cell_body, 300), quick=0, thorough=2000, shard_size=60),
    Test("combo", partial(combo_body, 20), quick=320, thorough=3000, shard_size=20),
    Test("argnum", partial(argnum_body, 30), quick=480, thorough=3000, shard_size=30),
], RULE, level="exploration", assumptions=[
    "statistical decision rule: one-sided exact binomial test at alpha = 1e-6 per cell against the stated 0.99 rejection probability; "
    "a checker whose power lies between ~0.93 and 0.99 can go undetected",
    "numpy.random's global generator is the only source of check_grads' randomness",
])
