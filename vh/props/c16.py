"""C16 — all differential operators agree with one ground-truth Jacobian."""
import json

import numpy as onp

from .. import values
from ..case import Outcome, describe_exc, fail, from_autograd, ok, raised
from ..engine import Prop, Test

RULE = (
    "Closed-form tensor functions f(x; A,B,c) = sin(A (x) x) + B (x) (x*x) + c with x of rank 0-3 and output of rank 0-3 (A,B of shape "
    "out+in, contraction over all input axes; scalar cases use python floats / 0-d), and a two-argument scalar function "
    "F(x,w) = sin(A.x) + B.x^2 + (U.x)(V.w) + D.w^2 + sin(E.w) scaled by extra positional and keyword parameters placed before / "
    "between / after the differentiated arguments in a drawn signature; argnum given as int, tuple, list or by name. Oracle (closed "
    "form, 1e-10 relative): J = cos(a) A + 2 B x (shape out+in), H = -sin(a) A A + 2 B delta; jacobian, grad, elementwise_grad, deriv, "
    "make_jvp, make_jvp_reversemode, tensor_jacobian_product for every leading-axes cotangent rank, jacobian-of-jacobian, hessian, "
    "hessian_tensor_product/_vector_product (every argnum, keyword extras), make_hvp, make_ggnvp (default and custom g), "
    "value_and_grad, grad_and_aux, multi-argnum grad/jacobian/make_vjp/make_jvp, grad_named. Non-trivial = input or output rank >= 2, "
    "rank 0 on either side, or tuple/list/named argnum / non-default layout; distinct by (shapes, operator, layout)."
    ' Later: functions handed over as bound methods / callable objects, negative argnum, container_args (tuple / list / dict / nested arguments, multigrad_dict), linalg_results (fields of numpy.linalg results read in six spellings), multigrad3 (three positions through one user primitive); scalar functions that end in a full reduction (sum / mean) of the array-valued one; the aux of grad_and_aux under an enclosing grad / make_jvp.'
)

TOL = 1e-10


def close(a, b, what, bucket, sample, tol=None):
    tol = TOL if tol is None else tol
    try:
        aa = onp.asarray(a, dtype=float)
    except Exception as e:
        return fail("wrong_kind", f"{what}: result {type(a).__name__} is not a float array ({e})", bucket("wrong_kind"), sample=sample)
    bb = onp.asarray(b, dtype=float)
    if aa.shape != bb.shape:
        return fail("wrong_shape", f"{what}: shape {aa.shape}, expected {bb.shape}", bucket("wrong_shape"), sample=sample)
    scale = max(1.0, float(onp.max(onp.abs(bb), initial=0.0)))
    if not onp.all(onp.abs(aa - bb) <= tol * scale):
        return fail("wrong_value", f"{what}: max abs error {float(onp.max(onp.abs(aa - bb))):.3e} (scale {scale:.3g})", bucket("wrong_value"), sample=sample)
    return None


def _sz(s):
    return int(onp.prod(s)) if len(s) else 1


OPS1 = ["jacobian", "grad", "elementwise_grad", "deriv", "make_jvp", "make_jvp_reversemode", "tensor_jacobian_product", "jac_of_jac",
        "value_and_grad", "grad_and_aux", "make_vjp", "hessian", "make_hvp", "hessian_tensor_product", "make_ggnvp"]


def tensor_body(c):
    import autograd
    import autograd.numpy as anp
    from autograd import differential_operators as do

    in_shape = c.shape(0, 3, max_side=3)
    out_shape = c.shape(0, 3, max_side=2)
    op = OPS1[c.int(0, len(OPS1) - 1)]
    vseed = c.seed()
    carrier = c.choice(["array", "pyfloat", "array0d"]) if in_shape == () else "array"
    (A, B, cc, x0), _ = values.generic(vseed, [out_shape + in_shape, out_shape + in_shape, out_shape, in_shape], -1.0, 1.0)
    nin = len(in_shape)

    def f(x, ns=anp):
        a = ns.tensordot(A, x, nin) if nin else A * x
        b = ns.tensordot(B, x * x, nin) if nin else B * (x * x)
        return ns.sin(a) + b + cc

    xa = onp.asarray(x0)
    a0 = onp.tensordot(A, xa, nin) if nin else A * xa
    y0 = onp.sin(a0) + (onp.tensordot(B, xa * xa, nin) if nin else B * xa * xa) + cc
    J = onp.cos(a0).reshape(out_shape + (1,) * nin) * A + 2 * B * xa  # shape out+in
    # H[o, i, j] = -sin(a_o) A_oi A_oj + 2 B_oi delta_ij   (flattened input indices)
    no, ni = _sz(out_shape), _sz(in_shape)
    Af, Bf = A.reshape(no, ni), B.reshape(no, ni)
    Hf = -onp.sin(a0).reshape(no, 1, 1) * Af[:, :, None] * Af[:, None, :] + 2 * Bf[:, :, None] * onp.eye(ni)[None]
    H = Hf.reshape(out_shape + in_shape + in_shape)
    # a scalar function that ENDS in a full reduction of the array-valued one (read off the value seed: no extra draw)
    tail = ["none", "none", "sum", "mean"][vseed % 4] if out_shape != () else "none"
    if tail != "none":
        f_arr, sc = f, (1.0 if tail == "sum" else 1.0 / no)
        f = (lambda x, ns=anp: ns.sum(f_arr(x, ns))) if tail == "sum" else (lambda x, ns=anp: ns.mean(f_arr(x, ns)))
        oax = tuple(range(len(out_shape)))
        y0, J, H = y0.sum() * sc, J.sum(axis=oax) * sc, H.sum(axis=oax) * sc
        out_shape, no = (), 1
    x = float(xa) if carrier == "pyfloat" else (onp.array(xa) if carrier == "array0d" else xa)
    scalar_out = out_shape == ()
    if op in ("grad", "value_and_grad", "grad_and_aux", "hessian", "make_hvp", "hessian_tensor_product") and not scalar_out:
        op = "jacobian"
    if op == "make_ggnvp" and not out_shape:
        op = "jacobian"
    sample = {"in": list(in_shape), "out": list(out_shape), "op": op, "carrier": carrier, "vseed": vseed, "tail": tail}
    bucket = lambda k: f"C16|tensor|{op}|{k}"
    v = values.direction(vseed, in_shape, 3)
    vv = float(v) if carrier == "pyfloat" else v
    g = values.direction(vseed, out_shape, 4)
    Jv = onp.tensordot(J, v, nin) if nin else J * v
    checks = []
    try:
        if op == "jacobian":
            checks.append((autograd.jacobian(f)(x), J, "jacobian"))
        elif op == "grad":
            checks.append((autograd.grad(f)(x), J, "grad"))
        elif op == "elementwise_grad":
            checks.append((autograd.elementwise_grad(f)(x), J.reshape((no,) + in_shape).sum(axis=0), "elementwise_grad"))
        elif op == "deriv":
            ones = onp.ones(in_shape)
            checks.append((autograd.deriv(f)(x), onp.tensordot(J, ones, nin) if nin else J, "deriv"))
        elif op == "make_jvp":
            val, t = autograd.make_jvp(f)(x)(vv)
            checks += [(val, y0, "make_jvp primal"), (t, Jv, "make_jvp tangent")]
        elif op == "make_jvp_reversemode":
            checks.append((do.make_jvp_reversemode(f)(x)(v), Jv, "make_jvp_reversemode"))
        elif op == "tensor_jacobian_product":
            k = c.int(0, len(out_shape))
            T = values.direction(vseed, out_shape[:k], 5)
            want = onp.tensordot(T, J, k) if k else T * J
            checks.append((do.tensor_jacobian_product(f)(x, T), want, f"tensor_jacobian_product(rank {k})"))
            sample["tjp_rank"] = k
        elif op == "jac_of_jac":
            checks.append((autograd.jacobian(autograd.jacobian(f))(x), H, "jacobian(jacobian)"))
        elif op == "value_and_grad":
            val, gr = autograd.value_and_grad(f)(x)
            checks += [(val, y0, "value_and_grad value"), (gr, J, "value_and_grad grad")]
        elif op == "grad_and_aux":
            aux0 = (onp.array([1.5, -2.0]), 3.0)
            gr, aux = autograd.grad_and_aux(lambda t: (f(t), aux0))(x)
            checks.append((gr, J, "grad_and_aux grad"))
            if not (isinstance(aux, tuple) and onp.array_equal(aux[0], aux0[0]) and aux[1] == 3.0):
                return fail("primal_mismatch", f"aux returned as {aux!r}", bucket("aux"), sample=sample)
            # the auxiliary value is handed back untouched also when it depends on the variable of an ENCLOSING differentiation
            # (reverse and forward): d/ds of aux = s * f(x) + s * s is f(x) + 2 s
            aux_of = lambda s_: autograd.grad_and_aux(lambda t: (f(t), s_ * f(t) + s_ * s_))(x)[1]
            checks.append((autograd.grad(aux_of)(0.7), y0 + 1.4, "aux of grad_and_aux under an enclosing grad"))
            checks.append((autograd.make_jvp(aux_of)(0.7)(1.0)[1], y0 + 1.4, "aux of grad_and_aux under an enclosing make_jvp"))
        elif op == "make_vjp":
            vjp, val = autograd.make_vjp(f)(x)
            want = onp.tensordot(g, J, len(out_shape)) if out_shape else g * J
            checks += [(val, y0, "make_vjp primal"), (vjp(g if out_shape else float(g)), want, "make_vjp cotangent")]
        elif op == "hessian":
            checks.append((autograd.hessian(f)(x), H, "hessian"))
        elif op == "make_hvp":
            hvp, gr = autograd.make_hvp(f)(x)
            Hv = onp.tensordot(H, v, nin) if nin else H * v
            checks += [(gr, J, "make_hvp grad"), (hvp(vv), Hv, "make_hvp product")]
        elif op == "hessian_tensor_product":
            Hv = onp.tensordot(H, v, nin) if nin else H * v
            fn = autograd.hessian_tensor_product if c.bool() else autograd.hessian_vector_product
            checks.append((fn(f)(x, v), Hv, "hessian_tensor_product"))
        else:  # make_ggnvp: J^T H_g J v over the last output axis
            custom = c.bool()
            sample["custom_g"] = custom
            if custom:
                gfun = lambda y: anp.sum(anp.sin(y) * 0.5, axis=-1)
                Hg = -0.5 * onp.sin(y0)
            else:
                gfun = None
                Hg = onp.ones(out_shape)
            Jf = J.reshape(no, ni)
            want = (Jf.T @ (Hg.reshape(no) * (Jf @ v.reshape(ni)))).reshape(in_shape)
            # g sums over the last axis only; for out rank > 1 the sum over leading axes is taken by grad's scalar requirement -> use rank-1 out
            if len(out_shape) != 1:
                return Outcome("numpy_rejects", detail="ggnvp only for rank-1 outputs", sample=sample)
            ggn = do.make_ggnvp(f, gfun)(x) if custom else do.make_ggnvp(f)(x)
            checks.append((ggn(v), want, "make_ggnvp"))
    except Exception as e:
        if not from_autograd(e):
            raise
        return fail("unexpected_exception", describe_exc(e), bucket("exception"), sample=sample)
    for got, want, what in checks:
        err = close(got, want, what, bucket, sample)
        if err:
            return err
    nontrivial = len(in_shape) >= 2 or len(out_shape) >= 2 or in_shape == () or out_shape == ()
    c.features.update(sample)
    return ok(nontrivial=nontrivial, key=json.dumps([list(in_shape), list(out_shape), op, carrier, sample.get("tjp_rank"), sample.get("custom_g"), tail]),
              labels=["op=" + op, f"in_rank={len(in_shape)}", f"out_rank={len(out_shape)}", "tail=" + tail], sample=sample)


# ---- two differentiable arguments, extra positional / keyword parameters, argnum forms ------------------------------------------
OPS2 = ["grad", "value_and_grad", "jacobian", "hessian", "hessian_tensor_product", "make_hvp", "make_vjp", "make_jvp", "elementwise_grad",
        "grad_named", "multigrad", "multi_vjp", "multi_jvp", "deriv", "tensor_jacobian_product", "make_ggnvp", "make_jvp_reversemode", "grad_and_aux",
        "multigrad3"]


def args_body(c):
    import autograd
    import autograd.numpy as anp
    from autograd import differential_operators as do

    sx = c.shape(0, 2, max_side=3)
    sw = c.shape(0, 2, max_side=3)
    layout = c.int(0, 3)
    op = OPS2[c.int(0, len(OPS2) - 1)]
    vseed = c.seed()
    (A, B, U, x0, V, D, E, w0), _ = values.generic(vseed, [sx, sx, sx, sx, sw, sw, sw, sw], -1.0, 1.0)
    p0, scale0 = 1.5, c.choice([1.0, 2.0, -0.5])
    kw_by_name = c.bool()
    # one case in five: one of the two differentiated arguments is a float32 array (its cotangents are float64: wider than itself)
    lowp = c.choice(["x", "w"]) if c.chance(1, 5) else None
    if lowp == "x":
        x0 = x0.astype(onp.float32)
    elif lowp == "w":
        w0 = w0.astype(onp.float32)

    prior_failure = c.chance(1, 6)  # the function first tries a nested differentiation that raises, catches it, and carries on

    class _Stop(Exception):
        pass

    def _failing(y):
        t_ = anp.sin(y) * 2.0
        if t_ == t_:
            raise _Stop()
        return t_

    def core(x, w, p, scale, ns=anp):
        if prior_failure and ns is anp:
            try:
                autograd.grad(_failing)(0.3)
            except _Stop:
                pass
        ax, ew = ns.sum(A * x), ns.sum(E * w)
        if ns is anp and op == "multigrad3":
            # the bilinear term through ONE user primitive of four arguments whose first is a constant: three traced operands in one call
            return scale * (p * (ns.sin(ax) + ns.sum(B * x * x) + ns.sum(D * w * w) + ns.sin(ew)) + tri(1.0, x, w, p))
        return scale * p * (ns.sin(ax) + ns.sum(B * x * x) + ns.sum(U * x) * ns.sum(V * w) + ns.sum(D * w * w) + ns.sin(ew))

    from autograd.extend import defvjp as _defvjp, defjvp as _defjvp, primitive as _primitive

    @_primitive
    def tri(k0, x, w, p):
        return k0 * p * onp.sum(U * x) * onp.sum(V * w)

    _defvjp(tri, None, lambda ans, k0, x, w, p: lambda g: g * k0 * p * U * anp.sum(V * w),
            lambda ans, k0, x, w, p: lambda g: g * k0 * p * anp.sum(U * x) * V, lambda ans, k0, x, w, p: lambda g: g * k0 * anp.sum(U * x) * anp.sum(V * w))
    _defjvp(tri, None, lambda g, ans, k0, x, w, p: k0 * p * anp.sum(U * g) * anp.sum(V * w),
            lambda g, ans, k0, x, w, p: k0 * p * anp.sum(U * x) * anp.sum(V * g), lambda g, ans, k0, x, w, p: g * k0 * anp.sum(U * x) * anp.sum(V * w))

    # drawn signatures: the differentiated arguments sit at different positions among extra positional parameters
    if layout == 0:
        def fun(x, w, p, scale=1.0):
            return core(x, w, p, scale)
        ix, iw, args = 0, 1, lambda x, w: (x, w, p0)
    elif layout == 1:
        def fun(p, x, w, scale=1.0):
            return core(x, w, p, scale)
        ix, iw, args = 1, 2, lambda x, w: (p0, x, w)
    elif layout == 2:
        def fun(x, p, w, scale=1.0):
            return core(x, w, p, scale)
        ix, iw, args = 0, 2, lambda x, w: (x, p0, w)
    else:
        def fun(w, p, x, scale=1.0):
            return core(x, w, p, scale)
        ix, iw, args = 2, 0, lambda x, w: (x, w) and (w, p0, x)
    # what the operator is handed: the plain function, a bound method or a callable object with the same parameters after `self`
    fun_form = c.int(0, 2)
    if fun_form:
        names = {0: "x, w, p", 1: "p, x, w", 2: "x, p, w", 3: "w, p, x"}[layout]
        meth = "m" if fun_form == 1 else "__call__"
        scope = {"core": core}
        exec(f"class Holder:\n    def {meth}(self, {names}, scale=1.0):\n        return core(x, w, p, scale)\n", scope)
        fun = scope["Holder"]().m if fun_form == 1 else scope["Holder"]()
    neg_argnum = c.chance(1, 4)  # the position written as a negative index (counted among the function's own positional arguments)
    kw = {"scale": scale0} if (scale0 != 1.0 or kw_by_name) else {}
    s = scale0 * p0
    ax, ew = float(onp.sum(A * x0)), float(onp.sum(E * w0))
    y0 = s * (onp.sin(ax) + onp.sum(B * x0 * x0) + onp.sum(U * x0) * onp.sum(V * w0) + onp.sum(D * w0 * w0) + onp.sin(ew))
    gx = s * (onp.cos(ax) * A + 2 * B * x0 + U * onp.sum(V * w0))
    gw = s * (onp.sum(U * x0) * V + 2 * D * w0 + onp.cos(ew) * E)
    nx, nw = _sz(sx), _sz(sw)
    Hxx = s * (-onp.sin(ax) * onp.outer(A.ravel(), A.ravel()) + 2 * onp.diag(onp.ravel(B))).reshape(sx + sx)
    Hww = s * (-onp.sin(ew) * onp.outer(E.ravel(), E.ravel()) + 2 * onp.diag(onp.ravel(D))).reshape(sw + sw)
    which = c.choice(["x", "w"])
    argnum, g1, H1, s1, z0 = (ix, gx, Hxx, sx, x0) if which == "x" else (iw, gw, Hww, sw, w0)
    a = args(x0, w0)
    if neg_argnum:
        argnum = argnum - len(a)
    sample = {"sx": list(sx), "sw": list(sw), "layout": layout, "op": op, "which": which, "kw": kw, "vseed": vseed, "float32_arg": lowp, "prior_failure": prior_failure,
              "function_form": ["function", "bound method", "callable object"][fun_form], "negative_argnum": neg_argnum}
    bucket = lambda k: f"C16|args|{op}|{k}"
    v = values.direction(vseed, s1, 6)
    n1 = len(s1)
    Hv = onp.tensordot(H1, v, n1) if n1 else H1 * v
    checks = []
    try:
        if op == "grad":
            checks.append((autograd.grad(fun, argnum)(*a, **kw), g1, "grad(argnum)"))
        elif op == "value_and_grad":
            val, gr = autograd.value_and_grad(fun, argnum)(*a, **kw)
            checks += [(val, y0, "value"), (gr, g1, "grad")]
        elif op == "jacobian":
            checks.append((autograd.jacobian(fun, argnum)(*a, **kw), g1, "jacobian(argnum)"))
        elif op == "hessian":
            checks.append((autograd.hessian(fun, argnum)(*a, **kw), H1, "hessian(argnum)"))
        elif op == "hessian_tensor_product":
            checks.append((autograd.hessian_tensor_product(fun, argnum)(*a, v, **kw), Hv, "hessian_tensor_product(argnum)"))
        elif op == "make_hvp":
            hvp, gr = autograd.make_hvp(fun, argnum)(*a, **kw)
            checks += [(gr, g1, "make_hvp grad"), (hvp(v), Hv, "make_hvp product")]
        elif op == "make_vjp":
            vjp, val = autograd.make_vjp(fun, argnum)(*a, **kw)
            checks += [(val, y0, "primal"), (vjp(2.0), 2.0 * g1, "vjp")]
        elif op == "make_jvp":
            # one operator object, evaluated again with another extra argument before the first JVP function is used
            opj = autograd.make_jvp(fun, argnum)
            j1 = opj(*a, **kw)
            j2 = opj(*a, scale=3.0 * scale0 + 1.0)
            val, t = j1(v)
            val2, t2 = j2(v)
            r2 = (3.0 * scale0 + 1.0) / scale0
            checks += [(val, y0, "primal"), (t, onp.sum(g1 * v), "jvp"), (val2, r2 * y0, "primal (second evaluation)"), (t2, r2 * onp.sum(g1 * v), "jvp (second evaluation)")]
        elif op == "elementwise_grad":
            checks.append((autograd.elementwise_grad(fun, argnum)(*a, **kw), g1, "elementwise_grad"))
        elif op == "grad_named":
            checks.append((do.grad_named(fun, which)(*a, **kw), g1, "grad_named"))
        elif op == "multigrad":
            form = c.choice(["tuple", "list"])
            an = (ix, iw) if form == "tuple" else [iw, ix]
            got = autograd.grad(fun, an)(*a, **kw)
            want = (gx, gw) if form == "tuple" else (gw, gx)
            if not (isinstance(got, tuple) and len(got) == 2):
                return fail("wrong_kind", f"multi-argnum grad returned {type(got).__name__}", bucket("wrong_kind"), sample=sample)
            checks += [(got[0], want[0], "multigrad[0]"), (got[1], want[1], "multigrad[1]")]
        elif op == "multigrad3":
            # all three of x, w and the scalar p selected together (positions in the drawn signature, in a drawn order)
            ip = [i_ for i_ in range(3) if i_ not in (ix, iw)][0]
            order = [(ix, gx), (iw, gw), (ip, y0 / p0)]
            if c.bool():
                order = order[::-1]
            got = autograd.grad(fun, tuple(i_ for i_, _ in order))(*a, **kw)
            if not (isinstance(got, tuple) and len(got) == 3):
                return fail("wrong_kind", f"three-argnum grad returned {type(got).__name__}", bucket("wrong_kind"), sample=sample)
            checks += [(got[k_], order[k_][1], f"multigrad3[{k_}]") for k_ in range(3)]
            t3 = autograd.make_jvp(fun, [ix, iw, ip])(*a, **kw)((values.direction(vseed, sx, 7), values.direction(vseed, sw, 8), 0.5))[1]
            checks.append((t3, onp.sum(gx * values.direction(vseed, sx, 7)) + onp.sum(gw * values.direction(vseed, sw, 8)) + 0.5 * y0 / p0, "three-argnum jvp"))
        elif op == "multi_vjp":
            vjp, val = autograd.make_vjp(fun, (iw, ix))(*a, **kw)
            got = vjp(1.0)
            checks += [(val, y0, "primal"), (got[0], gw, "multi vjp[0]"), (got[1], gx, "multi vjp[1]")]
        elif op == "multi_jvp":
            vx, vw = values.direction(vseed, sx, 7), values.direction(vseed, sw, 8)
            val, t = autograd.make_jvp(fun, [ix, iw])(*a, **kw)((vx, vw))
            checks += [(val, y0, "primal"), (t, onp.sum(gx * vx) + onp.sum(gw * vw), "multi jvp")]
        elif op == "deriv":
            checks.append((autograd.deriv(fun, argnum)(*a, **kw), onp.sum(g1), "deriv"))
        elif op == "tensor_jacobian_product":
            checks.append((do.tensor_jacobian_product(fun, argnum)(*a, onp.array(2.0), **kw), 2.0 * g1, "tensor_jacobian_product(argnum)"))
        elif op == "make_ggnvp":
            # scalar f: ggn = g1 * H_g * <g1, v> with g(y) = y^2/2 (axis=-1 needs rank >= 1, so wrap the output)
            f1 = lambda *aa, **kk: anp.reshape(fun(*aa, **kk), (1,))
            got = do.make_ggnvp(f1, f_argnum=argnum)(*a, **kw)(v)
            checks.append((got, g1 * onp.sum(g1 * v), "make_ggnvp(f_argnum)"))
            # f that hands the selected argument through unchanged (J = I): the product is the Hessian-vector product of g alone
            gg = lambda y: anp.sum(anp.sin(y) * U) if which == "x" else anp.sum(anp.sin(y) * V)
            Hg = -onp.sin(z0) * (U if which == "x" else V)
            checks.append((do.make_ggnvp(lambda t: t, gg)(z0)(v), Hg * v, "make_ggnvp(identity f, custom g)"))
            checks.append((do.make_ggnvp(lambda p_, t: t, gg, 1)(0.5, z0)(v), Hg * v, "make_ggnvp(f returns its argument 1, f_argnum=1)"))
            if n1 == 1:  # (the default g reduces the last axis only: a scalar for vectors)
                checks.append((do.make_ggnvp(lambda t: t)(z0)(v), v, "make_ggnvp(identity f, default g)"))
        elif op == "make_jvp_reversemode":
            checks.append((do.make_jvp_reversemode(fun, argnum)(*a, **kw)(v), onp.sum(g1 * v), "make_jvp_reversemode(argnum)"))
        else:
            aux0 = {"note": 1.0}
            f2 = lambda *aa, **kk: (fun(*aa, **kk), aux0)
            gr, aux = autograd.grad_and_aux(f2, argnum)(*a, **kw)
            checks.append((gr, g1, "grad_and_aux"))
            if aux != aux0:
                return fail("primal_mismatch", f"aux {aux!r}", bucket("aux"), sample=sample)
    except Exception as e:
        if not from_autograd(e):
            raise
        return fail("unexpected_exception", describe_exc(e), bucket("exception"), sample=sample)
    for got, want, what in checks:
        # a derivative with respect to the float32 argument may itself be rounded to float32
        err = close(got, want, what, bucket, sample, tol=2e-6 if lowp else TOL)
        if err:
            return err
    c.features.update({k: v_ for k, v_ in sample.items() if k != "kw"})
    return ok(nontrivial=True, key=json.dumps([list(sx), list(sw), layout, op, which, sorted(kw), lowp]),
              labels=["op=" + op, f"layout={layout}", "which=" + which, "kw" if kw else "nokw"] + (["float32_arg"] if lowp else []), sample=sample)


def container_body(c):
    """The differentiated argument is a container (tuple / list / dict / nested) and the function reads its leaves by drawn index spellings
    (positive, negative, mixed, via unpacking, via a slice): every operator's answer, leaf by leaf, against the closed-form gradient."""
    import autograd
    import autograd.numpy as anp

    sx = c.shape(0, 2, max_side=3)
    sw = c.shape(0, 2, max_side=3)
    vseed = c.seed()
    (A, B, U, x0, V, D, E, w0), _ = values.generic(vseed, [sx, sx, sx, sx, sw, sw, sw, sw], -1.0, 1.0)
    kind = c.choice(["tuple", "list", "dict", "nested", "tuple3"])
    spell = c.int(0, 4)
    op = c.choice(["grad", "value_and_grad", "make_vjp", "grad_and_aux", "make_jvp", "argnum_tuple", "multigrad_dict"])
    pad = 0.75

    def core(x, w, ns=anp):
        ax, ew = ns.sum(A * x), ns.sum(E * w)
        return ns.sin(ax) + ns.sum(B * x * x) + ns.sum(U * x) * ns.sum(V * w) + ns.sum(D * w * w) + ns.sin(ew)

    if kind in ("tuple", "list"):
        params = (x0, w0) if kind == "tuple" else [x0, w0]
        ix, iw = [(0, 1), (-2, -1), (0, -1), (-2, 1), (0, 1)][spell]
        if spell == 4:
            def fun(p):
                x, w = p
                return core(x, w)
        else:
            fun = lambda p: core(p[ix], p[iw])
        leaves = lambda g: (g[0], g[1])
    elif kind == "tuple3":
        params = (x0, pad, w0)
        ix, iw = [(0, 2), (-3, -1), (0, -1), (-3, 2), (0, 2)][spell]
        if spell == 4:
            fun = lambda p: core(p[:1][0], p[-1:][0]) + 0.0 * p[1]
        else:
            fun = lambda p: core(p[ix], p[iw]) * 1.0 + 0.0 * p[-2]
        leaves = lambda g: (g[0], g[2])
    elif kind == "dict":
        params = {"w": w0, "x": x0}
        fun = lambda p: core(p["x"], p["w"])
        leaves = lambda g: (g["x"], g["w"])
    else:
        params = [(x0, pad), {"k": [w0]}]
        ia, ib = [(0, 1), (-2, -1), (0, -1), (-2, 1), (0, 1)][spell]
        fun = lambda p: core(p[ia][ia], p[ib]["k"][-1 if spell % 2 else 0])
        leaves = lambda g: (g[0][0], g[1]["k"][0])
    ax, ew = float(onp.sum(A * x0)), float(onp.sum(E * w0))
    y0 = float(core(x0, w0, onp))
    gx = onp.cos(ax) * A + 2 * B * x0 + U * onp.sum(V * w0)
    gw = onp.sum(U * x0) * V + 2 * D * w0 + onp.cos(ew) * E
    sample = {"sx": list(sx), "sw": list(sw), "kind": kind, "index_spelling": spell, "op": op, "vseed": vseed}
    bucket = lambda k: f"C16|container|{op}|{k}"
    checks = []
    try:
        if op == "grad":
            g = autograd.grad(fun)(params)
        elif op == "value_and_grad":
            val, g = autograd.value_and_grad(fun)(params)
            checks.append((val, y0, "value"))
        elif op == "make_vjp":
            vjp, val = autograd.make_vjp(fun)(params)
            g = vjp(1.0)
            checks.append((val, y0, "value"))
        elif op == "grad_and_aux":
            g, aux = autograd.grad_and_aux(lambda p: (fun(p), {"note": 1.0}))(params)
        elif op == "multigrad_dict":
            # gradients with respect to ALL parameters by name; the container is a parameter left at its default value
            from autograd import differential_operators as do_

            def fm(q, p=params):
                return fun(p) * q

            gd = do_.multigrad_dict(fm)(1.5)
            checks.append((gd["q"], y0, "multigrad_dict wrt the scalar factor"))
            g = gd["p"]
            from autograd.core import vspace as _vs

            if not _vs(g) == _vs(params):
                return fail("wrong_space", f"multigrad_dict: the gradient of a {kind} parameter left at its default is a {type(g).__name__}", bucket("structure"), sample=sample)
            gx, gw = 1.5 * gx, 1.5 * gw
        elif op == "argnum_tuple":
            # the container passed next to another argument, both differentiated: grad(fun, (0, 1))
            g2 = autograd.grad(lambda q, p: fun(p) * q, (0, 1))(1.5, params)
            checks.append((g2[0], y0, "grad wrt the scalar factor"))
            g = autograd.builtins.tuple(g2)[1]
            gx, gw = 1.5 * gx, 1.5 * gw
        else:
            vx, vw = values.direction(vseed, sx, 6), values.direction(vseed, sw, 7)
            if kind in ("tuple", "list"):
                tang = type(params)((vx, vw))
            elif kind == "tuple3":
                tang = (vx, 0.0, vw)
            elif kind == "dict":
                tang = {"w": vw, "x": vx}
            else:
                tang = [(vx, 0.0), {"k": [vw]}]
            val, t = autograd.make_jvp(fun)(params)(tang)
            checks += [(val, y0, "value"), (t, float(onp.sum(gx * vx) + onp.sum(gw * vw)), "make_jvp tangent")]
            g = None
        if g is not None:
            lx, lw = leaves(g)
            checks += [(lx, gx, f"{op}: leaf x"), (lw, gw, f"{op}: leaf w")]
    except ImportError as e:
        return raised(e, "container_args", sample=sample)  # (multigrad_dict needs the funcsigs package: a loud refusal)
    except Exception as e:
        if not from_autograd(e):
            raise
        return fail("unexpected_exception", describe_exc(e), bucket("exception"), sample=sample)
    for got, want, what in checks:
        err = close(got, want, what, bucket, sample)
        if err:
            return err
    c.features.update(sample)
    return ok(nontrivial=True, key=json.dumps([list(sx), list(sw), kind, spell, op]), labels=["op=" + op, "kind=" + kind, f"spelling={spell}"], sample=sample)


def linalg_result_body(c):
    """The result objects of numpy.linalg (named tuples) read by position in every spelling - positive, negative, through a slice, by
    unpacking, by field name: every operator's derivative of the selected field against its closed form."""
    import autograd
    import autograd.numpy as anp

    n = c.int(2, 3)
    vseed = c.seed()
    (M0, Wt), _ = values.generic(vseed, [(n, n), (n, n)], -1.0, 1.0)
    A0 = M0 * 0.4 + 1.5 * onp.eye(n)
    fn = c.choice(["slogdet_logabsdet", "svd_values", "eigh_values", "eig_values_real"])
    spell = c.choice(["pos", "neg", "slice", "unpack", "field", "neg_slice"])
    op = c.choice(["grad", "value_and_grad", "jacobian_sum", "make_vjp", "elementwise_grad_sum", "grad_and_aux"])
    sym = lambda A: (A + anp.swapaxes(A, -1, -2)) / 2

    def field(r, k, nfields, name):
        if spell == "pos":
            return r[k]
        if spell == "neg":
            return r[k - nfields]
        if spell == "slice":
            return r[k:][0]
        if spell == "neg_slice":
            return r[: k - nfields + 1 or None][-1]
        if spell == "unpack":
            return tuple(r)[k] if nfields != 2 else ((lambda a_, b_: (a_, b_))(*r))[k]
        return getattr(r, name)

    if fn == "slogdet_logabsdet":
        f = lambda A: field(anp.linalg.slogdet(A), 1, 2, "logabsdet")
        want = onp.linalg.inv(A0).T
    elif fn == "svd_values":
        f = lambda A: anp.sum(field(anp.linalg.svd(A, full_matrices=False), 1, 3, "S") * Wt[0])
        U, S, Vh = onp.linalg.svd(A0)
        want = (U * Wt[0]) @ Vh
    elif fn == "eigh_values":
        f = lambda A: anp.sum(field(anp.linalg.eigh(sym(A)), 0, 2, "eigenvalues") * Wt[0])
        lam, Q = onp.linalg.eigh((A0 + A0.T) / 2)
        want = (Q * Wt[0]) @ Q.T
        want = (want + want.T) / 2
    else:
        f = lambda A: anp.sum(anp.real(field(anp.linalg.eig(sym(A)), 0, 2, "eigenvalues")) ** 2)
        lam, Q = onp.linalg.eigh((A0 + A0.T) / 2)
        want = (Q * (2 * lam)) @ Q.T
        want = (want + want.T) / 2
    sample = {"function": fn, "spelling": spell, "op": op, "n": n, "vseed": vseed}
    c.features.update(fn=fn, spelling=spell, op=op)
    bucket = lambda k: f"C16|linalg_result|{fn}|{k}"
    try:
        if op == "grad":
            g = autograd.grad(f)(A0)
        elif op == "value_and_grad":
            g = autograd.value_and_grad(f)(A0)[1]
        elif op == "jacobian_sum":
            g = autograd.jacobian(f)(A0)
        elif op == "make_vjp":
            g = autograd.make_vjp(f)(A0)[0](1.0)
        elif op == "elementwise_grad_sum":
            g = autograd.elementwise_grad(f)(A0)
        else:
            g = autograd.grad_and_aux(lambda A: (f(A), 1.0))(A0)[0]
    except AttributeError as e:
        if spell == "field":
            return raised(e, "linalg_result", sample=sample)  # (a traced result object without named fields: loud)
        return fail("unexpected_exception", describe_exc(e), bucket("exception"), sample=sample)
    except Exception as e:
        if not from_autograd(e):
            raise
        return fail("unexpected_exception", describe_exc(e), bucket("exception"), sample=sample)
    err = close(g, want, f"{op} of {fn} read as {spell}", bucket, sample, tol=1e-8)
    if err:
        return err
    return ok(nontrivial=spell != "pos", key=json.dumps([fn, spell, op, n]), labels=["fn=" + fn, "spelling=" + spell, "op=" + op], sample=sample)


PROP = Prop("C16", [
    Test("tensor", tensor_body, quick=8000, thorough=30000, shard_size=300),
    Test("args", args_body, quick=8000, thorough=30000, shard_size=300),
    Test("container_args", container_body, quick=3000, thorough=15000, shard_size=300),
    Test("linalg_results", linalg_result_body, quick=1500, thorough=8000, shard_size=150),
], RULE, assumptions=["closed-form Jacobians and Hessians of the generated function family (computed with raw NumPy)"])
