"""C01 — reverse-mode derivatives exact for every call configuration."""
from functools import partial

from .. import oracle
from ..derivcheck import run_first_order
from ..engine import Prop, Test
from ..templates import TEMPLATES
from ..templates.core import complex_capable
from . import kinks

RULE = (
    "Cases: call template x drawn configuration (ranks 0-4, broadcast pattern, axis form incl. negative/tuple, keepdims, "
    "kwargs, call form) x differentiated argnum (or the same value in two positions) x carrier kind x value seed on a "
    "stratified generic grid. Oracle: Ridders-extrapolated directional derivatives of raw NumPy; the full analytic "
    "Jacobian (vjp over the output basis) applied to every input basis direction (<=6 entries) or 3 dense directions, "
    "plus one dense cotangent; tolerance 1e-7*scale + 100*oracle error estimate. Non-trivial = autograd returned a "
    "cotangent and the oracle was conclusive; distinct by (template, feature tuple, argsel, carrier) - value seeds do "
    "not count as distinct. Kink tests: ties / zeros / clip bounds / x**y at 0 constructed explicitly; the pairing "
    "with 5 directions must lie between the one-sided directional derivatives."
    " Also: the namespace sweep (x:sweep / x:sweep_rest: every callable of autograd.numpy, .linalg and .fft in eight generic call forms - "
    "a function that has or acquires a rule but no template is still held to right-or-raises) and, for complex-capable templates, "
    "<mode>c:* tests with any subset of the arguments complex (real argument next to a complex partner and vice versa)."
)


def _body(tdef, case):
    return run_first_order(case, tdef, "rev")


def _body_mixed(tdef, case):
    # any subset of the arguments complex (C09 owns the complex convention; here the point is the PARTNER operands: a real argument
    # differentiated next to a complex one and vice versa, in this mode)
    return run_first_order(case, tdef, "rev", allow_complex=True)


def coverage_accounting(agg):
    """Which registered primitives had a vjp node built during this run, and which never did (coverage gap, not a violation)."""
    from autograd import core

    table = core.primitive_vjps
    names = sorted({getattr(f, "__name__", repr(f)) for f in table})
    seen = {k.split(":", 1)[1] for k in agg.prims if k.startswith("vjp:")}
    owned_elsewhere = {"container_take", "container_untake", "sequence_extend_right", "sequence_extend_left", "make_sequence", "_make_dict",
                       "add", "mut_add", "scalar_mul", "inner_prod", "covector", "sparse_add", "wrapped", "convolve"}
    return {"primitives_registered": len(names), "primitives_exercised": len([n for n in names if n in seen]),
            "primitives_not_exercised": [n for n in names if n not in seen and n not in owned_elsewhere],
            "primitives_owned_by_other_checks": sorted(n for n in names if n in owned_elsewhere and n not in seen)}


def tests():
    out = []
    for name, t in sorted(TEMPLATES.items()):
        out.append(Test("rev:" + name, partial(_body, t), quick=200 * t.weight, thorough=1500 * t.weight, shard_size=200))
        if complex_capable(t):
            out.append(Test("revc:" + name, partial(_body_mixed, t), quick=40 * t.weight, thorough=300 * t.weight, shard_size=200))
    out += kinks.tests("rev")
    return out


PROP = Prop("C01", tests(), RULE, assumptions=[
    "NumPy's primal functions are the reference semantics; derivatives of raw NumPy by Ridders extrapolation (self-tested each run)",
    "generic points only (stratified grid, documented smooth domains); kinks only where the rules handle them explicitly",
    "array rank <= 4, side <= 4, output size <= 40 for the full-Jacobian comparison",
], selftest=oracle.selftest, finalize=lambda agg: coverage_accounting(agg))
PROP.record_primitives = True
PROP.reach_functions = ['autograd.numpy.numpy_vjps:unbroadcast', 'autograd.numpy.numpy_vjps:repeat_to_match_shape', 'autograd.numpy.numpy_vjps:match_complex', 'autograd.numpy.numpy_vjps:grad_chooser', 'autograd.numpy.numpy_vjps:balanced_eq']
