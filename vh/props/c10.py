"""C10 — differentiation never writes to memory it does not own; VJP/JVP functions are reusable."""
import hashlib
import json

import numpy as onp

from .. import progs, values
from ..case import Outcome, describe_exc, fail, from_autograd, ok, raised
from ..engine import Prop, Test

RULE = (
    "Model-based histories: one generated program (array compositions from vh/progs.py with pass-through rules, fan-out, sparse "
    "x[i] and dense uses, a captured user constant; or container programs whose outputs are built with autograd's tuple/list/dict "
    "from repeated / indexed / nested uses of the input) and a drawn sequence of <= 15 (quick) / 30 (thorough) steps over one "
    "(vjp, jvp) pair: call_vjp(new g), call_vjp(the same g object again), call_vjp(scaled g), call_vjp(a previously returned "
    "result as cotangent), call_jvp(v), jacobian-style sweep over basis cotangents, rebuild. Invariants after every step: every "
    "user-visible buffer - inputs, captured constant, every cotangent/tangent ever passed in, every result ever returned - is "
    "byte-identical to its SHA-256 snapshot (buffers we own are also read-only, so a write raises); each vjp(g) equals bitwise "
    "the result of a freshly built VJP called once with the same g; vjp(a g) == a vjp(g) to 1e-12. Non-trivial = the program has "
    "fan-out >= 2 with a pass-through rule or mixes sparse and dense contributions (or is a container program), and the history "
    "contains >= 2 calls of the same function; distinct by (program, history). special_points: the same memory invariants (inputs, "
    "captured partner operands, the primal result handed out by make_vjp / make_jvp, results returned earlier, repeatability, value == "
    "NumPy's before and after) at the points where rules branch on values: ties of max/min/maximum/..., abs at 0, clip at a bound, "
    "x**y at x = 0 for either argument, and 30 functions analytic at exact-zero entries. large_arrays: histories of 3-5 gradients of 13 "
    "programs (real FFTs, reductions, cumsum, indexing, dot) over vectors of 2**16..2**17 entries - sizes at which an implementation "
    "may switch strategy (kept buffers, chunking): inputs unchanged, <grad, v> against central differences of raw NumPy (1e-5 relative), "
    "a repeated step reproduces its first result bitwise whatever ran in between."
    " container_reads: tuple / list / dict arguments whose entries are looked up several times in an array-valued sum; the caller's cotangent array through one VJP function four times (closed form per call, cotangent and arguments unchanged)."
)


def digest(v):
    h = hashlib.sha256()
    for l in leaves(v):
        a = onp.asarray(l)
        h.update(str(a.dtype).encode() + str(a.shape).encode() + a.tobytes())
    return h.hexdigest()


def leaves(v):
    if isinstance(v, (tuple, list)):
        return [l for e in v for l in leaves(e)]
    if isinstance(v, dict):
        return [l for k in v for l in leaves(v[k])]
    return [v]


def freeze(v):
    for l in leaves(v):
        if isinstance(l, onp.ndarray):
            l.flags.writeable = False
    return v


def tree_map(f, v):
    if isinstance(v, tuple):
        return tuple(tree_map(f, e) for e in v)
    if isinstance(v, list):
        return [tree_map(f, e) for e in v]
    if isinstance(v, dict):
        return {k: tree_map(f, e) for k, e in v.items()}
    return f(v)


def tree_equal(a, b):
    la, lb = leaves(a), leaves(b)
    return len(la) == len(lb) and all(onp.shape(x) == onp.shape(y) and onp.array_equal(onp.asarray(x), onp.asarray(y)) for x, y in zip(la, lb))


def tree_close(a, b, tol):
    la, lb = leaves(a), leaves(b)
    return len(la) == len(lb) and all(
        onp.shape(x) == onp.shape(y) and onp.all(onp.abs(onp.asarray(x) - onp.asarray(y)) <= tol * (1.0 + onp.abs(onp.asarray(y)))) for x, y in zip(la, lb))


# ---- programs -----------------------------------------------------------------------------------------------------------
CONTAINER_FORMS = ["ppp", "p_p0", "p1p1", "dict_mix", "list_nest", "pass_and_index", "slices"]


def make_function(c):
    """Returns (f(x, ns), x0, K, description, features)."""
    vseed = c.seed()
    if c.chance(1, 3):
        form = c.choice(CONTAINER_FORMS)
        n = c.int(2, 3)
        (a, b, K), _ = values.generic(vseed, [(n,), (n,), (n,)], -1.2, 1.2)
        nested = form in ("p1p1", "list_nest")
        x0 = (a, (b, a * 0.5)) if nested else ((a, b, a * 0.5) if form == "slices" else (a, b))

        def f(x, ns):
            import autograd.builtins as ab

            if form == "ppp":
                return ab.tuple((x, x, x))
            if form == "slices":  # overlapping slices and a plain index of one sequence (contributions arrive in several orders)
                return ab.tuple((x[:2], x[1:], x[::2], x[0] * K, x))
            if form == "p_p0":
                return ab.tuple((x, x[0] * K))
            if form == "p1p1":
                return ab.tuple((x[1], x[1], x[0]))
            if form == "dict_mix":
                return ab.dict({"a": x, "b": x[1] + K, "c": ab.list([x[0], x])})
            if form == "list_nest":
                return ab.list([x[1][0] * K, x, x[1]])
            return ab.tuple((x, x[0] + 0.0, x[0]))

        return f, freeze(x0), freeze(K), {"kind": "container", "form": form, "n": n, "vseed": vseed}, {"container": True, "form": form}
    prog = progs.gen(c, max_ops=c.int(2, 10))
    x0 = progs.input_value(prog, vseed)
    if c.chance(1, 5):
        # end the program with a value that is used three times (through a function, through an index expression covering every entry, and
        # unchanged) and hand exactly that value back: the caller's cotangent object is the one the three contributions are made from
        src = c.int(0, len(prog["stmts"]))
        prog["stmts"].append(["widx", src, c.int(0, 2), c.perm(3)])
        prog["out"] = [len(prog["stmts"])]
    # one program in three hands its last value back as it is: the caller's cotangent object then reaches that operation's rule itself
    raw = len(prog["out"]) == 1 and prog["out"][0] != 0 and (prog["stmts"][-1][0] == "widx" or c.chance(1, 3))
    y_shape = onp.shape(progs.run(prog, x0, onp, raw=raw))
    K = values.direction(vseed, y_shape, 33)

    def f(x, ns):
        return progs.run(prog, x, ns, raw=True) if raw else progs.run(prog, x, ns) * K

    kinds = [st[0] for st in prog["stmts"]]
    uses = {}
    for st in prog["stmts"]:
        for s_ in st[1:]:
            if isinstance(s_, int) and st[0] not in ("sum",):
                uses[s_] = uses.get(s_, 0) + 1
    feats = {"container": False, "sparse": "idx" in kinds, "passthrough": any(st[0] == "k" or (st[0] == "b" and st[1] in ("add", "sub")) for st in prog["stmts"]),
             "fanout": max(list(uses.values()) + [0]) >= 2}
    return f, x0, freeze(K), {"kind": "array", "program": prog, "vseed": vseed}, feats


def _missing(e):
    return isinstance(e, NotImplementedError) and "not defined" in str(e)


def body(max_steps, c):
    import autograd
    import autograd.numpy as anp

    f, x0, K, desc, feats = make_function(c)
    sample = dict(desc)
    bucket = lambda k: f"C10|history|{k}"
    try:
        y0 = f(x0, onp)
        if not all(onp.all(onp.isfinite(onp.asarray(l))) for l in leaves(y0)):
            return Outcome("numpy_rejects", detail="non-finite", sample=sample)
    except Exception as e:
        return Outcome("numpy_rejects", detail=str(e)[:100], sample=sample)
    fa = lambda x: f(x, anp)
    vseed = desc["vseed"]
    watched = []  # (name, object, digest)

    def watch(name, obj, own=True):
        if own:
            freeze(obj)
        watched.append((name, obj, digest(obj)))

    watch("input", x0)
    watch("constant", K)

    def check_watched(step):
        for name, obj, dg in watched:
            if digest(obj) != dg:
                return fail("foreign_write", f"after step {step}: {name} was modified", bucket("foreign_write"), sample=sample)
        return None

    def new_cot(k):
        return tree_map(lambda l: values.direction(vseed, onp.shape(l), 200 + k), y0)

    def new_tan(k):
        return tree_map(lambda l: values.direction(vseed, onp.shape(l), 300 + k), x0)

    try:
        vjp, y = autograd.make_vjp(fa)(x0)
        jvp = autograd.make_jvp(fa)(x0)
    except Exception as e:
        if _missing(e):
            return raised(e, "build", sample=sample)
        return fail("unexpected_exception", "build: " + describe_exc(e), bucket("exception"), sample=sample)
    n_steps = c.int(2, max_steps)
    history = []
    cots = []  # cotangents passed so far
    results = []  # (g, result) pairs from vjp calls
    n_vjp_calls = 0
    for step in range(n_steps):
        kind = c.choice(["vjp_new", "vjp_same", "vjp_scaled", "vjp_of_result", "jvp", "basis_sweep", "rebuild", "vjp_bad_cotangent"])
        history.append(kind)
        try:
            if kind == "rebuild":
                vjp, y = autograd.make_vjp(fa)(x0)
                jvp = autograd.make_jvp(fa)(x0)
                continue
            if kind == "vjp_bad_cotangent":
                # a call that may fail part-way through the backward pass (cotangent of the wrong shape); whatever it does,
                # later calls of the same function must behave as if it had never happened
                bad = tree_map(lambda l: onp.ones(onp.shape(l) + (2,)) if c.bool() else onp.ones((3,) + onp.shape(l)), y0)
                try:
                    vjp(bad)
                except Exception:
                    pass
                g = new_cot(step)
                watch(f"cotangent#{step}", g)
                cots.append(g)
                r = vjp(g)
                n_vjp_calls += 1
                fresh = autograd.make_vjp(fa)(x0)[0](g)
                if not tree_equal(r, fresh):
                    return fail("history_dependence", f"step {step}: after a failed call with a wrongly shaped cotangent, vjp(g) differs from a freshly built VJP",
                                bucket("after_failed_call"), sample=dict(sample, history=history))
                watch(f"vjp_result#{step}", r, own=False)
                results.append((g, r))
                err = check_watched(step)
                if err:
                    return err
                continue
            if kind == "jvp":
                v = new_tan(step)
                watch(f"tangent#{step}", v)
                try:
                    yv, t = jvp(v)
                except Exception as e:
                    if _missing(e) or isinstance(e, (KeyError,)):
                        continue
                    raise
                watch(f"jvp_result#{step}", t, own=False)
                # same call again gives the same answer
                yv2, t2 = jvp(v)
                if not tree_equal(t, t2):
                    return fail("history_dependence", f"step {step}: the same JVP call twice gives different tangents", bucket("jvp_repeat"), sample=sample)
                err = check_watched(step)
                if err:
                    return err
                continue
            if kind == "basis_sweep":
                gs = []
                ls = leaves(y0)
                for j in range(min(3, sum(onp.asarray(l).size for l in ls))):
                    cnt = [0]

                    def basis_leaf(l):
                        a = onp.zeros(onp.shape(l))
                        lo = cnt[0]
                        cnt[0] += a.size
                        if lo <= j < lo + a.size:
                            a.reshape(-1)[j - lo] = 1.0
                        return a

                    gs.append(tree_map(basis_leaf, y0))
            elif kind == "vjp_new" or not cots:
                gs = [new_cot(step)]
                kind = "vjp_new"
            elif kind == "vjp_same":
                gs = [cots[c.int(0, len(cots) - 1)]]
            elif kind == "vjp_scaled":
                base = cots[c.int(0, len(cots) - 1)]
                gs = [tree_map(lambda l: 1.5 * onp.asarray(l), base)]
            else:  # a previously returned result used as cotangent when it lies in the output space
                cand = [r for _, r in results if [onp.shape(l) for l in leaves(r)] == [onp.shape(l) for l in leaves(y0)] and type(r) is type(y0)]
                gs = [cand[c.int(0, len(cand) - 1)]] if cand else [new_cot(step)]
            for g in gs:
                if not any(g is w[1] for w in watched):
                    watch(f"cotangent#{step}", g, own=kind != "vjp_of_result")
                cots.append(g)
                r = vjp(g)
                n_vjp_calls += 1
                err = check_watched(step)
                if err:
                    return err
                # as if it were the only call: a freshly built VJP called once with the same g
                fresh = autograd.make_vjp(fa)(x0)[0](g)
                if not tree_equal(r, fresh):
                    return fail("history_dependence", f"step {step} ({kind}): vjp(g) differs from a freshly built VJP called once with the same g",
                                bucket("not_fresh"), sample=dict(sample, history=history))
                watch(f"vjp_result#{step}", r, own=False)
                results.append((g, r))
                if kind == "vjp_scaled":
                    rb = vjp(base)
                    if not tree_close(r, tree_map(lambda l: 1.5 * onp.asarray(l), rb), 1e-12):
                        return fail("nonlinear", f"step {step}: vjp(1.5 g) != 1.5 vjp(g)", bucket("nonlinear"), sample=sample)
                err = check_watched(step)
                if err:
                    return err
        except ValueError as e:
            if "read-only" in str(e) or "not writeable" in str(e):
                return fail("foreign_write", f"step {step} ({kind}): attempted in-place write into a buffer autograd does not own: {describe_exc(e)}",
                            bucket("foreign_write"), sample=dict(sample, history=history))
            if not from_autograd(e):
                raise
            return fail("unexpected_exception", f"step {step} ({kind}): " + describe_exc(e), bucket("exception"), sample=dict(sample, history=history))
        except Exception as e:
            if not from_autograd(e):
                raise  # harness bug: exit 2, never a violation
            if _missing(e):
                return raised(e, kind, sample=sample)
            return fail("unexpected_exception", f"step {step} ({kind}): " + describe_exc(e), bucket("exception"), sample=dict(sample, history=history))
    sample["history"] = history
    c.features.update(feats)
    interesting = feats.get("container") or (feats.get("fanout") and feats.get("passthrough")) or (feats.get("sparse"))
    labels = [k for k, v in feats.items() if v is True] + sorted(set("step=" + h for h in history))
    return ok(nontrivial=bool(interesting and n_vjp_calls >= 2), key=json.dumps([desc, history], default=repr), labels=labels, sample=sample)


def template_body(tdef, c):
    """Every primitive's rules under reuse: the same cotangent object passed twice, watched buffers, fresh-VJP equality."""
    import autograd

    from ..derivcheck import primal
    from ..templates.core import instantiate, namespaces

    call = tdef.draw(c)
    inst = instantiate(c, call, allow_complex=c.chance(1, 3))
    NP, AG = namespaces()
    sample = inst.describe()
    st, y0 = primal(inst)
    if st != "ok":
        return Outcome("numpy_rejects", detail=y0, sample=sample)
    y0a = onp.asarray(y0)
    x = inst.x_carried()
    f = inst.f(AG)
    bucket = lambda k: f"C10|template:{inst.call.name}|{inst.call.feats.get('fn', '')}|{k}"
    mk = (lambda s_: values.cdirection(inst.vseed, y0a.shape, s_)) if y0a.dtype.kind == "c" else (lambda s_: values.direction(inst.vseed, y0a.shape, s_))
    g1, g2 = onp.array(mk(71)), onp.array(mk(72))  # 0-d results of the value generator are numpy scalars: make them arrays
    for g in (g1, g2):
        g.flags.writeable = False
    before = digest([g1, g2] + [a for a in inst.xs if isinstance(a, onp.ndarray)])
    try:
        vjp, y = autograd.make_vjp(f)(x)
        if inst.vseed % 2:
            # half of the cases: the function's FIRST call gets an all-zero cotangent (rules that look at the values of their cotangent
            # must decide per call); the fresh function below never sees it
            g0 = onp.zeros_like(g1)
            g0.flags.writeable = False
            vjp(g0)
        r1 = vjp(g1)
        r1_digest = digest([r1])
        r2 = vjp(g2)
        r1_again = vjp(g1)
        fresh = autograd.make_vjp(f)(x)[0](g1)
    except ValueError as e:
        if "read-only" in str(e) or "not writeable" in str(e):
            return fail("foreign_write", "a derivative rule tried to write into the cotangent it was given: " + describe_exc(e), bucket("foreign_write"), sample=sample)
        return raised(e, "rev", sample=sample)
    except Exception as e:
        if not from_autograd(e):
            raise
        return raised(e, "rev", sample=sample)
    if digest([g1, g2] + [a for a in inst.xs if isinstance(a, onp.ndarray)]) != before:
        return fail("foreign_write", "a cotangent or input was modified by the backward pass", bucket("foreign_write"), sample=sample)
    if digest([r1]) != r1_digest:
        return fail("foreign_write", "a previously returned result changed during a later call", bucket("result_changed"), sample=sample)
    if not (tree_equal(r1, r1_again) and tree_equal(r1, fresh)):
        return fail("history_dependence", "the same VJP call repeated (or on a fresh VJP) gives a different answer", bucket("not_repeatable"), sample=sample)
    return ok(nontrivial=True, key=json.dumps([inst.call.name, inst.call.feats, inst.argsel, inst.cmask], sort_keys=True, default=repr),
              labels=["template_history"], sample=sample)


def _closure_arrays(f, depth=0):
    """ndarrays captured by a function's closure (the partner operands and constants of a drawn configuration)."""
    out = []
    for cell in getattr(f, "__closure__", None) or ():
        try:
            v = cell.cell_contents
        except ValueError:
            continue
        if isinstance(v, onp.ndarray):
            out.append(v)
        elif callable(v) and depth < 2:
            out += _closure_arrays(v, depth + 1)
    return out


def special_points_body(c):
    """Memory discipline at the SPECIAL points of the rules: ties, exact zeros, clip bounds, x**y at x = 0 (both arguments), and
    functions analytic at exact-zero entries.  Several rules branch on the values there (replace_zero, balanced_eq, chooser
    masks); the branch must not write into the operands, the captured partners, the primal result it was handed, or its cotangent."""
    import autograd

    from ..templates.core import namespaces
    from . import kinks
    from .c07 import zero_families

    NP, AG = namespaces()
    kind = c.int(0, 3)
    if kind <= 1:
        name, f, x0, _, desc = kinks.build(c)
    elif kind == 2:
        fams = zero_families()
        names = sorted(fams)
        name = names[c.int(0, len(names) - 1)]
        f = fams[name]
        shape = c.choice([(3,), (2, 3), (3, 2)])
        x0 = values.generic(c.seed(), [shape], -1.5, 1.5)[0][0].copy()
        rows = x0.reshape(-1, x0.shape[-1])
        for r in rows:  # zero out a drawn subset of each row, always keeping one entry (an all-zero row is a kink of the norms)
            keep = c.int(0, len(r) - 1)
            for j in range(len(r)):
                if j != keep and c.bool():
                    r[j] = 0.0
        if rows.all():
            rows[0][(c.int(1, len(rows[0]) - 1))] = 0.0
        desc = ["zero_entries", name, list(shape)]
    else:
        # the exponent is differentiated, the (captured or co-traced) base has exact zeros
        shape = c.choice([(3,), (2, 3), ()])
        base = onp.array(values.generic(c.seed(), [shape], 0.4, 2.0)[0][0])
        flat = base.reshape(-1)
        for _ in range(c.int(1, 2)):
            flat[c.int(0, flat.size - 1)] = 0.0
        x0 = onp.array(values.generic(c.seed(), [shape], 0.6, 2.5)[0][0])
        form = c.int(0, 2)
        f = [lambda ns, y: ns.power(base, y), lambda ns, y: base ** y, lambda ns, y: ns.power(base * 1.0, y) * ns.abs(base)][form]
        name, desc = "power_exponent", ["pow_zero_base", list(shape), form]
    x0 = onp.array(x0)
    captured = _closure_arrays(f)
    watched = [x0] + captured
    for a in watched:
        a.flags.writeable = False
    sample = {"config": desc, "x": x0.tolist()}
    bucket = lambda k: f"C10|special|{desc[0]}|{name}|{k}"
    c.features.update(kind=desc[0], fn=name)
    try:
        ref = onp.array(f(NP, x0))
    except Exception as e:
        return Outcome("numpy_rejects", detail=str(e)[:100], sample=sample)
    if ref.dtype.kind not in "fc":
        return Outcome("numpy_rejects", detail="non-float output", sample=sample)
    before = digest(watched)
    g1 = onp.array(values.direction(c.seed(), ref.shape, 71))
    v1 = onp.array(values.direction(c.seed(), x0.shape, 72))
    g1.flags.writeable = False
    v1.flags.writeable = False
    fa = lambda x: f(AG, x)
    try:
        vjp, y = autograd.make_vjp(fa)(x0)
        y_digest = digest([y])
        r1 = vjp(g1)
        r1_digest = digest([r1])
        r1_again = vjp(g1)
        y_jvp, t1 = autograd.make_jvp(fa)(x0)(v1)
        t1_digest = digest([y_jvp, t1])
        y_jvp2, t2 = autograd.make_jvp(fa)(x0)(v1)
        fresh = autograd.make_vjp(fa)(x0)[0](g1)
        plain = onp.array(fa(x0))
    except ValueError as e:
        if "read-only" in str(e) or "not writeable" in str(e):
            return fail("foreign_write", "a rule tried to write into memory it was given: " + describe_exc(e), bucket("foreign_write"), sample=sample)
        return raised(e, "special", sample=sample)
    except Exception as e:
        if not from_autograd(e):
            raise
        return raised(e, "special", sample=sample)
    if digest(watched) != before or digest([g1, v1]) != digest([onp.array(g1), onp.array(v1)]):
        return fail("foreign_write", "an input or captured operand was modified by differentiation", bucket("foreign_write"), sample=sample)
    if digest([y]) != y_digest or digest([r1]) != r1_digest or digest([y_jvp, t1]) != t1_digest:
        return fail("foreign_write", "a value returned earlier (primal result, cotangent or tangent) changed during a later call", bucket("result_changed"), sample=sample)
    for nm, val in (("make_vjp", y), ("make_jvp", y_jvp), ("plain call afterwards", plain)):
        # (a few ulp: NumPy's scalar arithmetic - `np.float64 ** 2` - and the array ufunc autograd routes through round differently)
        if onp.shape(val) != ref.shape or not onp.allclose(onp.asarray(val), ref, rtol=4e-15, atol=0.0):
            return fail("primal_mismatch", f"the value returned by {nm} differs from NumPy's at a special point", bucket("primal"), sample=sample)
    if not (tree_equal(r1, r1_again) and tree_equal(r1, fresh) and tree_equal(t1, t2)):
        return fail("history_dependence", "the same derivative call repeated (or on a fresh operator) gives a different answer", bucket("not_repeatable"), sample=sample)
    return ok(nontrivial=True, key=json.dumps(desc, default=repr), labels=["special=" + desc[0]], sample=sample)


LARGE_N = [65536, 65537, 65538, 131072, 131074, 98304]


def _large_programs():
    def idx(n):
        return onp.arange(0, n, 997)

    return {
        "rfft_power": lambda ns, x, w: ns.sum(ns.abs(ns.fft.rfft(x, norm="ortho")) ** 2 * w[: x.shape[0] // 2 + 1]),
        "rfft_irfft": lambda ns, x, w: ns.sum(ns.fft.irfft(ns.fft.rfft(x)) * w),
        "fft_real": lambda ns, x, w: ns.sum(ns.real(ns.fft.fft(x)) * w) * 1e-2,
        "sum_sq": lambda ns, x, w: ns.sum(x * x * w),
        "sum_half": lambda ns, x, w: ns.sum((x * w)[: x.shape[0] // 2 + 1] ** 2),
        "mean_sin": lambda ns, x, w: ns.mean(ns.sin(x) * w),
        "logsumexp": lambda ns, x, w: ns.log(ns.sum(ns.exp(x * w))),
        "var_std": lambda ns, x, w: ns.var(x * w) + ns.std(x),
        "dot": lambda ns, x, w: ns.dot(x, w) ** 2,
        "cumsum": lambda ns, x, w: ns.sum(ns.cumsum(x * w)[idx(x.shape[0])]) * 1e-2,
        "take": lambda ns, x, w: ns.sum(ns.sin(x[idx(x.shape[0])])) + ns.sum(x * w),
        "reshape_sum": lambda ns, x, w: ns.sum(ns.sum(ns.reshape(x * w, (2, -1)), axis=0) ** 2),
        "abs_power": lambda ns, x, w: ns.sum(ns.abs(x) ** 1.5 * w),
    }


_LP = {}


def large_arrays_body(c):
    """Arrays of 2**16 .. 2**17 entries (sizes at which an implementation may switch strategy: kept buffers, chunking): a drawn history of
    differentiations of a few programs over such arrays; every gradient must pair correctly with a direction (central differences of raw
    NumPy) and a repeated step must reproduce its first result bitwise, whatever was differentiated in between."""
    import autograd

    from ..templates.core import namespaces

    NP, AG = namespaces()
    if not _LP:
        _LP.update(_large_programs())
    names = sorted(_LP)
    pool = []
    for _ in range(c.int(2, 3)):
        pool.append((names[c.int(0, len(names) - 1)], LARGE_N[c.int(0, len(LARGE_N) - 1)], c.int(0, 3)))
    steps = [pool[c.int(0, len(pool) - 1)] for _ in range(c.int(3, 5))]
    sample = {"steps": [list(s_) for s_ in steps]}
    first = {}
    data = {}
    for k, (name, n, vs) in enumerate(steps):
        if name in ("rfft_power", "rfft_irfft", "reshape_sum") and n % 2:
            n += 1
        if (n, vs) not in data:
            rs = onp.random.RandomState(1000 * vs + n % 1000)
            x = rs.uniform(0.3, 1.7, n) * onp.where(rs.uniform(size=n) < 0.5, -1.0, 1.0)
            w = rs.uniform(0.5, 1.5, n)
            v = rs.uniform(-1.0, 1.0, n)
            for a_ in (x, w, v):
                a_.flags.writeable = False
            data[(n, vs)] = (x, w, v, digest([x, w, v]))
        x, w, v, dg = data[(n, vs)]
        f = _LP[name]
        bucket = lambda kd: f"C10|large|{name}|{kd}"
        try:
            g = autograd.grad(lambda x_: f(AG, x_, w))(x)
        except ValueError as e:
            if "read-only" in str(e) or "not writeable" in str(e):
                return fail("foreign_write", "a rule tried to write into memory it was given: " + describe_exc(e), bucket("foreign_write"), sample=sample)
            return raised(e, "large", sample=sample)
        except Exception as e:
            if not from_autograd(e):
                raise
            return raised(e, "large", sample=sample)
        if digest([x, w, v]) != dg:
            return fail("foreign_write", f"step {k} ({name}, n={n}) modified an input", bucket("foreign_write"), sample=sample)
        if onp.shape(g) != x.shape:
            return fail("wrong_shape", f"step {k} ({name}, n={n}): gradient shape {onp.shape(g)}", bucket("wrong_shape"), sample=sample)
        key = (name, n, vs)
        if key in first:
            if not onp.array_equal(g, first[key]):
                return fail("history_dependence", f"step {k} ({name}, n={n}) differs from the same differentiation done earlier in this history "
                            f"(max abs diff {float(onp.max(onp.abs(g - first[key]))):.3e})", bucket("not_repeatable"), sample=sample)
            continue
        first[key] = onp.array(g)
        h = 1e-5
        num = (f(NP, x + h * v, w) - f(NP, x - h * v, w)) / (2 * h)
        ana = float(onp.dot(g, v))
        scale = max(1.0, abs(num), float(onp.sqrt(onp.dot(g, g)) * onp.sqrt(n) * 1e-3))
        if not abs(ana - num) <= 1e-5 * scale:
            return fail("wrong_value", f"step {k} ({name}, n={n}): <grad, v> = {ana!r} but central differences give {num!r}", bucket("wrong_value"), sample=sample)
    c.features.update(programs=sorted({s_[0] for s_ in steps}))
    return ok(nontrivial=len(set(steps)) >= 2 and len(steps) > len(set(steps)), key=json.dumps(sample), labels=["large"], sample=sample)


def container_reads_body(c):
    """A tuple / list / dict ARGUMENT whose entries are looked up several times (`p[0] + p[0]`, `3 p["w"] + p["w"] + p["v"]`): the array-valued sum of
    2-5 terms (an entry itself, a scaled entry, sin of an entry) in a drawn order.  The caller's cotangent array goes through make_vjp's function
    twice (then another one, then the first again): it is never changed, every call gives g * (sum of the local derivatives) per entry, the
    arguments are unchanged; the scalar version sum(sin(y)) through grad gives cos(y) * (the same sums)."""
    import autograd
    import autograd.numpy as anp

    vseed = c.seed()
    kind = c.choice(["tuple", "list", "dict"])
    ne = c.int(2, 3)
    n = c.int(1, 4)
    arrs, _ = values.generic(vseed, [(n,)] * ne + [(n,), (n,)], -1.3, 1.3)
    leaves, g1, g2 = arrs[:ne], arrs[ne], arrs[ne + 1]
    keys = ["w", "v", "a"][:ne]
    terms = [(c.choice(["plain", "plain", "scaled", "sin"]), c.int(0, ne - 1), c.choice([3.0, -0.5, 2.0])) for _ in range(c.int(2, 5))]
    sample = {"kind": kind, "ne": ne, "n": n, "terms": terms, "vseed": vseed}
    c.features.update(kind=kind, n_terms=len(terms), first=terms[0][0], repeated=len({t[1] for t in terms}) < len(terms))
    bucket = lambda k: f"C10|container_reads|{kind}|{k}"
    ent = (lambda p_, i: p_[keys[i]]) if kind == "dict" else (lambda p_, i: p_[i])
    mk = lambda: dict(zip(keys, [a.copy() for a in leaves])) if kind == "dict" else ((list if kind == "list" else tuple)(a.copy() for a in leaves))

    def y(p_, ns=anp):
        tot = None
        for tk, i, k_ in terms:
            t = ent(p_, i) if tk == "plain" else (k_ * ent(p_, i) if tk == "scaled" else ns.sin(ent(p_, i)))
            tot = t if tot is None else tot + t
        return tot

    coef = [onp.zeros(n) for _ in range(ne)]
    for tk, i, k_ in terms:
        coef[i] = coef[i] + (1.0 if tk == "plain" else (k_ if tk == "scaled" else onp.cos(leaves[i])))
    p0 = mk()
    snap = [a.copy() for a in leaves]
    try:
        vjp, y0 = autograd.make_vjp(y)(p0)
        outs = []
        for gk in (g1, g1, g2, g1):
            keep = gk.copy()
            r = vjp(gk)
            outs.append(([onp.array(ent(r, i)) for i in range(ne)], keep))
            if not onp.array_equal(gk, keep):
                return fail("foreign_write", f"the cotangent array passed to the VJP function was changed: {keep.tolist()} -> {gk.tolist()}", bucket("cotangent"), sample=sample)
        gs = autograd.grad(lambda p_: anp.sum(anp.sin(y(p_))))(mk())
    except Exception as e:
        if not from_autograd(e):
            raise
        return fail("unexpected_exception", describe_exc(e), bucket("exception"), sample=sample)
    if not all(onp.array_equal(ent(p0, i), snap[i]) for i in range(ne)):
        return fail("foreign_write", "an entry of the container argument was changed", bucket("argument"), sample=sample)
    for call, (r, keep) in enumerate(outs):
        for i in range(ne):
            if r[i].shape != (n,) or not onp.allclose(r[i], keep * coef[i], rtol=1e-13, atol=1e-13):
                return fail("not_reusable", f"call {call} of the VJP function: entry {keys[i]} gets {r[i].tolist()}, expected {(keep * coef[i]).tolist()}", bucket("value"), sample=sample)
    cy = onp.cos(onp.asarray(y(mk(), onp)))
    for i in range(ne):
        got = onp.asarray(ent(gs, i))
        if got.shape != (n,) or not onp.allclose(got, cy * coef[i], rtol=1e-12, atol=1e-13):
            return fail("wrong_value", f"grad of sum(sin(y)): entry {keys[i]} gets {got.tolist()}, expected {(cy * coef[i]).tolist()}", bucket("grad"), sample=sample)
    return ok(nontrivial=len({t[1] for t in terms}) < len(terms), key=json.dumps([kind, ne, n, terms]), labels=["container_reads", "kind=" + kind, "first=" + terms[0][0]], sample=sample)


from functools import partial  # noqa: E402

def _tests():
    from ..templates import TEMPLATES

    out = [Test("histories", partial(body, 15), quick=2000, thorough=0, shard_size=130),
           Test("histories_long", partial(body, 30), quick=0, thorough=6000, shard_size=100),
           Test("special_points", special_points_body, quick=1500, thorough=12000, shard_size=150),
           Test("large_arrays", large_arrays_body, quick=160, thorough=1600, shard_size=10),
           Test("container_reads", container_reads_body, quick=1200, thorough=8000, shard_size=200)]
    for name, t in sorted(TEMPLATES.items()):
        out.append(Test("reuse:" + name, partial(template_body, t), quick=20 * t.weight, thorough=200 * t.weight, shard_size=100))
    return out


PROP = Prop("C10", _tests(), RULE, level="exploration", assumptions=[
    "SHA-256 of buffer contents identifies modification; buffers owned by the harness are read-only so writes also raise",
    "bitwise repeatability of the backward pass for an identical graph and cotangent (deterministic toposort)",
])
PROP.reach_functions = ['autograd.core:add_outgrads', 'autograd.core:sparse_add', 'autograd.core:VSpace.mut_add', 'autograd.builtins:container_untake']
