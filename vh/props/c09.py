"""C09 — complex differentiation follows the documented convention everywhere."""
import json
from functools import partial

import numpy as onp

from .. import oracle, values
from ..case import Outcome, fail, ok, raised
from ..derivcheck import run_first_order
from ..engine import Prop, Test
from ..templates import TEMPLATES

RULE = (
    "Template cases with at least one complex argument (each argument independently real or complex; python complex, "
    "np.complex128 and array carriers; complex cotangents/tangents): reverse mode must satisfy Re<vjp(g),v> = Re<g,J_R v> "
    "for every realified basis direction v (1 and 1j per entry) with the full analytic Jacobian built from the output basis "
    "(1 and 1j per output entry) - equivalent to vjp(g) = conj(J_R^T conj g); forward mode jvp(v) = J_R v; the cotangent is "
    "complex iff the argument is. J_R v comes from Ridders differentiation of raw NumPy along real and imaginary directions. "
    "Derived programs: holomorphic functions (holomorphic_grad == complex derivative, Cauchy-Riemann checked on the oracle "
    "side), real losses of complex parameters (grad == dL/dx - i dL/dy), real->real functions through fft round trips "
    "against a purely real implementation. Non-trivial = at least one complex argument or result; distinct by (template, "
    "feature tuple, complex mask)."
    ' kind_change: complex data with numerically zero imaginary parts through real_if_close (real tangent for the real result, complex cotangent).'
)


def _body(tdef, mode, case):
    out = run_first_order(case, tdef, mode, allow_complex=True, force_complex=True)
    if not case.features.get("any_complex"):
        out.nontrivial = False  # a real-only configuration of a complex-capable template: C01/C02 territory
    return out


# ---- holomorphic programs -------------------------------------------------------------------------
HOLO = ["add", "mul", "div", "exp", "sin", "cosh", "sqrt", "pow", "sq", "inv2", "det2"]


def gen_holo(c, depth):
    if depth <= 0:
        return ("z",) if c.chance(3, 4) else ("c", c.choice([0.5 + 0.25j, 1.25 - 0.5j, 0.75 + 0j]))
    k = c.int(0, 8)
    if k == 0:
        return ("z",)
    if k == 1:
        return ("add", gen_holo(c, depth - 1), gen_holo(c, depth - 1))
    if k == 2:
        return ("mul", gen_holo(c, depth - 1), gen_holo(c, depth - 1))
    if k == 3:
        return ("div", gen_holo(c, depth - 1), ("add", ("c", 3.0 + 0j), gen_holo(c, depth - 2)))
    if k == 4:
        return ("exp", ("mul", ("c", 0.5 + 0j), gen_holo(c, depth - 1)))
    if k == 5:
        return ("sin", ("mul", ("c", 0.5 + 0j), gen_holo(c, depth - 1)))
    if k == 6:
        return ("cosh", ("mul", ("c", 0.5 + 0j), gen_holo(c, depth - 1)))
    if k == 7:
        return ("sqrt", ("add", ("c", 4.0 + 0j), gen_holo(c, depth - 1)))
    return ("pow", gen_holo(c, depth - 1), c.choice([2, 3]))


def ev_holo(e, z, ns):
    t = e[0]
    if t == "z":
        return z
    if t == "c":
        return e[1]
    if t == "add":
        return ev_holo(e[1], z, ns) + ev_holo(e[2], z, ns)
    if t == "mul":
        return ev_holo(e[1], z, ns) * ev_holo(e[2], z, ns)
    if t == "div":
        return ev_holo(e[1], z, ns) / ev_holo(e[2], z, ns)
    if t == "pow":
        return ev_holo(e[1], z, ns) ** e[2]
    return getattr(ns, t)(ev_holo(e[1], z, ns))


def holo_body(c):
    import autograd
    import autograd.numpy as anp

    e = gen_holo(c, c.int(1, 4))
    form = c.choice(["scalar", "array"])
    vseed = c.seed()
    (re, im), _ = values.generic(vseed, [(2,), (2,)], -0.8, 0.8)
    sample = {"expr": repr(e), "form": form, "vseed": vseed}
    if form == "scalar":
        z0 = complex(re[0], im[0])
        f_np = lambda z: onp.asarray(ev_holo(e, z, onp))
    else:
        z0 = re + 1j * im
        f_np = lambda z: onp.sum(ev_holo(e, z, onp) * onp.array([1.0, 0.5]))
    try:
        y0 = f_np(onp.asarray(z0))
        if not onp.all(onp.isfinite(y0)) or abs(complex(onp.sum(y0))) > 1e6:
            return Outcome("numpy_rejects", detail="non-finite", sample=sample)
    except Exception as ex:
        return Outcome("numpy_rejects", detail=str(ex)[:100], sample=sample)
    za = onp.asarray(z0)
    try:
        # complex derivative along the real axis, cross-checked along the imaginary axis (Cauchy-Riemann)
        if form == "scalar":
            dre, e1 = oracle.directional(f_np, za, onp.asarray(1.0 + 0j), 0.02)
            dim, e2 = oracle.directional(f_np, za, onp.asarray(1j), 0.02)
            ref, cr = dre, dim / 1j
        else:
            ref = onp.zeros(2, dtype=complex)
            cr = onp.zeros(2, dtype=complex)
            e1 = e2 = 0.0
            for i in range(2):
                b = onp.zeros(2, dtype=complex)
                b[i] = 1.0
                d1, ea = oracle.directional(f_np, za, b, 0.02)
                d2, eb = oracle.directional(f_np, za, 1j * b, 0.02)
                ref[i], cr[i] = d1, d2 / 1j
                e1, e2 = max(e1, ea), max(e2, eb)
    except oracle.Inconclusive as ex:
        return Outcome("inconclusive", detail=str(ex), sample=sample)
    scale = max(1.0, float(onp.max(onp.abs(ref))))
    if not onp.all(onp.abs(ref - cr) <= 1e-7 * scale + 100 * (e1 + e2)):
        raise AssertionError("generated function is not holomorphic (Cauchy-Riemann fails on the oracle side)")
    try:
        got = autograd.holomorphic_grad(lambda z: ev_holo(e, z, anp) if form == "scalar" else anp.sum(ev_holo(e, z, anp) * anp.array([1.0, 0.5])))(z0)
    except Exception as ex:
        return raised(ex, "holomorphic", sample=sample)
    got = onp.asarray(got)
    if got.shape != onp.shape(ref):
        return fail("wrong_shape", f"{got.shape} vs {onp.shape(ref)}", "C09|holomorphic|wrong_shape", sample=sample)
    if not onp.all(onp.abs(got - ref) <= 1e-7 * scale + 100 * (e1 + e2)):
        return fail("wrong_value", f"holomorphic_grad {got!r} but complex derivative {ref!r}", "C09|holomorphic|wrong_value", sample=sample)
    return ok(nontrivial=True, key=repr(e) + form, labels=["holomorphic", "form=" + form], sample=sample)


# ---- real loss of complex parameters --------------------------------------------------------------------
def realloss_body(c):
    import autograd
    import autograd.numpy as anp

    n = c.int(1, 3)
    k = c.int(0, 5)
    vseed = c.seed()
    (re, im, wr), _ = values.generic(vseed, [(n,), (n,), (n,)], -1.2, 1.2)
    z0 = re + 1j * im
    w = wr + 0.5j
    LOSS = [
        lambda ns, z: ns.sum(ns.abs(z) ** 2),
        lambda ns, z: ns.sum(ns.real(z * w) ** 2 + ns.imag(z) * 0.3),
        lambda ns, z: ns.real(ns.sum(ns.exp(0.5 * z) * ns.conj(z))),
        lambda ns, z: ns.sum(ns.abs(ns.sin(z) + w)),
        lambda ns, z: ns.real(ns.dot(ns.conj(z), z * w)),
        lambda ns, z: ns.sum(ns.angle(z + 3.0) * ns.real(z)),
    ]
    L = LOSS[k]
    sample = {"loss": k, "n": n, "vseed": vseed}
    f_np = lambda z: onp.asarray(L(onp, z))
    try:
        gx = onp.zeros(n)
        gy = onp.zeros(n)
        err = 0.0
        for i in range(n):
            b = onp.zeros(n, dtype=complex)
            b[i] = 1.0
            d1, e1 = oracle.directional(f_np, z0, b, 0.02)
            d2, e2 = oracle.directional(f_np, z0, 1j * b, 0.02)
            gx[i], gy[i] = float(onp.real(d1)), float(onp.real(d2))
            err = max(err, e1, e2)
    except oracle.Inconclusive as ex:
        return Outcome("inconclusive", detail=str(ex), sample=sample)
    ref = gx - 1j * gy  # documented: grad = dL/dx - i dL/dy ; conj(grad) is the steepest-ascent direction
    try:
        got = onp.asarray(autograd.grad(lambda z: L(anp, z))(z0))
    except Exception as ex:
        return raised(ex, "real_loss", sample=sample)
    scale = max(1.0, float(onp.max(onp.abs(ref))))
    if got.shape != ref.shape or got.dtype.kind != "c":
        return fail("wrong_kind", f"gradient {got.dtype} {got.shape}", "C09|real_loss|wrong_kind", sample=sample)
    if not onp.all(onp.abs(got - ref) <= 1e-7 * scale + 100 * err):
        return fail("wrong_value", f"grad {got!r} but dL/dx - i dL/dy = {ref!r}", "C09|real_loss|wrong_value", sample=sample)
    return ok(nontrivial=True, key=json.dumps([k, n]), labels=["real_loss"], sample=sample)


# ---- real -> real through complex intermediates ------------------------------------------------------------
def roundtrip_body(c):
    import autograd
    import autograd.numpy as anp

    n = c.choice([2, 3, 4, 5, 6, 8])
    k = c.int(0, 4)
    vseed = c.seed()
    (x0, h), _ = values.generic(vseed, [(n,), (n,)], -1.5, 1.5)
    w = values.direction(vseed, (n,), 9)
    idx = onp.arange(n)
    C = onp.cos(2 * onp.pi * onp.outer(idx, idx) / n)
    S = onp.sin(2 * onp.pi * onp.outer(idx, idx) / n)
    sample = {"kind": k, "n": n, "vseed": vseed}
    if k == 0:  # circular convolution via fft
        f_ag = lambda x: anp.sum(w * anp.real(anp.fft.ifft(anp.fft.fft(x) * anp.fft.fft(h))))
        M = onp.array([[h[(i - j) % n] for j in range(n)] for i in range(n)])
        grad_ref = M.T @ w
    elif k == 1:  # Parseval energy
        f_ag = lambda x: anp.sum(anp.abs(anp.fft.fft(x)) ** 2) / n
        grad_ref = 2 * x0
    elif k == 2:  # weighted power spectrum by cos/sin matrices
        f_ag = lambda x: anp.sum(w * anp.abs(anp.fft.fft(x)) ** 2)
        grad_ref = 2 * (C.T @ (w * (C @ x0)) + S.T @ (w * (S @ x0)))
    elif k == 3:  # rfft / irfft identity (even n only)
        if n % 2:
            n2 = n + 1
            return Outcome("numpy_rejects", detail="odd length", sample=sample)
        f_ag = lambda x: anp.sum(w * anp.fft.irfft(anp.fft.rfft(x) * 2.0, n))
        grad_ref = 2.0 * w
    else:  # complex exponential modulation, real part
        ph = onp.exp(1j * 0.7 * idx)
        f_ag = lambda x: anp.sum(w * anp.real(x * ph) ** 2)
        grad_ref = 2 * w * (x0 * onp.cos(0.7 * idx)) * onp.cos(0.7 * idx)
    try:
        got = onp.asarray(autograd.grad(f_ag)(x0))
    except Exception as ex:
        return raised(ex, "roundtrip", sample=sample)
    if got.shape != x0.shape or got.dtype.kind == "c":
        return fail("wrong_kind", f"gradient of a real function of real input is {got.dtype} {got.shape}", "C09|roundtrip|wrong_kind", sample=sample)
    scale = max(1.0, float(onp.max(onp.abs(grad_ref))))
    if not onp.all(onp.abs(got - grad_ref) <= 1e-9 * scale * n):
        return fail("wrong_value", f"grad through complex intermediates {got!r} but real implementation gives {grad_ref!r}",
                    "C09|roundtrip|wrong_value", sample=sample)
    return ok(nontrivial=True, key=json.dumps([k, n]), labels=["roundtrip", f"kind={k}"], sample=sample)


def kind_change_body(c):
    """Functions whose RESULT KIND depends on the values: complex data whose imaginary parts are (numerically) zero.  real_if_close then
    returns a real array; the tangent / cotangent must follow the output's / the argument's kind: J v = Re v, J^T g = g + 0j."""
    import autograd
    import autograd.numpy as anp

    from ..case import describe_exc, from_autograd

    shape = c.choice([(), (3,), (2, 2)])
    vseed = c.seed()
    (re, w), _ = values.generic(vseed, [shape, shape], -1.5, 1.5)
    tiny = c.choice([0.0, 1e-17, -3e-18])
    z0 = onp.asarray(re + 1j * tiny * onp.ones(shape))
    how = c.choice(["real_if_close", "real_if_close_then_weights", "after_square_root_of_square"])
    cw = onp.asarray(values.cdirection(vseed, shape, 7))

    def f(z):
        if how == "real_if_close":
            return anp.real_if_close(z)
        if how == "real_if_close_then_weights":
            return anp.real(anp.real_if_close(z) * cw)
        return anp.real_if_close(anp.conj(z) * 1.0) * w

    def f_ref(v):  # the real-linear map the function is at such a point, applied to a complex direction
        if how == "real_if_close":
            return onp.real(v)
        if how == "real_if_close_then_weights":
            return onp.real(onp.real(v) * cw)
        return onp.real(v) * w

    y0 = onp.asarray(f(z0)) if False else None
    v = onp.asarray(values.cdirection(vseed, shape, 5))
    sample = {"how": how, "shape": list(shape), "imag": tiny, "vseed": vseed}
    c.features.update(how=how)
    bucket = lambda k: f"C09|kind_change|{how}|{k}"
    if onp.iscomplexobj(onp.real_if_close(z0)):
        return Outcome("numpy_rejects", detail="NumPy keeps the result complex", sample=sample)
    try:
        y, t = autograd.make_jvp(f)(z0)(v)
        vjp, y2 = autograd.make_vjp(f)(z0)
        g = onp.asarray(values.direction(vseed, onp.shape(y2), 9))
        r = vjp(g)
    except Exception as e:
        if not from_autograd(e):
            raise
        return raised(e, "kind_change", sample=sample)
    want_t = f_ref(v)
    if onp.iscomplexobj(t) and not onp.iscomplexobj(y):
        return fail("wrong_kind", f"{how}: forward mode returns a complex tangent {onp.asarray(t).tolist()} for a real output", bucket("tangent_kind"), sample=sample)
    if onp.shape(t) != onp.shape(want_t) or not onp.allclose(onp.asarray(t), want_t, rtol=1e-12, atol=1e-12):
        return fail("wrong_value", f"{how}: J v = {onp.asarray(want_t).tolist()} but make_jvp gives {onp.asarray(t).tolist()}", bucket("tangent"), sample=sample)
    # pairing: <g, J v> over the reals == Re <conj-convention gradient, v>: check with two directions
    for vv in (v, 1j * v):
        lhs = float(onp.sum(g * f_ref(vv)))
        rhs = float(onp.real(onp.sum(onp.conj(onp.asarray(r)) * vv))) if onp.iscomplexobj(r) else float(onp.sum(onp.asarray(r) * onp.real(vv)))
        if abs(lhs - rhs) > 1e-10 * max(1.0, abs(lhs)):
            # (autograd's convention for the gradient of a complex argument is conj-linear pairing; accept either sign convention of the imaginary part)
            rhs2 = float(onp.real(onp.sum(onp.asarray(r) * vv))) if onp.iscomplexobj(r) else rhs
            if abs(lhs - rhs2) > 1e-10 * max(1.0, abs(lhs)):
                return fail("wrong_value", f"{how}: reverse mode cotangent {onp.asarray(r).tolist()} does not pair with the direction ({lhs!r} vs {rhs!r})", bucket("cotangent"), sample=sample)
    if not onp.iscomplexobj(r):
        return fail("wrong_kind", f"{how}: the cotangent of a complex argument is real", bucket("cotangent_kind"), sample=sample)
    return ok(nontrivial=True, key=json.dumps([how, list(shape), tiny]), labels=["kind_change", "how=" + how], sample=sample)


def complex_dtype_body(c):
    """Complex arguments whose complexness is carried by the DTYPE only: complex128 data with exactly zero imaginary parts, and
    single-precision complex (complex64) data.  The gradient of a real loss is complex (of the argument's dtype kind) and pairs with every
    complex direction like the closed-form derivative."""
    import autograd
    import autograd.numpy as anp

    from ..case import describe_exc, from_autograd

    how = c.choice(["eig_zero_imag", "fft_c64", "ifft_c64", "fft2_c64", "matmul_c64", "exp_c64", "eig_c128_generic", "sum_sq_zero_imag"])
    vseed = c.seed()
    n = c.int(2, 3)
    (M, Wr, Wi), _ = values.generic(vseed, [(n, n), (n, n), (n, n)], -1.0, 1.0)
    cw = Wr + 1j * Wi
    if how in ("eig_zero_imag", "eig_c128_generic"):
        z0 = (M * 0.5 + 1.5 * onp.diag(onp.arange(1, n + 1))) + (0j if how == "eig_zero_imag" else 0.3j * Wi)
        f = lambda z: anp.real((1.0 + 2.0j) * anp.sum(anp.linalg.eig(z)[0] ** 2))
        dfun = lambda z, v: float(onp.real((1.0 + 2.0j) * 2.0 * onp.trace(z @ v)))
        tol = 1e-9
    elif how == "sum_sq_zero_imag":
        z0 = M + 0j
        f = lambda z: anp.real(anp.sum(z * z * cw))
        dfun = lambda z, v: float(onp.real(onp.sum(2.0 * z * v * cw)))
        tol = 1e-12
    else:
        z0 = (M + 1j * Wi).astype(onp.complex64)
        cw = cw.astype(onp.complex64)
        tol = 2e-5
        if how == "fft_c64":
            f = lambda z: anp.real(anp.sum(anp.fft.fft(z) * cw))
            dfun = lambda z, v: float(onp.real(onp.sum(onp.fft.fft(v) * cw)))
        elif how == "ifft_c64":
            f = lambda z: anp.real(anp.sum(anp.fft.ifft(z, axis=0) * cw))
            dfun = lambda z, v: float(onp.real(onp.sum(onp.fft.ifft(v, axis=0) * cw)))
        elif how == "fft2_c64":
            f = lambda z: anp.real(anp.sum(anp.fft.fft2(z) * cw))
            dfun = lambda z, v: float(onp.real(onp.sum(onp.fft.fft2(v) * cw)))
        elif how == "matmul_c64":
            f = lambda z: anp.real(anp.sum(anp.matmul(z, z) * cw))
            dfun = lambda z, v: float(onp.real(onp.sum((z @ v + v @ z) * cw)))
        else:
            f = lambda z: anp.real(anp.sum(anp.exp(z) * cw))
            dfun = lambda z, v: float(onp.real(onp.sum(onp.exp(z) * v * cw)))
    sample = {"how": how, "n": n, "vseed": vseed, "dtype": str(z0.dtype)}
    c.features.update(how=how)
    bucket = lambda k: f"C09|complex_dtype|{how}|{k}"
    try:
        r = onp.asarray(autograd.grad(f)(z0))
    except Exception as e:
        if not from_autograd(e):
            raise
        return raised(e, "complex_dtype", sample=sample)
    if r.dtype.kind != "c":
        return fail("wrong_kind", f"{how}: the gradient with respect to a {z0.dtype} argument is {r.dtype}", bucket("kind"), sample=sample)
    if r.shape != z0.shape:
        return fail("wrong_shape", f"{how}: gradient shape {r.shape}", bucket("shape"), sample=sample)
    for k_ in range(2):
        v = onp.asarray(values.cdirection(vseed, z0.shape, 5 + k_)) * (1j if k_ else 1.0)
        want = dfun(z0.astype(onp.complex128), v)
        got = float(onp.real(onp.sum(r.astype(onp.complex128) * v)))  # autograd's convention: df(v) = Re sum(grad * v)
        if abs(got - want) > tol * max(1.0, abs(want)):
            return fail("wrong_value", f"{how}: the gradient pairs with a complex direction to {got!r}, the closed form gives {want!r}", bucket("pairing"), sample=sample)
    return ok(nontrivial=True, key=json.dumps([how, n]), labels=["complex_dtype", "how=" + how], sample=sample)


def tests():
    out = []
    from ..templates.core import complex_capable

    for name, t in sorted(TEMPLATES.items()):
        # only templates whose differentiable arguments may be complex
        if not complex_capable(t):
            continue
        out.append(Test("crev:" + name, partial(_body, t, "rev"), quick=100 * t.weight, thorough=800 * t.weight, shard_size=200))
        out.append(Test("cfwd:" + name, partial(_body, t, "fwd"), quick=60 * t.weight, thorough=500 * t.weight, shard_size=200))
    out.append(Test("holomorphic", holo_body, quick=600, thorough=8000, shard_size=150))
    out.append(Test("real_loss", realloss_body, quick=300, thorough=3000, shard_size=150))
    out.append(Test("roundtrip", roundtrip_body, quick=300, thorough=3000, shard_size=150))
    out.append(Test("kind_change", kind_change_body, quick=300, thorough=2000, shard_size=150))
    out.append(Test("complex_dtype", complex_dtype_body, quick=400, thorough=3000, shard_size=100))
    return out


PROP = Prop("C09", tests(), RULE, assumptions=[
    "NumPy's complex primal functions are the reference semantics; J_R by Ridders extrapolation along real and imaginary directions",
    "generic points; branch cuts of sqrt/log/angle avoided by the value domains",
], selftest=oracle.selftest)
