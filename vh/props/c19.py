"""C19 — results are independent of call history, including calls that failed anywhere."""
import json
import os
import subprocess
import sys
import warnings

import numpy as onp

from .. import env
from ..case import Outcome, describe_exc, fail, from_autograd, ok
from ..engine import Prop, Test
from ..refs import canary

RULE = (
    "Model-based histories (drawn step sequences, <= 12 quick / 30 thorough steps) over the process: ok_call (a nested "
    "differentiation with a closed-form answer), failing_call(depth d <= 3, fault point, catch level e) where a fault is injected "
    "at the k-th operation of the forward evaluation (a user primitive raising on its k-th invocation, or a plain raise), at the "
    "k-th rule of the backward pass (a user primitive whose VJP/JVP raises), at trace exit (the 'Output seems independent of "
    "input' warning promoted to an error), or inside a make_jvp operator object that was built outside every differentiation and is "
    "called at the innermost level (stored_jvp), at nesting depth d, and is caught inside enclosing level e - whose function then "
    "continues with further nested differentiations and must still return the closed-form value - or not at all; "
    "closure_fault (a VJP closure fails part-way through its backward pass on a graph with fan-out and is then called again; "
    "closure_fault_ckpt: the failure happens while the rules of a checkpointed two-argument block are being built); mutate_result (the "
    "caller updates returned gradients / Jacobians / tangents in place); "
    "reentrant (a derivative rule that itself calls grad; recursion through grad); canary. After every step: a table of 25 "
    "canary differentiations is bitwise equal to the table computed by a fresh subprocess at the start of the run; registries "
    "(primitive_vjps, primitive_jvps, notrace_primitives, Box.type_mappings, VSpace.mappings) have the same keys and identities; "
    "warnings filter and numpy.random state are restored by the harness. Non-trivial = the history contains a failure at depth >= 2 "
    "caught at an enclosing level that continued (or a closure fault), followed by a canary; distinct by history. operator_reuse: the VJP "
    "function and the JVP function of every call template are called three times (first argument, another, the first again): the "
    "first and the third answers are bitwise equal."
    ' Steps added later: lazy_operator, recorded_graph (const_graph after a failed recording call), cotangent_reuse, array_builders (np.r_ / np.c_ / np.array of traced entries of a drawn kind: float64, complex128, float32).'
)

_REF = {}


def selftest():
    """Compute the canary reference in a fresh interpreter (same repo, same hash seed)."""
    e = dict(os.environ, PYTHONHASHSEED="0", PYTHONDONTWRITEBYTECODE="1", VERIF_REPO=env.REPO)
    out = subprocess.run([sys.executable, "-m", "vh.refs.canary"], cwd=env.VERIF_DIR, env=e, capture_output=True, text=True, timeout=300)
    if out.returncode != 0:
        raise env.HarnessError("canary subprocess failed:\n" + out.stderr[-2000:])
    _REF["table"] = json.loads(out.stdout)
    here = canary.compute()
    if here != _REF["table"]:
        raise env.HarnessError("canary table differs between a fresh subprocess and this process before any history was run")


class Fault(Exception):
    pass


_P = {}


def prims():
    if _P:
        return _P
    import autograd.numpy as anp
    from autograd.extend import defjvp, defvjp, primitive

    state = {"count": 0, "boom_at": None, "bwd_fail": False, "bwd_count": 0, "bwd_at": 1}

    @primitive
    def fwd_boom(x):
        state["count"] += 1
        if state["boom_at"] is not None and state["count"] >= state["boom_at"]:
            raise Fault("forward fault")
        return x * 1.0

    defvjp(fwd_boom, lambda ans, x: lambda g: g)
    defjvp(fwd_boom, lambda g, ans, x: g)

    @primitive
    def fwd_boom_always(x):
        raise Fault("forward fault")

    defvjp(fwd_boom_always, lambda ans, x: lambda g: g)
    defjvp(fwd_boom_always, lambda g, ans, x: g)

    @primitive
    def bwd_boom(x):
        return x * 1.0

    def bwd_vjp(ans, x):
        def vjp(g):
            if state["bwd_fail"]:
                state["bwd_count"] += 1
                if state["bwd_count"] >= state["bwd_at"]:  # the k-th derivative rule applied in this pass raises
                    raise Fault("backward fault")
            return g
        return vjp

    def bwd_jvp(g, ans, x):
        if state["bwd_fail"]:
            state["bwd_count"] += 1
            if state["bwd_count"] >= state["bwd_at"]:
                raise Fault("forward-rule fault")
        return g

    defvjp(bwd_boom, bwd_vjp)
    defjvp(bwd_boom, bwd_jvp)

    @primitive
    def reentrant(x):
        return onp.sin(x)

    # a derivative rule that itself calls grad
    import autograd

    defvjp(reentrant, lambda ans, x: lambda g: g * autograd.grad(lambda t: anp.sin(t))(x))
    _P.update(state=state, fwd_boom=fwd_boom, bwd_boom=bwd_boom, reentrant=reentrant, fwd_boom_always=fwd_boom_always)
    return _P


def registries():
    from autograd.core import VSpace, primitive_jvps, primitive_vjps
    from autograd.tracer import Box, notrace_primitives

    return {
        "vjps": {id(k): id(v) for k, v in primitive_vjps.items()},
        "jvps": {id(k): id(v) for k, v in primitive_jvps.items()},
        "notrace": {id(k): frozenset(id(f) for f in v) for k, v in notrace_primitives.items()},
        "box": {id(k): id(v) for k, v in Box.type_mappings.items()},
        "vspace": {id(k): id(v) for k, v in VSpace.mappings.items()},
    }


def registries_preserved(before, after):
    """Every registration present before is still there with the same identity (new registrations - e.g. by autograd.checkpoint,
    which registers a fresh primitive per call - are legitimate)."""
    return all(all(after[name].get(k) == v for k, v in table.items()) for name, table in before.items())


def D(mode, f):
    """Derivative operator of a scalar function in the given mode."""
    import autograd

    if mode == "r":
        return autograd.grad(f)
    return lambda x: autograd.make_jvp(f)(x)(1.0)[1]


def body(max_steps, c):
    import autograd
    import autograd.numpy as anp

    P = prims()
    state = P["state"]
    n_steps = c.int(2, max_steps)
    history = []
    bucket = lambda k: f"C19|history|{k}"
    reg0 = registries()
    filters0 = list(warnings.filters)
    rnd0 = onp.random.get_state()
    saw_deep_caught = False
    canary_after = False
    sample = {"history": history}

    def check_canary(step):
        with warnings.catch_warnings():
            warnings.simplefilter("ignore")
            try:
                table = canary.compute()
            except Exception as e:
                if not from_autograd(e):
                    raise
                return fail("history_dependence", f"after step {step}: a canary differentiation raised {describe_exc(e)}", bucket("canary_exception"), sample=sample)
        if table != _REF["table"]:
            bad = [i for i, (a, b) in enumerate(zip(table, _REF["table"])) if a != b]
            return fail("history_dependence", f"after step {step}: canary results {bad} differ from the fresh-interpreter table", bucket("canary"), sample=sample)
        return None

    try:
        for step in range(n_steps):
            kind = c.choice(["ok_call", "failing_call", "failing_call", "closure_fault", "closure_reuse", "reentrant", "canary", "closure_fault_ckpt",
                             "mutate_result", "lazy_operator", "recorded_graph", "cotangent_reuse", "array_builders"])
            x0 = c.choice([0.7, 1.1, 1.6])
            if kind == "canary":
                history.append(["canary"])
                err = check_canary(step)
                if err:
                    return err
                if saw_deep_caught:
                    canary_after = True
                continue
            if kind == "ok_call":
                modes = "".join(c.choice("rf") for _ in range(c.int(1, 3)))
                history.append(["ok_call", modes, x0])
                # x * d/dy [x*y*y] at y=x ... nested to the drawn depth: f_k(x) = x * D(y -> f_{k-1}(y) * x ... ) closed form below
                val = nested_poly(modes, x0)
                want = nested_poly_ref(len(modes), x0)
                if abs(val - want) > 1e-10 * max(1.0, abs(want)):
                    return fail("wrong_value", f"step {step}: nested derivative {val!r} expected {want!r}", bucket("ok_call_value"), sample=sample)
                continue
            if kind == "reentrant":
                history.append(["reentrant", x0])
                g = autograd.grad(lambda t: P["reentrant"](t) * t)(x0)
                want = onp.cos(x0) * x0 + onp.sin(x0)
                rec = recursive_grad(3, x0)
                if abs(float(g) - want) > 1e-12 or abs(rec - 24.0 * x0) > 1e-9:
                    return fail("wrong_value", f"step {step}: re-entrant / recursive use gives {float(g)!r}, {rec!r}", bucket("reentrant_value"), sample=sample)
                continue
            if kind == "closure_reuse":
                # one VJP function of a drawn primitive configuration called several times: every call is a pure function of its
                # cotangent (no state kept in the closure between calls)
                from ..derivcheck import primal
                from ..templates import TEMPLATES
                from ..templates.core import instantiate, namespaces
                from .. import values as _values

                names = sorted(TEMPLATES)
                tname = names[c.int(0, len(names) - 1)]
                inst = instantiate(c, TEMPLATES[tname].draw(c))
                history.append(["closure_reuse", tname, inst.call.desc])
                st, y0 = primal(inst)
                if st != "ok":
                    continue
                NP, AG = namespaces()
                y0a = onp.asarray(y0)
                mk = (lambda s_: _values.cdirection(inst.vseed, y0a.shape, s_)) if y0a.dtype.kind == "c" else (lambda s_: _values.direction(inst.vseed, y0a.shape, s_))
                g1, g2 = onp.array(mk(71)), onp.array(mk(72))
                try:
                    vjp, y = autograd.make_vjp(inst.f(AG))(inst.x_carried())
                    g1_0, g2_0 = g1.copy(), g2.copy()
                    r1 = onp.array(vjp(g1))
                    r1a = onp.array(vjp(g1))  # at once again (a rule that flips state on every call is right every other time)
                    r2 = onp.array(vjp(g2))
                    r1b = onp.array(vjp(g1))
                    r2f = onp.array(autograd.make_vjp(inst.f(AG))(inst.x_carried())[0](g2_0))  # a fresh function, a fresh copy of the cotangent (equal up to rounding: LAPACK results depend on buffer alignment)
                except Exception as e:
                    if not from_autograd(e):
                        raise
                    continue  # raising is C01's / C15's business
                if not (onp.array_equal(g1, g1_0, equal_nan=True) and onp.array_equal(g2, g2_0, equal_nan=True)):
                    return fail("history_dependence", f"step {step}: VJP function of {tname} {inst.call.desc} changed the cotangent array the caller passed in",
                                bucket("closure_reuse_cotangent"), sample=sample)
                if r1.shape != r1a.shape or not onp.array_equal(r1, r1a, equal_nan=True) or r2.shape != r2f.shape or not onp.allclose(r2, r2f, rtol=1e-5, atol=1e-5 * (1.0 + float(onp.max(onp.abs(r2f), initial=0.0)) if onp.all(onp.isfinite(r2f)) else 1.0), equal_nan=True):
                    return fail("history_dependence", f"step {step}: VJP function of {tname} {inst.call.desc} gives a different answer on its second call with the same "
                                "cotangent, or on a later call than a fresh function gives", bucket("closure_reuse"), sample=sample)
                if r1.shape != r1b.shape or not onp.array_equal(r1, r1b, equal_nan=True):
                    return fail("history_dependence", f"step {step}: VJP function of {tname} {inst.call.desc} gives a different answer when called again with "
                                "the same cotangent", bucket("closure_reuse"), sample=sample)
                continue
            if kind == "lazy_operator":
                # ONE operator object serves several calls that differ in their non-differentiated arguments (one of them fails when it
                # is evaluated); the functions it returned are evaluated afterwards, in a drawn order: each is a function of ITS call only
                history.append(["lazy_operator", x0])
                fk = lambda t, k, s=1.0: anp.sin(t * k) * s if k > 0 else P["fwd_boom_always"](t)
                order = c.perm(3)
                for which in ("jvp", "vjp"):
                    op = autograd.make_jvp(fk) if which == "jvp" else autograd.make_vjp(fk)
                    calls = [(x0, 2.0, {}), (x0 + 0.3, 0.5, {"s": 3.0}), (x0 - 0.2, 1.5, {"s": -1.0})]
                    handles = []
                    for (t_, k_, kw_) in calls:
                        handles.append(op(t_, k_, **kw_))
                        try:
                            bad = op(t_, -1.0)  # a call of the same operator that fails (at once for make_vjp, when evaluated for make_jvp)
                            if which == "jvp":
                                bad(1.0)
                        except Fault:
                            pass
                    for i in order:
                        t_, k_, kw_ = calls[i]
                        s_ = kw_.get("s", 1.0)
                        want_v, want_d = onp.sin(t_ * k_) * s_, k_ * onp.cos(t_ * k_) * s_
                        if which == "jvp":
                            val, tan = handles[i](1.0)
                        else:
                            vjp_, val = handles[i]
                            tan = vjp_(1.0)
                        if abs(float(val) - want_v) > 1e-12 or abs(float(tan) - want_d) > 1e-12:
                            return fail("history_dependence", f"step {step}: call {i} of one make_{which} operator object, evaluated after later calls of the same "
                                        f"object, gives ({float(val)!r}, {float(tan)!r}); its own arguments give ({want_v!r}, {want_d!r})",
                                        bucket("lazy_operator"), sample=sample)
                saw_deep_caught = True
                continue
            if kind == "array_builders":
                # arrays assembled from traced entries (np.r_, np.c_, np.array of a list) with entries of a drawn kind - float64, complex128,
                # float32: the result is a function of THIS call's entries, whatever kinds earlier calls in the process assembled
                ek = c.choice(["float64", "complex128", "float32"])
                bld = c.choice(["r_", "c_", "array_list", "array_nested"])
                mode = c.choice("rf")
                history.append(["array_builders", ek, bld, mode, x0])
                ka, kb, kc = {"float64": (2.0, 1.0, 1.5), "complex128": (1.0 + 2.0j, 1.0j, 0.5j), "float32": (onp.float32(2.0), onp.float32(1.0), onp.float32(1.5))}[ek]
                w = onp.array([1.0 - 1.0j, 2.0j, 1.0]) if ek == "complex128" else onp.array([1.0, -2.0, 0.5])

                def fb(t, ns=anp):
                    e = [t * ka, t * t * kb, t * 0.0 + kc]
                    arr = {"r_": lambda: ns.r_[e[0], e[1], e[2]], "c_": lambda: ns.c_[e[0], e[1], e[2]], "array_list": lambda: ns.array(e),
                           "array_nested": lambda: ns.array([[e[0], e[1], e[2]]])}[bld]()
                    return ns.real(ns.sum(arr * w))

                want_v = float(onp.real(ka * x0 * w[0] + kb * x0 * x0 * w[1] + kc * w[2]))
                want_d = float(onp.real(ka * w[0] + 2.0 * kb * x0 * w[1]))
                with warnings.catch_warnings():
                    warnings.simplefilter("ignore")
                    if mode == "r":
                        got_v, got_d = autograd.value_and_grad(fb)(x0)
                    else:
                        got_v, got_d = autograd.make_jvp(fb)(x0)(1.0)
                tol = 1e-5 if ek == "float32" else 1e-12
                if abs(float(got_v) - want_v) > tol * max(1.0, abs(want_v)) or abs(float(onp.real(got_d)) - want_d) > tol * max(1.0, abs(want_d)):
                    return fail("history_dependence", f"step {step}: np.{bld} of {ek} entries (mode {mode}) gives value {float(got_v)!r}, derivative {got_d!r}; "
                                f"its entries give {want_v!r}, {want_d!r}", bucket("array_builders"), sample=sample)
                saw_deep_caught = True
                continue
            if kind == "cotangent_reuse":
                # the caller keeps ONE cotangent array and hands it to several VJP functions (and to the same one again): functions whose last
                # operation passes the cotangent through unchanged, over a value that is consumed twice by the operation below
                history.append(["cotangent_reuse", x0])
                xs = onp.array([x0, 0.5, -0.3])
                top = c.choice(["plus_const", "real", "reshape", "minus_const", "none"])
                low = c.choice(["x_plus_x", "x_minus_x2", "x_plus_sin", "x_times_x"])

                def fr(t):
                    u = {"x_plus_x": lambda: t + t, "x_minus_x2": lambda: t - 2.0 * t, "x_plus_sin": lambda: t + anp.sin(t), "x_times_x": lambda: t * t}[low]()
                    return {"plus_const": lambda: u + 1.5, "real": lambda: anp.real(u), "reshape": lambda: anp.reshape(u, (3,)),
                            "minus_const": lambda: u - 0.25, "none": lambda: u}[top]()

                jac = {"x_plus_x": 2.0 * onp.ones(3), "x_minus_x2": -1.0 * onp.ones(3), "x_plus_sin": 1.0 + onp.cos(xs), "x_times_x": 2.0 * xs}[low]
                g = onp.array([1.0, -2.0, 0.5])
                g_before = g.copy()
                vjp1 = autograd.make_vjp(fr)(xs)[0]
                vjp2 = autograd.make_vjp(lambda t: fr(t) * 1.0 + 0.0)(xs)[0]
                outs = [vjp1(g), vjp1(g), vjp2(g), vjp1(g)]
                if not onp.array_equal(g, g_before):
                    return fail("history_dependence", f"step {step}: the caller's cotangent array was changed by a VJP call ({top} over {low}): {g.tolist()} was {g_before.tolist()}",
                                bucket("cotangent_changed"), sample=sample)
                for k_, o_ in enumerate(outs):
                    if not onp.allclose(onp.asarray(o_), g_before * jac, rtol=1e-13, atol=1e-13):
                        return fail("history_dependence", f"step {step}: call {k_} with the same cotangent ({top} over {low}) gives {onp.asarray(o_).tolist()}, expected {(g_before * jac).tolist()}",
                                    bucket("cotangent_reuse"), sample=sample)
                saw_deep_caught = True
                continue
            if kind == "recorded_graph":
                # autograd.misc.const_graph: the call that records the graph fails (once or twice); later calls of the same wrapper, plain
                # and under grad, give what the function gives
                from autograd.misc.tracers import const_graph

                history.append(["recorded_graph", x0])
                xs = onp.array([x0, 0.5, -0.3])
                fails = [c.int(1, 2)]

                def model(t, k):
                    if fails[0] > 0:
                        fails[0] -= 1
                        return P["fwd_boom_always"](t)
                    return anp.sum(anp.sin(t * k) * t)

                cg = const_graph(model)
                for _ in range(2):
                    try:
                        cg(xs, 2.0)
                    except Fault:
                        pass
                want_v = float(onp.sum(onp.sin(xs * 2.0) * xs))
                want_g = 2.0 * onp.cos(2.0 * xs) * xs + onp.sin(2.0 * xs)
                got_v = cg(xs, 2.0)
                got_g = autograd.grad(lambda t: cg(t, 2.0))(xs)
                got_v2 = cg(xs * 0.5, 2.0)
                if abs(float(got_v) - want_v) > 1e-12 or not onp.allclose(got_g, want_g, rtol=1e-12, atol=1e-12) or abs(float(got_v2) - float(onp.sum(onp.sin(xs) * xs * 0.5))) > 1e-12:
                    return fail("history_dependence", f"step {step}: a const_graph wrapper whose first call(s) failed gives {float(got_v)!r}, {onp.asarray(got_g).tolist()} "
                                f"instead of {want_v!r}, {want_g.tolist()}", bucket("recorded_graph"), sample=sample)
                saw_deep_caught = True
                continue
            if kind == "mutate_result":
                # the caller owns what a differentiation returns: it updates the results in place (an optimiser step, masking, ...);
                # nothing computed later may notice (shapes and dtypes are those the canary table uses)
                history.append(["mutate_result", x0])
                x3 = onp.array([x0, -1.2, 0.7])
                A2 = onp.array([[0.5, -1.0, 2.0], [1.5, 0.25, -0.75]]) * x0
                outs = [autograd.elementwise_grad(lambda t: t + 1.0)(x3), autograd.elementwise_grad(lambda t: anp.reshape(t, (3, 2)).T)(A2),
                        autograd.grad(lambda t: anp.sum(t))(x3), autograd.jacobian(lambda t: t - 2.0)(x3),
                        autograd.make_jvp(lambda t: t * 1.0)(x3)(onp.ones(3))[1], autograd.grad(lambda t: t * 1.0)(x0),
                        autograd.make_vjp(lambda t: anp.dot(A2, t))(x3)[0](onp.ones(2)), autograd.hessian(lambda t: anp.sum(t * t))(x3),
                        autograd.grad(lambda d: anp.sum(d["a"]) + d["b"][0])({"a": x3, "b": (x0, 1.0)})["a"]]
                for o in outs:
                    if isinstance(o, onp.ndarray) and o.flags.writeable and o.size:
                        o *= -0.1
                        o[...] = o - 3.0
                continue
            if kind == "closure_fault_ckpt":
                # a VJP function whose backward pass re-evaluates a checkpointed two-argument block; the block fails transiently during the
                # k-th re-evaluation (i.e. while the rule of the k-th differentiated argument is being built); then the same function again
                history.append(["closure_fault_ckpt", x0])
                xs = onp.array([x0, 0.5, -0.3])

                def inner(a, b):
                    return P["fwd_boom"](a * b) + a

                ck = autograd.checkpoint(inner)

                def f(t):
                    a = anp.sin(t)
                    b = anp.exp(0.3 * t)
                    return anp.sum(ck(a, b) * a + b)

                state["boom_at"] = None
                vjp, y = autograd.make_vjp(f)(xs)
                fresh = onp.asarray(autograd.grad(f)(xs))
                for k_ in (c.int(1, 2), c.int(1, 2)):
                    state["count"], state["boom_at"] = 0, k_
                    try:
                        vjp(1.0)  # (if the block is not re-evaluated during the backward pass, nothing fails here)
                    except Fault:
                        pass
                    finally:
                        state["boom_at"] = None
                again = onp.asarray(vjp(1.0))
                if again.shape != fresh.shape or not onp.array_equal(again, fresh):
                    return fail("history_dependence", f"step {step}: a VJP function called after failed calls of itself (checkpointed block failing while its rules were "
                                f"being built) gives {again.tolist()}, a fresh one gives {fresh.tolist()}", bucket("closure_after_fault_ckpt"), sample=sample)
                saw_deep_caught = True
                continue
            if kind == "closure_fault":
                history.append(["closure_fault", x0])
                xs = onp.array([x0, 0.5, -0.3])

                def f(t):
                    a = anp.sin(t)
                    b = P["bwd_boom"](a * 2.0)  # its rule may raise during the backward pass
                    return anp.sum(a * t + b * a + anp.exp(0.3 * t))  # fan-out: a feeds three consumers

                vjp, y = autograd.make_vjp(f)(xs)
                fresh = onp.asarray(autograd.grad(f)(xs))
                for attempt in range(c.int(1, 2)):
                    state["bwd_fail"] = True
                    state["bwd_count"], state["bwd_at"] = 0, 1
                    try:
                        vjp(1.0)
                        state["bwd_fail"] = False
                        return fail("swallowed_exception", "an exception raised by a derivative rule did not propagate", bucket("swallowed"), sample=sample)
                    except Fault:
                        pass
                    finally:
                        state["bwd_fail"] = False
                again = onp.asarray(vjp(1.0))
                if not onp.array_equal(again, fresh):
                    return fail("history_dependence", f"step {step}: a VJP function called after a failed call of itself gives {again.tolist()}, "
                                f"a fresh one gives {fresh.tolist()}", bucket("closure_after_fault"), sample=sample)
                saw_deep_caught = True
                continue
            # ---- failing_call ------------------------------------------------------------------------------------------------
            depth = c.int(1, 3)
            modes = "".join(c.choice("rf") for _ in range(depth + 1))
            fault = c.choice(["forward_prim", "forward_raise", "backward_rule", "trace_exit", "stored_jvp"])
            catch = c.int(0, depth)  # 0 = not caught inside any differentiated function (the harness catches it)
            k = c.int(1, 3)
            history.append(["failing_call", modes, fault, catch, k, x0])
            state["count"] = 0
            state["boom_at"] = k if fault in ("forward_prim", "stored_jvp") else None
            state["bwd_fail"] = fault == "backward_rule"
            state["bwd_count"], state["bwd_at"] = 0, k
            try:
                with warnings.catch_warnings():
                    if fault == "trace_exit":
                        warnings.simplefilter("error")
                    else:
                        warnings.simplefilter("ignore")
                    try:
                        val = failing_nested(modes, fault, catch, x0, P)
                        escaped = False
                    except (Fault, UserWarning):
                        escaped = True
            finally:
                state["boom_at"] = None
                state["bwd_fail"] = False
            if catch == 0:
                if not escaped:
                    return fail("swallowed_exception", f"step {step}: the injected fault ({fault}) did not propagate to the caller", bucket("swallowed"), sample=sample)
            else:
                if escaped:
                    return fail("unexpected_exception", f"step {step}: fault caught at level {catch} still escaped", bucket("escaped"), sample=sample)
                want = enclosing_ref(catch, x0)
                if abs(val - want) > 1e-10 * max(1.0, abs(want)):
                    return fail("wrong_value", f"step {step}: enclosing differentiation that caught a failure at depth {depth} (level {catch}, fault {fault}, "
                                f"modes {modes}) returned {val!r}, expected {want!r}", bucket("enclosing_value"), sample=sample)
                if depth >= 2:
                    saw_deep_caught = True
            # invariants after the failing call
            if not registries_preserved(reg0, registries()):
                return fail("registry_changed", f"step {step}: a registry changed during a failed call", bucket("registry"), sample=sample)
            err = check_canary(step)
            if err:
                return err
            if saw_deep_caught:
                canary_after = True
        err = check_canary("end")
        if err:
            return err
    except Exception as e:
        if not from_autograd(e):
            raise
        return fail("unexpected_exception", describe_exc(e), bucket("exception"), sample=sample)
    finally:
        warnings.filters[:] = filters0
        onp.random.set_state(rnd0)
        state["boom_at"] = None
        state["bwd_fail"] = False
    c.features.update(n_steps=n_steps, step_kinds=sorted({h[0] for h in history}))
    labels = sorted({"step=" + h[0] for h in history}) + sorted({"fault=" + h[2] for h in history if h[0] == "failing_call"})
    return ok(nontrivial=saw_deep_caught and canary_after, key=json.dumps(history), labels=labels, sample=sample)


# ---- nested computations with closed forms -------------------------------------------------------------------------------------
def nested_poly(modes, x0):
    """h_1(x) = d/dy [x*y*y](y=x) * x = 2x^3 ; h_k(x) = x * d/dy [h_{k-1}(y) * x](y=x)."""
    def h(level, x):
        if level == 0:
            return x * x
        return x * D(modes[level - 1], lambda y: h(level - 1, y) * x)(x)

    return float(D(modes[-1], lambda x: h(len(modes) - 1, x))(x0))


def nested_poly_ref(depth, x0):
    # h_0 = x^2; h_k = x * (d/dy h_{k-1}(y))(x) * x  -> polynomial c_k x^{p_k}
    coef, power = 1.0, 2
    for _ in range(depth - 1):
        coef, power = coef * power, power + 1  # x * (coef*power*x^{power-1}) * x
    return coef * power * x0 ** (power - 1)


def recursive_grad(n, x0):
    import autograd

    def f(k, x):
        if k == 0:
            return x ** 4
        return autograd.grad(lambda y: f(k - 1, y))(x)

    return float(f(n, x0))  # third derivative of x^4 = 24x


def failing_nested(modes, fault, catch, x0, P):
    """Levels 1..depth each differentiate the next level (level `depth` differentiates the faulty leaf), modes[i] is the mode
    of the differentiation made by level i (modes[0]: the outermost call).  The fault therefore occurs inside the differentiation
    call made by level `depth` and propagates outwards; level `catch` (1 = outermost function, 0 = nobody) catches it around its
    own differentiation call and continues with further nested differentiations."""
    import autograd
    import autograd.numpy as anp

    depth = len(modes) - 1
    push = None
    if fault == "stored_jvp":
        # a forward-mode operator object built here, outside every differentiation, and called (and failing) at the innermost level
        def chain(w):
            for _ in range(3):
                w = P["fwd_boom"](w) * 1.0
            return w

        push = autograd.make_jvp(chain)(x0)

    def faulty_leaf(x):
        if fault == "stored_jvp":
            return push(x * 1.0)[1]
        if fault == "forward_prim":
            y = x
            for _ in range(3):
                y = P["fwd_boom"](y) * 1.0
            return y
        if fault == "forward_raise":
            z = anp.sin(x)
            raise Fault("plain raise")
        if fault == "backward_rule":
            y = x
            for _ in range(3):
                y = P["bwd_boom"](y) * x + y
            return y
        return 3.0  # trace_exit: output independent of input -> warning (promoted to an error by the harness)

    def level(i, x):
        def inner_call():
            nxt = (lambda y: level(i + 1, y) * x) if i < depth else (lambda y: faulty_leaf(y) * x)
            return D(modes[i], nxt)(x)

        if i == catch:
            try:
                bad = inner_call() * 0.0
            except (Fault, UserWarning):
                bad = 0.0
            with warnings.catch_warnings():
                warnings.simplefilter("ignore")
                good = autograd.grad(lambda y: x * y * y)(x) + autograd.make_jvp(lambda y: anp.sin(y) * x)(x)(1.0)[1]
            return bad + good * x
        return inner_call()

    return float(D(modes[0], lambda x: level(1, x))(x0))


def enclosing_ref(catch, x0):
    """Closed-form value of the whole nested computation when level `catch` caught the failure and continued: at level `catch`
    r(x) = (2x^2 + x cos x) x; each enclosing level maps r -> x r'(x); the outermost operator differentiates once more."""
    return _enclosing_numeric(catch, x0)


def _enclosing_numeric(catch, x0):
    """Closed form via exact polynomial/trig bookkeeping: functions are sums of terms c * x^p * trig(x), trig in {1, cos, sin}."""
    import math

    # term: (c, p, t) with t in {0:1, 1:cos, 2:sin}
    def deriv(terms):
        out = []
        for c_, p, t in terms:
            if p != 0:
                out.append((c_ * p, p - 1, t))
            if t == 1:
                out.append((-c_, p, 2))
            elif t == 2:
                out.append((c_, p, 1))
        return out

    def mulx(terms):
        return [(c_, p + 1, t) for c_, p, t in terms]

    terms = [(2.0, 3, 0), (1.0, 2, 1)]  # r at level `catch`
    for _ in range(catch - 1):  # each enclosing level: x * d/dy [r(y)] (the extra factor x multiplies, it is the closed-over outer variable)
        terms = mulx(deriv(terms))
    terms = deriv(terms)  # the outermost derivative operator
    val = 0.0
    for c_, p, t in terms:
        val += c_ * x0 ** p * (1.0 if t == 0 else math.cos(x0) if t == 1 else math.sin(x0))
    return val


def _mx(a):
    a = onp.asarray(a)
    return float(onp.max(onp.abs(a), initial=0.0)) if a.size and onp.all(onp.isfinite(a)) else 1.0


def reuse_body(tname, c):
    """One derivative-function object of a drawn primitive configuration used several times: every call of the VJP function is a pure
    function of its cotangent (first / other / first again), and so is every call of the JVP function of its tangent."""
    import autograd

    from ..derivcheck import primal
    from ..templates import TEMPLATES
    from ..templates.core import instantiate, namespaces
    from .. import values as _values
    from ..case import raised as _raised

    inst = instantiate(c, TEMPLATES[tname].draw(c))
    sample = inst.describe()
    st, y0 = primal(inst)
    if st != "ok":
        return Outcome("numpy_rejects", detail=str(y0)[:100], sample=sample)
    NP, AG = namespaces()
    y0a = onp.asarray(y0)
    xa = onp.asarray(inst.x)
    mk = (lambda sh, s_: _values.cdirection(inst.vseed, sh, s_)) if y0a.dtype.kind == "c" else (lambda sh, s_: _values.direction(inst.vseed, sh, s_))
    g1, g2 = onp.array(mk(y0a.shape, 71)), onp.array(mk(y0a.shape, 72))
    results = {}
    try:
        vjp, y = autograd.make_vjp(inst.f(AG))(inst.x_carried())
        g1_0, g2_0 = g1.copy(), g2.copy()
        # first / first again at once / other / first again (copies: a result must not change when the function is called again)
        results["vjp"] = [onp.array(vjp(g1)), onp.array(vjp(g2)), onp.array(vjp(g1))]
        results["vjp"].insert(1, None)
        vjp_b = autograd.make_vjp(inst.f(AG))(inst.x_carried())[0]
        first, again = onp.array(vjp_b(g1)), onp.array(vjp_b(g1))
        results["vjp"][1] = again if (first.shape == results["vjp"][0].shape and onp.allclose(first, results["vjp"][0], rtol=1e-5, atol=1e-5 * (1.0 + _mx(first)), equal_nan=True)) else first
        results["vjp_fresh"] = (onp.array(vjp_b(g2)), results["vjp"][2])
        results["vjp_args"] = (onp.array_equal(g1, g1_0, equal_nan=True) and onp.array_equal(g2, g2_0, equal_nan=True))
    except Exception as e:
        if not from_autograd(e):
            raise
        results["vjp"] = e
    try:
        mkv = (lambda s_: _values.cdirection(inst.vseed, xa.shape, s_)) if xa.dtype.kind == "c" else (lambda s_: _values.direction(inst.vseed, xa.shape, s_))
        v1, v2 = onp.array(mkv(73)), onp.array(mkv(74))
        if xa.ndim == 0 and not isinstance(inst.x_carried(), onp.ndarray):
            v1, v2 = (complex(v1), complex(v2)) if xa.dtype.kind == "c" else (float(v1), float(v2))
        jvp = autograd.make_jvp(inst.f(AG))(inst.x_carried())
        results["jvp"] = [onp.array(jvp(v1)[1]), onp.array(jvp(v1)[1]), onp.array(jvp(v2)[1]), onp.array(jvp(v1)[1])]
    except Exception as e:
        if not from_autograd(e):
            raise
        results["jvp"] = e
    if all(isinstance(results[k_], Exception) for k_ in ("vjp", "jvp")):
        return _raised(results["vjp"], "reuse", sample=sample)
    if results.get("vjp_args") is False:
        return fail("history_dependence", f"the VJP function of {tname} {inst.call.desc} changed the cotangent array the caller passed in", f"C19|reuse|vjp_cotangent|{tname}", sample=sample)
    if "vjp_fresh" in results:
        a_, b_ = results["vjp_fresh"]
        if a_.shape != b_.shape or not onp.allclose(a_, b_, rtol=1e-5, atol=1e-5 * (1.0 + _mx(b_)), equal_nan=True):
            return fail("history_dependence", f"the VJP function of {tname} {inst.call.desc}: its third call gives another answer than the third call of a second function "
                        "object built the same way (whose first two calls had the same cotangent)", f"C19|reuse|vjp_sequence|{tname}", sample=sample)
    for api in ("vjp", "jvp"):
        r = results[api]
        if isinstance(r, Exception):
            continue
        if r[0].shape != r[1].shape or not onp.allclose(r[0], r[1], rtol=1e-5, atol=1e-5 * (1.0 + _mx(r[0])), equal_nan=True):
            return fail("history_dependence", f"the {api.upper()} function of {tname} {inst.call.desc} gives a different answer on its second call with the same argument",
                        f"C19|reuse|{api}_second_call|{tname}", sample=sample)
        r = [r[0], r[2], r[3]]
        if r[0].shape != r[2].shape or not onp.array_equal(r[0], r[2], equal_nan=True):
            return fail("history_dependence", f"the {api.upper()} function of {tname} {inst.call.desc} gives a different answer when called again with the same "
                        "argument after an intermediate call", f"C19|reuse|{api}|{tname}", sample=sample)
    return ok(nontrivial=True, key=json.dumps([tname, inst.call.desc], default=repr), labels=["reuse", "family=" + TEMPLATES[tname].family], sample=sample)


from functools import partial  # noqa: E402

def _tests():
    from ..templates import TEMPLATES

    out = [Test("histories", partial(body, 12), quick=1000, thorough=0, shard_size=64),
           Test("histories_long", partial(body, 30), quick=0, thorough=3000, shard_size=100)]
    # one test per call template (a drawn template index is far from uniform under Hypothesis)
    out += [Test("operator_reuse:" + name, partial(reuse_body, name), quick=80 * t.weight, thorough=500 * t.weight, shard_size=300)
            for name, t in sorted(TEMPLATES.items())]
    return out


PROP = Prop("C19", _tests(), RULE, level="fault_enumeration", assumptions=[
    "the canary table of a fresh subprocess (same tree, PYTHONHASHSEED=0) is the reference for 'as in a fresh interpreter'",
    "faults are injected through user code only (user primitives, plain raise, warnings filter); the internal depth counter is not asserted on",
], selftest=selftest)
PROP.reach_functions = ['autograd.tracer:trace', 'autograd.core:backward_pass']
