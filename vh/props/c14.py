"""C14 — independent or piecewise-constant dependence yields an exact zero derivative."""
import json
import warnings

import numpy as onp

from .. import values
from ..case import Outcome, describe_exc, fail, from_autograd, ok, raised
from ..engine import Prop, Test
from .c06 import has_box, same

RULE = (
    "(a) constant programs: functions whose float output (python float, numpy scalar, array, autograd tuple/list/dict of these) "
    "ignores the argument, uses it only through shape/ndim/size/len/dtype/isinstance/type, only through comparisons steering "
    "control flow, or only through members of the non-differentiable set; argument types scalar (3 carriers), array (rank 0-3), "
    "nested container; operators grad, value_and_grad, elementwise_grad, jacobian, hessian, make_vjp, make_jvp, deriv, "
    "grad_and_aux, make_hvp, holomorphic_grad-free. Oracle: the result is exactly vspace(arg).zeros() (forward: zeros of the output's "
    "space; jacobian/hessian: zeros of shape out+in(+in)), never None / NaN / an exception. (b) every entry of autograd's "
    "non-differentiable list (enumerated at run time; uncovered entries are reported) called through its public name at generic "
    "points with the traced array in each positional slot: returns a non-tracer equal to raw NumPy's value and type; NumPy "
    "itself confirms local constancy (f(x +- delta) == f(x)); the composition law grad(sum(x * w(n(x)))) == w(n(x)) holds exactly "
    "in both modes. Non-trivial = container argument, forward mode, or a non-differentiable member other than a comparison; "
    "distinct by (program kind, output kind, argument kind, operator) / (function, slot, shape)."
    " discrete_namespace: every exported function whose NumPy result on float input is boolean or integer valued returns a plain value equal to NumPy's under both modes; constant entries selected from containers with dependent neighbours; nan_to_num as a mask."
    " aliased_containers: the same nested container, or the same ndarray, at two positions of an argument (or as two positional arguments); one position differentiable, the other read through floor / comparisons."
)


# ---- (a) constant programs ------------------------------------------------------------------------------------------------
ARG_KINDS = ["pyfloat", "npfloat", "array0d", "vector", "matrix", "rank3", "tuple", "dict", "nested"]
OUT_KINDS = ["pyfloat", "npfloat", "array", "array2", "ab_tuple", "ab_dict", "dict_entry", "seq_entry"]
DEP_KINDS = ["ignore", "shape", "len_type", "compare_branch", "nograd_floor", "nograd_sign_argmax", "loop_count", "getval_free_const",
             "where_cond", "cast_astype_int", "cast_array_int", "cast_full_int", "cast_astype_bool"]
OPERATORS = ["grad", "value_and_grad", "elementwise_grad", "jacobian", "hessian", "make_vjp", "make_jvp", "deriv", "grad_and_aux", "make_hvp",
             "tensor_jacobian_product", "make_jvp_reversemode"]


def make_arg(kind, vseed):
    (a, b), _ = values.generic(vseed, [(3,), (2, 3)], -1.7, 1.7, avoid=(0.0, 1.0, -1.0), margin=0.05)
    if kind == "pyfloat":
        return float(a[0])
    if kind == "npfloat":
        return onp.float64(a[0])
    if kind == "array0d":
        return onp.array(a[0])
    if kind == "vector":
        return a
    if kind == "matrix":
        return b
    if kind == "rank3":
        return onp.stack([b, b + 0.1])
    if kind == "tuple":
        return (a, float(b[0, 0]))
    if kind == "dict":
        return {"w": b, "s": float(a[1])}
    return [a, (b, {"k": float(a[2])})]


def first_leaf(v):
    import autograd.builtins as ab

    while ab.isinstance(v, (tuple, list, dict)):
        v = v[sorted(v)[0]] if ab.isinstance(v, dict) else v[0]
    return v


def make_const_fn(dep, outk):
    """f(x, ns, ab) -> float output independent of x through differentiable operations."""
    K = onp.array([[0.5, -1.25, 2.0], [0.75, 1.5, -0.5]])

    def out(scale, ns, ab, leaf=None):
        if outk == "dict_entry":
            # the constant entry of a container whose OTHER entries depend on the argument (keys not in sorted order): selecting it
            # must leave nothing of the neighbours' derivatives behind
            d = ab.dict({"w": ns.sin(leaf) * 2.0, "b": K * scale, "z": ns.sum(ns.cos(leaf)), "a": 0.5 * scale})
            return ab.tuple((d["b"], d["a"]))
        if outk == "seq_entry":
            t = ab.list([ns.sin(leaf) * 2.0, K[0] * scale, ns.sum(ns.cos(leaf))])
            return t[1] if scale > 0 else t[-2]
        if outk == "pyfloat":
            return 1.5 * scale
        if outk == "npfloat":
            return onp.float64(1.5) * scale
        if outk == "array":
            return K[0] * scale
        if outk == "array2":
            return K * scale
        if outk == "ab_tuple":
            return ab.tuple((K[0] * scale, 2.0 * scale))
        return ab.dict({"a": K * scale, "b": 0.5 * scale})

    def f(x, ns, ab, mult=1.0):
        leaf = first_leaf(x)
        if dep == "where_cond":
            # the argument is used only as the (non-differentiable) condition of where, broadcast against a larger result
            return ns.where(leaf, K * mult, -K * mult)
        if dep == "ignore":
            s = 1.0
        elif dep == "shape":
            s = float(ns.ndim(leaf) + ns.size(leaf) + len(ns.shape(leaf)) + 1)
        elif dep == "len_type":
            n = len(x) if ab.isinstance(x, (tuple, list, dict)) or ns.ndim(x) > 0 else 1
            s = float(n) + (2.0 if ab.isinstance(leaf, float) else 3.0) + (1.0 if ab.type(x) in (tuple, list, dict) else 0.0)
        elif dep == "compare_branch":
            s = 2.0 if ns.sum(leaf) > 0.3 else 3.0
            if ns.all(leaf < 5.0):
                s += 1.0
        elif dep == "nograd_floor":
            s = float(ns.sum(ns.floor(leaf) + ns.ceil(leaf) + ns.round(leaf))) + 0.5
        elif dep == "nograd_sign_argmax":
            s = float(ns.sum(ns.sign(leaf))) + float(ns.argmax(leaf)) + float(ns.count_nonzero(leaf > 0.2)) + 0.25
        elif dep.startswith("cast_"):
            # a conversion to an integer / boolean type is piecewise constant: the value stays inside the traced computation (no float()),
            # so the derivative has to be an exact zero by the conversion's own rule
            t = ns.array(leaf * 3.0)
            if dep == "cast_astype_int":
                q = t.astype(int)
            elif dep == "cast_array_int":
                q = ns.array(t, dtype=int)
            elif dep == "cast_full_int":
                q = ns.full((2,), ns.sum(t), dtype=int)
            else:
                q = t.astype(bool)
            s = ns.sum(q * 1.0) * 0.5 + 0.25
        elif dep == "loop_count":
            s = 0.0
            for _ in range(int(ns.floor(ns.abs(ns.sum(leaf)))) % 3 + 1):
                s += 1.5
        else:
            s = float(onp.float64(2.0)) * 1.0
        return out(s * mult, ns, ab, leaf)

    return f


def zeros_like_tree(v):
    if isinstance(v, tuple):
        return tuple(zeros_like_tree(e) for e in v)
    if isinstance(v, list):
        return [zeros_like_tree(e) for e in v]
    if isinstance(v, dict):
        return {k: zeros_like_tree(e) for k, e in v.items()}
    return onp.zeros(onp.shape(v))


def leaves_of(v):
    if isinstance(v, (tuple, list)):
        return [l for e in v for l in leaves_of(e)]
    if isinstance(v, dict):
        return [l for e in v.values() for l in leaves_of(e)]
    return [v]


def is_exact_zero_of(got, like):
    """got has exactly the structure of `like` and all entries are exactly 0.0 (no NaN)."""
    if isinstance(like, dict):
        return isinstance(got, dict) and sorted(got) == sorted(like) and all(is_exact_zero_of(got[k], like[k]) for k in like)
    if isinstance(like, (tuple, list)):
        return type(got) is type(like) and len(got) == len(like) and all(is_exact_zero_of(g, l) for g, l in zip(got, like))
    if got is None or isinstance(got, (tuple, list, dict)):
        return False
    ga = onp.asarray(got)
    return ga.dtype.kind == "f" and ga.shape == onp.shape(like) and bool(onp.all(ga == 0.0))


def const_body(c):
    import autograd
    import autograd.builtins as ab
    import autograd.numpy as anp

    argk = ARG_KINDS[c.int(0, len(ARG_KINDS) - 1)]
    outk = OUT_KINDS[c.int(0, len(OUT_KINDS) - 1)]
    dep = DEP_KINDS[c.int(0, len(DEP_KINDS) - 1)]
    op = OPERATORS[c.int(0, len(OPERATORS) - 1)]
    vseed = c.seed()
    x = make_arg(argk, vseed)
    container_arg = argk in ("tuple", "dict", "nested")
    scalar_out = outk in ("pyfloat", "npfloat")
    array_out = outk in ("array", "array2")
    # operator applicability (documented contracts)
    if op in ("grad", "value_and_grad", "hessian", "make_hvp", "grad_and_aux") and not scalar_out:
        op = "make_vjp"
    if op in ("jacobian", "hessian", "tensor_jacobian_product") and (container_arg or not (scalar_out or array_out)):
        op = "make_vjp"
    if op in ("deriv",) and container_arg:
        op = "make_jvp"
    if op == "elementwise_grad" and not (scalar_out or array_out):
        op = "make_vjp"
    if dep == "where_cond":
        outk = "array2"
        scalar_out, array_out = False, True
        if op in ("grad", "value_and_grad", "hessian", "make_hvp", "grad_and_aux"):
            op = "make_vjp"
    nested = c.choice(["no", "no", "rev", "fwd"])  # evaluate inside an outer differentiation whose variable scales the output
    # ... optionally after another inner differentiation (reverse or forward mode) failed part-way and was caught there
    prior = c.choice(["none", "none", "failed_rev", "failed_fwd"]) if nested != "no" else "none"
    f = make_const_fn(dep, outk)
    mult = [1.0]
    fa = lambda v: f(v, anp, ab, mult[0])
    y0 = f(x, onp, ab)
    sample = {"arg": argk, "out": outk, "dep": dep, "op": op, "nested": nested, "prior": prior, "vseed": vseed}
    bucket = lambda k: f"C14|const|{op}|{k}"
    zx = zeros_like_tree(x)
    zy = zeros_like_tree(y0)
    in_shape = onp.shape(x) if not container_arg else None
    out_shape = onp.shape(y0) if (scalar_out or array_out) else None
    def run_op():
        if op == "grad":
            got, want = autograd.grad(fa)(x), zx
        elif op == "value_and_grad":
            val, got = autograd.value_and_grad(fa)(x)
            want = zx
            if nested == "no" and same(val, y0) is not None and float(val) != float(y0):
                return fail("primal_mismatch", f"value_and_grad value {val!r} vs {y0!r}", bucket("primal"), sample=sample)
        elif op == "elementwise_grad":
            got, want = autograd.elementwise_grad(fa)(x), zx
        elif op == "jacobian":
            got, want = autograd.jacobian(fa)(x), onp.zeros(out_shape + in_shape)
        elif op == "hessian":
            got, want = autograd.hessian(fa)(x), onp.zeros(in_shape + in_shape)
        elif op == "make_vjp":
            vjp, val = autograd.make_vjp(fa)(x)
            cot = zeros_like_tree(y0) if not scalar_out else 1.0
            first = vjp(cot)
            # the caller owns what it was given: updating a returned gradient in place must not change what the same
            # function returns next (each call returns a fresh exact zero)
            for leaf in leaves_of(first):
                if isinstance(leaf, onp.ndarray) and leaf.size and leaf.flags.writeable:
                    leaf += 1.0
            got, want = vjp(cot), zx
        elif op == "make_jvp":
            val, got = autograd.make_jvp(fa)(x)(tangent_like(x, vseed))
            want = zy
        elif op == "deriv":
            got, want = autograd.deriv(fa)(x), zy
        elif op == "grad_and_aux":
            got, aux = autograd.grad_and_aux(lambda v: (fa(v), 3.5))(x)
            want = zx
            if aux != 3.5:
                return fail("primal_mismatch", f"aux {aux!r}", bucket("aux"), sample=sample)
        elif op == "make_hvp":
            hvp, g = autograd.make_hvp(fa)(x)
            first = hvp(tangent_like(x, vseed))
            for leaf in leaves_of(first):
                if isinstance(leaf, onp.ndarray) and leaf.size and leaf.flags.writeable:
                    leaf -= 2.0
            got, want = hvp(tangent_like(x, vseed)), zx
            if not is_exact_zero_of(g, zx):
                return fail("nonzero", f"make_hvp gradient {g!r:.100}", bucket("nonzero"), sample=sample)
        elif op == "tensor_jacobian_product":
            got = autograd.differential_operators.tensor_jacobian_product(fa)(x, onp.ones(out_shape))
            want = onp.zeros(in_shape)
        else:
            got, want = autograd.differential_operators.make_jvp_reversemode(fa)(x)(tangent_like(x, vseed)), zy

        return got, want

    try:
        with warnings.catch_warnings():
            warnings.simplefilter("ignore")
            if nested == "no":
                res = run_op()
            else:
                cap = {}

                class _Stop(Exception):
                    pass

                def failing(y):
                    t = anp.sin(y) * z_[0]
                    if t == t:
                        raise _Stop()
                    return t

                z_ = [None]

                def outer(z):
                    mult[0] = z
                    z_[0] = z
                    if prior != "none":
                        try:
                            autograd.grad(failing)(0.3) if prior == "failed_rev" else autograd.make_jvp(failing)(0.3)(1.0)
                        except _Stop:
                            pass
                    try:
                        cap["res"] = run_op()
                    finally:
                        mult[0] = 1.0
                    return z * 2.0

                if nested == "rev":
                    autograd.grad(outer)(0.7)
                else:
                    autograd.make_jvp(outer)(0.7)(1.0)
                res = cap["res"]
        if isinstance(res, Outcome):
            return res
        got, want = res
    except Exception as e:
        if not from_autograd(e):
            raise
        if isinstance(e, NotImplementedError) and "not defined" in str(e):
            return raised(e, op, sample=sample)  # a missing rule for building the (outer-traced) output is loud and allowed
        return fail("exception_for_constant", describe_exc(e), bucket("exception"), sample=sample)
    if nested != "no":
        # the result was captured INSIDE the outer differentiation: a zero that multiplies the outer variable is legitimately a value of
        # the outer trace there (it is unboxed for the exactness check; the outer trace ended normally)
        from autograd.tracer import getval as _getval

        def _unbox(v):
            if isinstance(v, tuple):
                return tuple(_unbox(e) for e in v)
            if isinstance(v, list):
                return [_unbox(e) for e in v]
            if isinstance(v, dict):
                return {k: _unbox(e) for k, e in v.items()}
            return _getval(v)

        got = _unbox(got)
    if has_box(got):
        return fail("tracer_leak", "result contains a tracer", bucket("tracer_leak"), sample=sample)
    if not is_exact_zero_of(got, want):
        return fail("not_exact_zero", f"{op} of a function independent of its argument returned {got!r:.150}, expected exact zeros like {want!r:.100}",
                    bucket("not_zero"), sample=sample)
    fwd = op in ("make_jvp", "deriv", "make_jvp_reversemode")
    c.features.update(sample)
    return ok(nontrivial=container_arg or fwd or dep.startswith("nograd") or nested != "no" or dep == "where_cond",
              key=json.dumps([argk, outk, dep, op, nested, prior]),
              labels=["arg=" + argk, "out=" + outk, "dep=" + dep, "op=" + op, "nested=" + nested, "prior=" + prior], sample=sample)


def tangent_like(x, vseed):
    cnt = [0]

    def t(v):
        if isinstance(v, tuple):
            return tuple(t(e) for e in v)
        if isinstance(v, list):
            return [t(e) for e in v]
        if isinstance(v, dict):
            return {k: t(e) for k, e in v.items()}
        cnt[0] += 1
        d = values.direction(vseed, onp.shape(v), 400 + cnt[0])
        return float(d) if isinstance(v, float) and not isinstance(v, onp.floating) else d

    return t(x)


# ---- (b) the non-differentiable function set ----------------------------------------------------------------------------------
CK = onp.array([0.37, -0.81, 1.42, 0.05, -1.9, 0.66])


def _c(shape):
    n = int(onp.prod(shape)) if shape else 1
    return onp.resize(CK, n).reshape(shape)


# name -> list of (slot description, call(ns, x)) ; x is a float array at a generic point
def nograd_calls():
    U = lambda name: [("x", lambda ns, x, name=name: getattr(ns, name)(x))]
    B = lambda name: [("x,c", lambda ns, x, name=name: getattr(ns, name)(x, _c(onp.shape(x)))),
                      ("c,x", lambda ns, x, name=name: getattr(ns, name)(_c(onp.shape(x)), x))]
    T = {}
    for n in ["floor", "ceil", "rint", "fix", "trunc", "sign", "isfinite", "isinf", "isnan", "isneginf", "isposinf", "logical_not", "iscomplex",
              "isreal", "zeros_like", "ones_like", "argsort", "argwhere", "flatnonzero", "count_nonzero", "all", "any", "argmax", "argmin", "ndim",
              "shape", "size", "iscomplexobj", "isscalar", "result_type"]:
        T[n] = U(n)
    T["round"] = U("round") + [("x,1", lambda ns, x: ns.round(x, 1)), ("method", lambda ns, x: x.round() if hasattr(x, "round") else ns.round(x))]
    T["around"] = U("around") + [("x,dec", lambda ns, x: ns.around(x, decimals=1))]
    T["nonzero"] = [("x", lambda ns, x: ns.nonzero(x)), ("method", lambda ns, x: x.nonzero() if hasattr(x, "nonzero") else ns.nonzero(x))]
    T["argmax"] += [("axis", lambda ns, x: ns.argmax(x, axis=-1)), ("method", lambda ns, x: x.argmax() if hasattr(x, "argmax") else ns.argmax(x))]
    T["argmin"] += [("axis0", lambda ns, x: ns.argmin(x, 0))]
    T["argsort"] += [("axis", lambda ns, x: ns.argsort(x, axis=0)), ("method", lambda ns, x: x.argsort() if hasattr(x, "argsort") else ns.argsort(x))]
    T["all"] += [("axis", lambda ns, x: ns.all(x > -5, axis=0))]
    T["any"] += [("method", lambda ns, x: (x > 0).any())]
    T["argpartition"] = [("x,k", lambda ns, x: ns.argpartition(x, 1, axis=-1) if onp.shape(x)[-1] > 1 else ns.argpartition(x, 0))]
    T["searchsorted"] = [("sorted_c,x", lambda ns, x: ns.searchsorted(onp.sort(CK), x)),
                         ("x_sorted,c", lambda ns, x: ns.searchsorted(ns.sort(ns.ravel(x)) if False else onp.sort(onp.ravel(getval_np(x))), CK[:3]))]
    for n in ["floor_divide", "logical_and", "logical_or", "logical_xor", "isclose", "greater", "greater_equal", "less", "less_equal", "equal", "not_equal"]:
        T[n] = B(n)
    for n in ["allclose", "array_equal", "array_equiv"]:
        T[n] = B(n) + [("x,x", lambda ns, x, n=n: getattr(ns, n)(x, x))]
    T["greater"] += [("op", lambda ns, x: x > _c(onp.shape(x))), ("rop", lambda ns, x: _c(onp.shape(x)) > x)]
    T["less_equal"] += [("op", lambda ns, x: x <= 0.3), ("op_arr", lambda ns, x: x <= _c(onp.shape(x))), ("rop", lambda ns, x: _c(onp.shape(x)) >= x)]
    T["greater_equal"] += [("op", lambda ns, x: x >= 0.3), ("op_arr", lambda ns, x: x >= _c(onp.shape(x))), ("rop", lambda ns, x: _c(onp.shape(x)) <= x),
                           ("rop_scalar", lambda ns, x: 0.3 <= x)]
    T["less"] += [("op", lambda ns, x: x < _c(onp.shape(x))), ("rop", lambda ns, x: _c(onp.shape(x)) > x)]
    T["equal"] += [("op", lambda ns, x: x == x)]
    T["not_equal"] += [("op", lambda ns, x: x != 0.5)]
    T["floor_divide"] += [("x,scalar", lambda ns, x: ns.floor_divide(x, 0.7))]
    T["result_type"] += [("x,c", lambda ns, x: ns.result_type(x, onp.complex64))]
    return T


def getval_np(x):
    from autograd.tracer import getval

    return getval(x)


_CALLS = {}


def weight_of(r, xshape):
    """Deterministic float weight derived from a non-differentiable result (harness code, plain Python/NumPy)."""
    if isinstance(r, (tuple, list)):
        ws = [weight_of(e, xshape) for e in r]
        tot = 0.5
        for i, w in enumerate(ws):
            tot = tot + (i + 1) * onp.sum(w)
        return float(tot)
    if isinstance(r, onp.dtype) or isinstance(r, type):
        return 1.0 if r == onp.float64 else 2.0
    a = onp.asarray(r)
    if a.dtype == object:
        return 3.0
    a = a.astype(float)
    if a.shape == tuple(xshape) and a.ndim > 0:
        return a + 0.25
    return float(onp.sum(a)) + 0.25


def nograd_body(c):
    import autograd
    import autograd.numpy as anp

    if not _CALLS:
        _CALLS.update(nograd_calls())
    names = sorted(_CALLS)
    name = names[c.int(0, len(names) - 1)]
    slot, call = _CALLS[name][c.int(0, len(_CALLS[name]) - 1)]
    shape = c.choice([(3,), (2, 3), (4,), (2, 2), (1, 3)])
    vseed = c.seed()
    # generic points: away from integers / zero / the constants used as partners
    x = values.generic(vseed, [shape], -1.75, 1.75)[0][0]
    frac = x - onp.round(x)
    x = onp.where(onp.abs(frac) < 0.12, x + 0.25, x)
    x = onp.where(onp.abs(x - onp.round(x, 1)) < 0.012, x + 0.03, x)  # round(x, 1) kinks
    if c.chance(1, 5):
        # non-finite entries: the non-differentiable functions (comparisons above all) must still answer exactly as NumPy does
        x = onp.array(x)
        flat = x.reshape(-1)
        flat[c.int(0, flat.size - 1)] = onp.nan
        if c.bool():
            flat[c.int(0, flat.size - 1)] = c.choice([onp.inf, -onp.inf])
    x.flags.writeable = False
    sample = {"fn": name, "slot": slot, "shape": list(shape), "vseed": vseed}
    bucket = lambda k: f"C14|nograd:{name}|{k}"
    try:
        r0 = call(onp, x)
        # local constancy according to NumPy itself
        for d in (1e-4, -1e-4, 3e-5):
            r1 = call(onp, x + d * values.direction(vseed, shape, 7))
            if same(r0, r1) is not None:
                return Outcome("inconclusive", detail="not locally constant at the drawn point (kink nearby)", sample=sample)
    except Exception as e:
        return Outcome("numpy_rejects", detail=str(e)[:100], sample=sample)
    seen = {}

    def F(xx):
        r = call(anp, xx)
        seen["r"] = r
        w = weight_of(r, shape)
        return anp.sum(xx * w)

    w0 = weight_of(r0, shape)
    want = onp.broadcast_to(onp.asarray(w0, dtype=float), shape)
    comparison = name in ("greater", "greater_equal", "less", "less_equal", "equal", "not_equal")
    for mode in ("rev", "fwd"):
        try:
            with warnings.catch_warnings():
                warnings.simplefilter("ignore")
                if mode == "rev":
                    got = autograd.grad(F)(x)
                else:
                    v = values.direction(vseed, shape, 8)
                    t = autograd.make_jvp(F)(x)(v)[1]
        except Exception as e:
            if not from_autograd(e):
                raise
            return fail("exception_for_nograd", f"{mode}: " + describe_exc(e), bucket(mode + "_exception"), sample=sample)
        r = seen.get("r")
        if has_box(r):
            return fail("tracer_leak", f"{name} returned a tracer under {mode} mode", bucket("tracer_leak"), sample=sample)
        d = same(r, r0)
        if d:
            return fail("primal_mismatch", f"{name} under {mode} mode differs from NumPy: {d}", bucket("primal_mismatch"), sample=sample)
        if mode == "rev":
            if onp.shape(got) != tuple(shape) or not onp.array_equal(onp.asarray(got), want, equal_nan=True):
                return fail("wrong_value", f"grad(sum(x*w(n(x)))) = {onp.asarray(got).tolist()} expected exactly {want.tolist()}"[:300], bucket("law_rev"), sample=sample)
        else:
            wt = float(onp.sum(v * want))
            if not ((onp.isnan(wt) and onp.isnan(float(t))) or float(t) == wt or abs(float(t) - wt) <= 1e-13 * max(1.0, abs(wt))):
                return fail("wrong_value", f"jvp of sum(x*w(n(x))) = {float(t)!r} expected {wt!r}", bucket("law_fwd"), sample=sample)
    c.features.update(fn=name, slot=slot)
    return ok(nontrivial=not comparison, key=json.dumps([name, slot, list(shape)]), labels=["fn=" + name], sample=sample)


def masked_body(c):
    """Entries a mask does not select are independent of the argument: their derivative is an exact zero even when the value flowing into the
    unselected branch is non-finite (the `safe where` idioms)."""
    import autograd
    import autograd.numpy as anp

    shape = c.choice([(4,), (2, 3), (5,)])
    vseed = c.seed()
    x = values.generic(vseed, [shape], -1.5, 1.5)[0][0]
    w = values.direction(vseed, shape, 3)
    idiom = c.choice(["sqrt_of_where", "where_of_sqrt", "where_of_log", "where_of_div", "log_of_where", "sqrt_of_nan_to_num", "nan_to_num_of_log"])
    mode = {"sqrt_of_where": "rev", "log_of_where": "rev", "sqrt_of_nan_to_num": "rev"}.get(idiom, c.choice(["fwd", "rev_masked_only"]))
    m = x > 0.2
    sample = {"idiom": idiom, "mode": mode, "shape": list(shape), "vseed": vseed}
    if not m.any() or m.all():
        return Outcome("numpy_rejects", detail="mask selects all or nothing", sample=sample)

    # nan_to_num as the mask: the unselected entries of the INPUT are nan (replaced by 0, where sqrt has an infinite slope) or 0 (log gives
    # -inf with an infinite tangent, replaced by a constant): the replaced entries are constants, whatever (co)tangent reaches them
    xin = {"sqrt_of_nan_to_num": onp.where(m, x, onp.nan), "nan_to_num_of_log": onp.where(m, x, 0.0)}.get(idiom, x)

    def f(t):
        if idiom == "sqrt_of_nan_to_num":
            return anp.sum(anp.sqrt(anp.nan_to_num(t)) * w)
        if idiom == "nan_to_num_of_log":
            return anp.sum(anp.nan_to_num(anp.log(t)) * (1e-300 * w))
        if idiom == "sqrt_of_where":
            return anp.sum(anp.sqrt(anp.where(t > 0.2, t, 0.0)) * w)
        if idiom == "log_of_where":
            return anp.sum(anp.log(anp.where(t > 0.2, t, 1.0)) * w)
        if idiom == "where_of_sqrt":
            return anp.sum(anp.where(t > 0.2, anp.sqrt(t), 0.0) * w)
        if idiom == "where_of_log":
            return anp.sum(anp.where(t > 0.2, anp.log(t), 0.0) * w)
        return anp.sum(anp.where(t > 0.2, 1.0 / (t - 0.2 * (t <= 0.2)), 0.0) * w)

    d = {"sqrt_of_where": 0.5 / onp.sqrt(onp.where(m, x, 1.0)), "where_of_sqrt": 0.5 / onp.sqrt(onp.where(m, x, 1.0)), "log_of_where": 1.0 / onp.where(m, x, 1.0),
         "where_of_log": 1.0 / onp.where(m, x, 1.0), "where_of_div": -1.0 / onp.where(m, x, 1.0) ** 2,
         "sqrt_of_nan_to_num": 0.5 / onp.sqrt(onp.where(m, x, 1.0)), "nan_to_num_of_log": 1e-300 / onp.where(m, x, 1.0)}[idiom]
    want = onp.where(m, d * w, 0.0)
    try:
        with warnings.catch_warnings():
            warnings.simplefilter("ignore")
            if mode == "fwd":
                v = values.direction(vseed, shape, 4)
                got = float(autograd.make_jvp(f)(xin)(v)[1])
                if not abs(got - float(onp.sum(want * v))) <= 1e-12 * max(1.0, abs(float(onp.sum(want * v)))):
                    return fail("not_exact_zero", f"{idiom}: forward-mode derivative {got!r}, expected {float(onp.sum(want * v))!r} (unselected entries contribute exactly zero)",
                                f"C14|masked|{idiom}|fwd", sample=sample)
            else:
                got = onp.asarray(autograd.grad(f)(xin))
                if mode == "rev":
                    bad = not onp.allclose(got, want, rtol=1e-12, atol=0) or not onp.array_equal(got[~m], onp.zeros(int((~m).sum())))
                else:  # the reverse pass of these idioms is non-finite upstream of where at the unselected entries: only the selected ones are compared
                    bad = not onp.allclose(got[m], want[m], rtol=1e-12, atol=0)
                if bad:
                    return fail("not_exact_zero", f"{idiom}: gradient {got.tolist()} expected {want.tolist()} (exact zeros where the mask does not select)",
                                f"C14|masked|{idiom}|rev", sample=sample)
    except Exception as e:
        if not from_autograd(e):
            raise
        return fail("exception_for_constant", describe_exc(e), f"C14|masked|{idiom}|exception", sample=sample)
    return ok(nontrivial=True, key=json.dumps([idiom, mode, list(shape), m.tolist()]), labels=["masked", "idiom=" + idiom, "mode=" + mode], sample=sample)


def aliased_body(c):
    """A container argument that holds the SAME nested container object at two positions (`[(W, b)] * 2`, `{"a": sub, "b": sub}`): the two
    positions are different arguments of the function.  The function depends on the first differentiably and on the second only through
    floor / comparisons: the second position's gradient is an exact zero, the first's is not disturbed by it."""
    import autograd
    import autograd.numpy as anp

    vseed = c.seed()
    (W, b), _ = values.generic(vseed, [(2, 3), (3,)], 0.3, 2.7, avoid=(1.0, 2.0))
    sub_kind = c.choice(["tuple", "list", "dict", "array"])  # array: the SAME ndarray object at both positions (leaf-level aliasing)
    sub = (W, b) if sub_kind == "tuple" else ([W, b] if sub_kind == "list" else ({"W": W, "b": b} if sub_kind == "dict" else W))
    outer = c.choice(["list_times_2", "tuple_pair", "dict_pair", "nested_pair"] + (["two_args"] if sub_kind == "array" else []))
    params = {"list_times_2": lambda: [sub] * 2, "tuple_pair": lambda: (sub, sub), "dict_pair": lambda: {"a": sub, "b": sub}, "nested_pair": lambda: (sub, [sub, 1.5]), "two_args": lambda: (sub, sub)}[outer]()
    getW = (lambda s_: s_["W"]) if sub_kind == "dict" else ((lambda s_: s_) if sub_kind == "array" else (lambda s_: s_[0]))
    getb = (lambda s_: s_["b"]) if sub_kind == "dict" else ((lambda s_: b) if sub_kind == "array" else (lambda s_: s_[1]))
    leaf = sub_kind == "array"
    first = {"list_times_2": lambda p: p[0], "tuple_pair": lambda p: p[0], "dict_pair": lambda p: p["a"], "nested_pair": lambda p: p[0], "two_args": lambda p: p[0]}[outer]
    second = {"list_times_2": lambda p: p[1], "tuple_pair": lambda p: p[-1], "dict_pair": lambda p: p["b"], "nested_pair": lambda p: p[1][0], "two_args": lambda p: p[1]}[outer]
    mode = c.choice(["grad", "value_and_grad", "make_vjp", "jvp_second"])
    sample = {"sub": sub_kind, "outer": outer, "mode": mode, "vseed": vseed}
    c.features.update(outer=outer, sub=sub_kind, mode=mode)

    def f(p):
        s1, s2 = first(p), second(p)
        return anp.sum(getW(s1) * anp.floor(getW(s2))) + anp.sum(getb(s1) * (getb(s2) > 1.2))

    wantW, wantb = onp.floor(W), (b > 1.2) * 1.0
    bucket = lambda k: f"C14|aliased|{outer}|{k}"
    try:
        if mode == "jvp_second":
            # a direction that moves only the second position
            zero_sub = (onp.zeros_like(W), onp.zeros_like(b)) if sub_kind == "tuple" else ([onp.zeros_like(W), onp.zeros_like(b)] if sub_kind == "list" else ({"W": onp.zeros_like(W), "b": onp.zeros_like(b)} if sub_kind == "dict" else onp.zeros_like(W)))
            one_sub = (onp.ones_like(W), onp.ones_like(b)) if sub_kind == "tuple" else ([onp.ones_like(W), onp.ones_like(b)] if sub_kind == "list" else ({"W": onp.ones_like(W), "b": onp.ones_like(b)} if sub_kind == "dict" else onp.ones_like(W)))
            tang = {"list_times_2": lambda: [zero_sub, one_sub], "tuple_pair": lambda: (zero_sub, one_sub), "dict_pair": lambda: {"a": zero_sub, "b": one_sub},
                    "nested_pair": lambda: (zero_sub, [one_sub, 0.0]), "two_args": lambda: one_sub}[outer]()
            t = autograd.make_jvp(f)(params)(tang)[1] if outer != "two_args" else autograd.make_jvp(lambda a_, b_: f((a_, b_)), 1)(sub, sub)(tang)[1]
            if not (onp.shape(t) == () and float(t) == 0.0):
                return fail("not_exact_zero", f"tangent {t!r} for a direction that moves only the position the function reads through floor / comparisons", bucket("fwd"), sample=sample)
            return ok(nontrivial=True, key=json.dumps([sub_kind, outer, mode]), labels=["aliased", "mode=fwd"], sample=sample)
        if outer == "two_args":
            f2 = lambda a_, b_: f((a_, b_))
            g = autograd.grad(f2, (0, 1))(sub, sub) if mode == "grad" else (autograd.value_and_grad(f2, (0, 1))(sub, sub)[1] if mode == "value_and_grad" else autograd.make_vjp(f2, (0, 1))(sub, sub)[0](1.0))
        else:
            g = autograd.grad(f)(params) if mode == "grad" else (autograd.value_and_grad(f)(params)[1] if mode == "value_and_grad" else autograd.make_vjp(f)(params)[0](1.0))
    except Exception as e:
        if not from_autograd(e):
            raise
        return fail("exception_for_constant", describe_exc(e), bucket("exception"), sample=sample)
    g1, g2 = first(g), second(g)
    if leaf:
        getb = lambda s_: onp.zeros_like(b)  # (no second leaf in this arrangement)
        wantb = onp.zeros_like(b)
    if not (onp.array_equal(onp.asarray(getW(g2)), onp.zeros_like(W)) and onp.array_equal(onp.asarray(getb(g2)), onp.zeros_like(b))):
        return fail("not_exact_zero", f"the position read only through floor / comparisons has gradient {onp.asarray(getW(g2)).tolist()}, {onp.asarray(getb(g2)).tolist()}", bucket("second"), sample=sample)
    if not (onp.allclose(onp.asarray(getW(g1)), wantW, rtol=0, atol=1e-13) and onp.allclose(onp.asarray(getb(g1)), wantb, rtol=0, atol=1e-13)):
        return fail("wrong_value", f"the differentiable position has gradient {onp.asarray(getW(g1)).tolist()} instead of floor(W) = {wantW.tolist()}", bucket("first"), sample=sample)
    return ok(nontrivial=True, key=json.dumps([sub_kind, outer, mode]), labels=["aliased", "mode=" + mode], sample=sample)


_DISCRETE = []


def discrete_table():
    """(name, form) for every callable of autograd.numpy whose raw-NumPy result on float input is boolean or integer valued (found by probing,
    not from autograd's own list of non-differentiable functions)."""
    if _DISCRETE:
        return _DISCRETE
    import autograd.numpy as anp

    from ..templates import sweep

    x = onp.array([[0.3, -1.2, 0.7], [1.5, 0.2, -0.4]])
    forms = {"x": lambda t: (t,), "xy": lambda t: (t, x[::-1] * 1.0), "x1": lambda t: (t, 1), "xv": lambda t: (t.ravel(), onp.array([0.0, 0.5, 1.0])),
             "x_axis": lambda t: (t, -1)}
    for name in sorted(dir(anp)):
        if name.startswith("_") or name in sweep.SKIP:
            continue
        f, g = getattr(anp, name, None), getattr(onp, name, None)
        if g is None or not callable(f) or isinstance(f, type) or isinstance(g, type):
            continue
        for form, mk in forms.items():
            try:
                with warnings.catch_warnings():
                    warnings.simplefilter("ignore")
                    r = g(*mk(x))
            except Exception:
                continue
            if isinstance(r, (tuple, list)) or onp.asarray(r).dtype.kind not in "biu":
                continue
            _DISCRETE.append((name, form))
    return _DISCRETE


def discrete_body(c):
    """Every exported function that is boolean- or integer-valued on float input, called on a traced array inside a differentiated function:
    it returns a plain value equal to NumPy's (no tracer, no error), and the derivative of the rest of the function is untouched."""
    import autograd
    import autograd.numpy as anp
    from autograd.tracer import isbox

    tab = discrete_table()
    name, form = tab[c.int(0, len(tab) - 1)]
    mode = c.choice(["rev", "fwd"])
    vseed = c.seed()
    x0 = values.generic(vseed, [(2, 3)], -1.5, 1.5)[0][0]
    part = x0[::-1] * 1.0
    args_of = {"x": lambda t: (t,), "xy": lambda t: (t, part), "x1": lambda t: (t, 1), "xv": lambda t: (anp.ravel(t), onp.array([0.0, 0.5, 1.0])), "x_axis": lambda t: (t, -1)}[form]
    np_args = {"x": (x0,), "xy": (x0, part), "x1": (x0, 1), "xv": (x0.ravel(), onp.array([0.0, 0.5, 1.0])), "x_axis": (x0, -1)}[form]
    sample = {"function": name, "form": form, "mode": mode, "vseed": vseed}
    c.features.update(fn=name, form=form, mode=mode)
    bucket = lambda k: f"C14|discrete|{name}|{k}"
    try:
        with warnings.catch_warnings():
            warnings.simplefilter("ignore")
            ref = getattr(onp, name)(*np_args)
    except Exception as e:
        return Outcome("numpy_rejects", detail=str(e)[:100], sample=sample)
    seen = {}

    def fun(t):
        seen["q"] = getattr(anp, name)(*args_of(t))
        return anp.sum(t * t)

    try:
        with warnings.catch_warnings():
            warnings.simplefilter("ignore")
            if mode == "rev":
                d = onp.asarray(autograd.grad(fun)(x0))
                want = 2 * x0
            else:
                v = values.direction(vseed, (2, 3), 5)
                d = onp.asarray(autograd.make_jvp(fun)(x0)(v)[1])
                want = onp.sum(2 * x0 * v)
    except Exception as e:
        if not from_autograd(e):
            raise
        return fail("exception_for_constant", f"{name} ({form}, {mode}): " + describe_exc(e), bucket("exception"), sample=sample)
    q = seen.get("q")
    if isbox(q):
        return fail("tracer_leak", f"{name} returned a tracer for an integer / boolean valued result", bucket("box"), sample=sample)
    if onp.shape(q) != onp.shape(ref) or not onp.array_equal(onp.asarray(q), onp.asarray(ref)):
        return fail("primal_mismatch", f"{name}: value under differentiation differs from NumPy's", bucket("value"), sample=sample)
    if not onp.allclose(d, want, rtol=1e-12, atol=1e-12):
        return fail("wrong_value", f"{name}: the derivative of the rest of the function changed", bucket("derivative"), sample=sample)
    return ok(nontrivial=True, key=json.dumps([name, form, mode]), labels=["discrete", "mode=" + mode], sample=sample)


def finalize(agg):
    """Completeness accounting: which entries of autograd's nograd list have no call template?"""
    import autograd.numpy as anp
    from autograd.numpy.numpy_vjps import nograd_functions

    if not _CALLS:
        _CALLS.update(nograd_calls())
    names = {}
    for k, v in vars(anp).items():
        try:
            names.setdefault(v, k)
        except TypeError:
            pass
    listed = sorted({names.get(f, getattr(f, "__name__", repr(f))) for f in nograd_functions})
    covered = set(_CALLS) | {"abs"}
    alias = {"round_": "round", "amax": "max"}
    uncovered = [n for n in listed if n not in covered and alias.get(n) not in covered]
    return {"nograd_listed": len(listed), "nograd_uncovered": uncovered}


PROP = Prop("C14", [
    Test("constant_programs", const_body, quick=8000, thorough=40000, shard_size=400),
    Test("nograd_set", nograd_body, quick=8000, thorough=40000, shard_size=400),
    Test("masked_branches", masked_body, quick=1500, thorough=10000, shard_size=250),
    Test("discrete_namespace", discrete_body, quick=1500, thorough=8000, shard_size=250),
    Test("aliased_containers", aliased_body, quick=600, thorough=4000, shard_size=150),
], RULE, assumptions=[
    "raw NumPy decides local constancy and the reference value/type of every non-differentiable function",
], finalize=finalize)
