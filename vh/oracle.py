"""Numerical-derivative oracles on raw NumPy functions (never on autograd.numpy).

ridders(phi, h0): derivative at 0 of t -> phi(t) (array valued, real or complex) by Ridders'
extrapolation of central differences; returns (estimate, error estimate) or None when an
evaluation is non-finite / changes shape (regularity guard -> the case is inconclusive).
"""
import math

import numpy as onp

from .env import HarnessError


class Inconclusive(Exception):
    pass


def _asarr(y):
    a = onp.asarray(y)
    if a.dtype == object:
        raise Inconclusive("object output")
    if a.dtype.kind == "c":
        return a.astype(onp.complex128)
    return a.astype(onp.float64)


def ridders(phi, h0=0.02, ntab=8, con=1.6):
    con2 = con * con
    shape = [None]

    def d(h):
        a = _asarr(phi(h))
        b = _asarr(phi(-h))
        if a.shape != b.shape or (shape[0] is not None and a.shape != shape[0]):
            raise Inconclusive("shape changes under perturbation")
        shape[0] = a.shape
        if not (onp.all(onp.isfinite(a)) and onp.all(onp.isfinite(b))):
            raise Inconclusive("non-finite evaluation")
        return (a - b) / (2 * h)

    a = [[None] * ntab for _ in range(ntab)]
    h = h0
    a[0][0] = d(h)
    err = math.inf
    ans = a[0][0]
    for i in range(1, ntab):
        h /= con
        a[0][i] = d(h)
        fac = con2
        for j in range(1, i + 1):
            a[j][i] = (a[j - 1][i] * fac - a[j - 1][i - 1]) / (fac - 1.0)
            fac *= con2
            errt = max(
                float(onp.max(onp.abs(a[j][i] - a[j - 1][i]), initial=0.0)),
                float(onp.max(onp.abs(a[j][i] - a[j - 1][i - 1]), initial=0.0)),
            )
            if errt <= err:
                err = errt
                ans = a[j][i]
        if float(onp.max(onp.abs(a[i][i] - a[i - 1][i - 1]), initial=0.0)) >= 2 * err:
            break
    return ans, err


def directional(f, x, v, h0):
    """D_v f(x) for raw-NumPy f; x, v arrays (real or complex).  Raises Inconclusive."""
    x = onp.asarray(x)
    v = onp.asarray(v)
    est, err = ridders(lambda t: f(x + t * v), h0)
    scale = max(1.0, float(onp.max(onp.abs(est), initial=0.0)))
    if not (err <= 1e-8 * scale):
        raise Inconclusive(f"ridders error estimate {err:.2e}")
    return est, err


def second_directional(f, x, u, v, h=2e-3):
    """D^2 f(x)[u, v] by the four-point central second difference + one Richardson step."""

    fmax = [0.0]

    def sd(h):
        a = _asarr(f(x + h * u + h * v))
        b = _asarr(f(x + h * u - h * v))
        c = _asarr(f(x - h * u + h * v))
        d = _asarr(f(x - h * u - h * v))
        for y in (a, b, c, d):
            if y.shape != a.shape or not onp.all(onp.isfinite(y)):
                raise Inconclusive("non-finite / shape change")
            fmax[0] = max(fmax[0], float(onp.max(onp.abs(y), initial=0.0)))
        return (a - b - c + d) / (4 * h * h)

    def rich(h):
        return (4 * sd(h / 2) - sd(h)) / 3

    e1 = rich(h)
    e2 = rich(h / 2)
    err = float(onp.max(onp.abs(e1 - e2), initial=0.0))
    # rounding error of the smallest step: four function values of magnitude fmax divided by 4 (h/4)^2
    err = max(err, 8 * onp.finfo(float).eps * fmax[0] / ((h / 4) ** 2))
    scale = max(1.0, float(onp.max(onp.abs(e2), initial=0.0)))
    if not (err <= 2e-7 * scale):
        raise Inconclusive(f"second-difference error estimate {err:.2e}")
    return e2, err


def one_sided(f, x, v, sign, h0=1e-2):
    """lim_{h->0+} (f(x + sign*h*v) - f(x)) / (sign*h) by Richardson extrapolation of one-sided differences."""
    f0 = _asarr(f(x))

    def d(h):
        y = _asarr(f(x + sign * h * v))
        if y.shape != f0.shape or not onp.all(onp.isfinite(y)):
            raise Inconclusive("non-finite / shape change")
        return (y - f0) / (sign * h)

    # Neville tableau in h (error terms h, h^2, ...)
    n = 6
    hs = [h0 / (2 ** i) for i in range(n)]
    T = [[None] * n for _ in range(n)]
    for i in range(n):
        T[i][0] = d(hs[i])
        for j in range(1, i + 1):
            T[i][j] = T[i][j - 1] + (T[i][j - 1] - T[i - 1][j - 1]) / (2 ** j - 1)
    est = T[n - 1][n - 1]
    err = float(onp.max(onp.abs(T[n - 1][n - 1] - T[n - 2][n - 2]), initial=0.0))
    scale = max(1.0, float(onp.max(onp.abs(est), initial=0.0)))
    if not (err <= 1e-6 * scale):
        raise Inconclusive(f"one-sided error estimate {err:.2e}")
    return est, err


def rdot(a, b):
    """Re sum(a*b) without conjugation (the pairing used by the documented complex convention)."""
    return float(onp.real(onp.sum(onp.asarray(a) * onp.asarray(b))))


_SELFTEST_DONE = [False]


def selftest():
    if _SELFTEST_DONE[0]:
        return
    x = onp.array([[0.3, -1.2, 0.7], [1.1, 0.45, -0.6]])
    v = onp.array([[0.5, -0.3, 0.9], [-0.7, 0.2, 0.4]])
    table = [
        (onp.sin, lambda x, v: onp.cos(x) * v),
        (onp.exp, lambda x, v: onp.exp(x) * v),
        (onp.tanh, lambda x, v: v / onp.cosh(x) ** 2),
        (lambda x: onp.log(x + 3.0), lambda x, v: v / (x + 3.0)),
        (lambda x: onp.sqrt(x + 3.0), lambda x, v: 0.5 * v / onp.sqrt(x + 3.0)),
        (lambda x: onp.sum(x * x, axis=0), lambda x, v: onp.sum(2 * x * v, axis=0)),
        (lambda x: x @ x.T, lambda x, v: v @ x.T + x @ v.T),
        (lambda x: onp.arctan(x), lambda x, v: v / (1 + x * x)),
        (lambda x: onp.exp(1j * x), lambda x, v: 1j * onp.exp(1j * x) * v),
        (lambda x: onp.linalg.inv(x @ x.T + onp.eye(2)),
         lambda x, v: -onp.linalg.inv(x @ x.T + onp.eye(2)) @ (v @ x.T + x @ v.T) @ onp.linalg.inv(x @ x.T + onp.eye(2))),
    ]
    for i, (f, df) in enumerate(table):
        est, err = directional(f, x, v, 0.02)
        true = df(x, v)
        e = float(onp.max(onp.abs(est - true)))
        if not (e <= 1e-9 and e <= 1e-7 + 100 * err):
            raise HarnessError(f"oracle selftest {i}: ridders error {e:.2e} (estimate {err:.2e})")
    # second derivative
    u = onp.array([[0.2, 0.6, -0.4], [0.8, -0.5, 0.3]])
    est, err = second_directional(onp.sin, x, u, v)
    if float(onp.max(onp.abs(est + onp.sin(x) * u * v))) > 1e-8:
        raise HarnessError("oracle selftest: second difference")
    # one-sided
    est, err = one_sided(onp.abs, onp.array([0.0, 1.0]), onp.array([1.0, -2.0]), -1.0)
    if float(onp.max(onp.abs(est - onp.array([-1.0, -2.0])))) > 1e-8:
        raise HarnessError("oracle selftest: one-sided")
    _SELFTEST_DONE[0] = True
