"""Dev tool (not a registered check): which source lines of the autograd package does one property's generator reach?

usage: python -m vh.tools.pkgcov C01 [examples-per-test] -> writes <VERIF_OUT or /var/tmp>/pkgcov/<pid>.json  {file: [reached lines]}
       python -m vh.tools.pkgcov --report                 -> union over all files written so far vs. executable lines
Used to find behaviour no generator reaches; the numbers are not evidence of correctness.
"""
import importlib
import json
import os
import sys

from .. import env

OUT = os.path.join(os.environ.get("PKGCOV_OUT", "/var/tmp/pkgcov"))


def executable_lines(path):
    import dis

    src = open(path).read()
    code = compile(src, path, "exec")
    lines = set()
    stack = [code]
    while stack:
        c = stack.pop()
        for _, _, ln in c.co_lines():
            if ln is not None:
                lines.add(ln)
        for k in c.co_consts:
            if hasattr(k, "co_code"):
                stack.append(k)
    return lines


def run(pid, n):
    env.load_autograd()
    import autograd

    root = os.path.dirname(os.path.abspath(autograd.__file__))
    mon = sys.monitoring
    tool = 3
    mon.use_tool_id(tool, "pkgcov")
    hit = set()

    def on_line(code, lineno):
        fn = code.co_filename
        if fn.startswith(root):
            hit.add((fn[len(root) + 1:], lineno))
        return mon.DISABLE

    mon.register_callback(tool, mon.events.LINE, on_line)
    mon.set_events(tool, mon.events.LINE)
    from .. import engine

    mod = importlib.import_module("vh.props." + pid.lower())
    prop = mod.PROP
    if prop.selftest:
        prop.selftest()
    known = engine.load_known(pid)
    for t in prop.tests:
        engine.run_shard(t, 0, n, "quick", env.SEED, known)
    mon.set_events(tool, 0)
    os.makedirs(OUT, exist_ok=True)
    by = {}
    for f, l in hit:
        by.setdefault(f, []).append(l)
    json.dump({k: sorted(v) for k, v in by.items()}, open(os.path.join(OUT, pid + ".json"), "w"))
    print(pid, "lines reached:", len(hit))


def report():
    env.load_autograd()
    import autograd

    root = os.path.dirname(os.path.abspath(autograd.__file__))
    union = {}
    for f in sorted(os.listdir(OUT)):
        for k, v in json.load(open(os.path.join(OUT, f))).items():
            union.setdefault(k, set()).update(v)
    for dirpath, _, files in os.walk(root):
        for f in sorted(files):
            if not f.endswith(".py"):
                continue
            p = os.path.join(dirpath, f)
            rel = p[len(root) + 1:]
            if rel.startswith("scipy"):
                continue
            ex = executable_lines(p)
            # module-level lines run at import, before monitoring starts: only count lines inside functions as misses
            miss = sorted(ex - union.get(rel, set()))
            src = open(p).read().splitlines()
            miss = [m for m in miss if src[m - 1].startswith((" ", "\t"))]
            print(f"== {rel}: {len(ex)} executable, {len(miss)} indented lines never reached")
            for m in miss:
                print(f"   {m}: {src[m - 1].rstrip()[:150]}")


if __name__ == "__main__":
    if sys.argv[1] == "--report":
        report()
    else:
        run(sys.argv[1], int(sys.argv[2]) if len(sys.argv) > 2 else 60)
