"""Dev tool: enumerate (callable, template, shape) triples that raw NumPy accepts, whose output is floating and varies smoothly.

Uses raw NumPy only (autograd is imported just to enumerate the exported names), so the list is a corpus that does not depend on
autograd's derivative code; every case re-validates applicability at run time.  Writes vh/data/applicable.json.
"""
import json
import multiprocessing
import os
import signal
import warnings

import numpy as onp

from .. import env, oracle, values
from ..props import c15


def probe(args):
    ci, label = args
    env.load_autograd()
    C = c15.cat()
    getter = C[ci][1]
    out = []
    fn = getter(onp)

    def on_alarm(s, f):
        raise TimeoutError()

    signal.signal(signal.SIGALRM, on_alarm)
    for tname in c15.TEMPLATES:
        for si, shape in enumerate(c15.SHAPES):
            try:
                signal.alarm(5)
                make_args, x0 = c15.build_args(tname, shape, 0)
                x0 = onp.array(x0)
                x0.flags.writeable = False
                with warnings.catch_warnings():
                    warnings.simplefilter("ignore")
                    onp.random.seed(12345)
                    y0 = fn(*make_args(x0))
                    if not c15.floatish(y0):
                        continue
                    v = values.direction(0, x0.shape, 9)

                    def F(x):
                        onp.random.seed(12345)
                        return onp.asarray(c15.scalarise(fn(*make_args(x)), onp, 0)[0])

                    dv, err = oracle.directional(F, x0, v, 0.01)
                    if abs(float(onp.real(dv))) > 1e-6:
                        out.append([label, tname, si])
            except BaseException:
                continue
            finally:
                signal.alarm(0)
    return out


def main():
    env.load_autograd()
    C = c15.cat()
    with multiprocessing.get_context("fork").Pool(16) as pool:
        res = pool.map(probe, [(i, l) for i, (l, _) in enumerate(C)], chunksize=4)
    flat = [t for r in res for t in r]
    path = os.path.join(os.path.dirname(os.path.dirname(os.path.abspath(__file__))), "data", "applicable.json")
    with open(path, "w") as f:
        json.dump(flat, f)
    names = sorted({t[0] for t in flat})
    print(len(flat), "applicable triples;", len(names), "callables with >= 1 applicable template out of", len(C))


if __name__ == "__main__":
    main()
