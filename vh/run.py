"""CLI: ./check <ID> [--tier quick|thorough] [--replay FILE] [--only PATTERN]"""
import argparse
import importlib
import json
import sys
import traceback

from . import env


def main(argv=None):
    ap = argparse.ArgumentParser()
    ap.add_argument("pid")
    ap.add_argument("--tier", default=None)
    ap.add_argument("--replay", default=None)
    ap.add_argument("--only", default=None)
    ap.add_argument("--pin", default=None, help="dev tool: name of a regress file to create")
    ap.add_argument("--when", default=None)
    ap.add_argument("--test", default="*")
    ap.add_argument("--status", default="ok,fail")
    a = ap.parse_args(argv)
    tier = a.tier or env.TIER
    if tier not in ("quick", "thorough"):
        print(f"bad tier {tier}")
        return 2
    pid = a.pid.upper()
    try:
        env.load_autograd()
        mod = importlib.import_module(f"vh.props.{pid.lower()}")
        prop = mod.PROP
    except Exception:
        print(f"HARNESS-ERROR property={pid} cannot load\n{traceback.format_exc()}")
        return 2
    from . import engine
    from .case import StaleReplay

    if a.pin:
        return 0 if engine.pin_case(prop, a.test, a.when, a.pin, statuses=tuple(a.status.split(','))) else 2
    if a.replay:
        try:
            out, case, fid = engine.replay_file(prop, a.replay, engine.load_known(pid))
        except StaleReplay as e:
            print(f"HARNESS-ERROR property={pid} {e}")
            return 2
        print(json.dumps({"status": out.status, "kind": out.kind, "detail": out.detail, "bucket": out.bucket,
                          "case": out.sample, "features": engine._jsonable(case.features)}, indent=1, default=repr))
        if out.status == "fail":
            if fid:
                print(f"KNOWN-FINDING: property={pid} id={fid}")
                return 0
            print(f"VIOLATION property={pid} replay={a.replay}")
            return 1
        return 0
    try:
        return engine.run_property(prop, tier, env.SEED, only=a.only)
    except Exception:
        print(f"HARNESS-ERROR property={pid}\n{traceback.format_exc()}")
        return 2


if __name__ == "__main__":
    sys.exit(main())
