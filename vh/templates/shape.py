"""Shape, selection and construction templates."""
import numpy as onp

from .core import Call, template

W = onp.array([0.3, 1.1, -0.7, 0.5, 2.0, -1.3, 0.9, 1.7])


def flat_parts(ns, parts):
    """Reduce a list/tuple of arrays to one flat array (weighted so parts are distinguishable)."""
    return ns.concatenate([W[i % 8] * ns.ravel(p) for i, p in enumerate(parts)])


def _sz(s):
    return int(onp.prod(s)) if len(s) else 1


@template("s:reshape", "shape", weight=2)
def _t_reshape(c):
    s = c.shape(0, 4)
    if sum(1 for d in s if d > 1) <= 1 and s:
        # vectors, rows and columns (C- and Fortran-contiguous at once) long enough to be reshaped to two non-unit axes
        s = tuple(d * 2 if d > 1 else d for d in s) if any(d > 1 for d in s) else s[:-1] + (4,)
    n = _sz(s)
    facs = [d for d in range(2, n) if n % d == 0] or [1]  # proper factors where there are any
    a = c.choice(facs)
    cands = [(n,), (a, n // a), (n // a, a), (-1,), (a, -1), (1, n), (n, 1, 1), (-1, a)]
    if n == 1:
        cands.append(())
    new = c.choice(cands)
    order = c.choice([None, "C", "F", "A", "a", "f"])
    form = c.int(0, 3)  # 0 func, 1 func order kw, 2 method tuple, 3 method star
    if form == 3 and len(new) == 0:
        form = 2
    if form == 0:
        fn = lambda ns, x: ns.reshape(x, new)
    elif form == 1:
        fn = (lambda ns, x: ns.reshape(x, new, order=order)) if order else (lambda ns, x: ns.reshape(x, new))
    elif form == 2:
        fn = (lambda ns, x: x.reshape(new, order=order) if order else x.reshape(new)) if True else None
    else:
        fn = lambda ns, x: x.reshape(*new)
    if form in (2, 3) and len(s) == 0:
        fn0 = fn
        fn = lambda ns, x: fn0(ns, ns.array(x))
    return Call("s:reshape", fn, [s], desc=["reshape", list(s), list(new), order, form],
                feats={"fn": "reshape", "form": form, "order": order, "ndim": len(s)})


@template("s:ravel", "shape")
def _t_ravel(c):
    s = c.shape(0, 4)
    order = c.choice([None, "C", "F", "A", "K", "a", "k", "f"])
    form = c.int(0, 2)
    if form == 0 or len(s) == 0:
        fn = (lambda ns, x: ns.ravel(x, order=order)) if order else (lambda ns, x: ns.ravel(x))
    elif form == 1:
        fn = (lambda ns, x: x.ravel(order=order)) if order else (lambda ns, x: x.ravel())
    else:
        fn = (lambda ns, x: x.flatten(order)) if order else (lambda ns, x: x.flatten())
    return Call("s:ravel", fn, [s], desc=["ravel", list(s), order, form], feats={"fn": "ravel", "form": form, "order": order})


@template("s:squeeze", "shape")
def _t_squeeze(c):
    r = c.int(0, 4)
    s = tuple(c.choice([1, 1, 2, 3]) for _ in range(r))
    ones = [i for i, d in enumerate(s) if d == 1]
    if not ones or not c.bool():
        ax = None
        fn = lambda ns, x: ns.squeeze(x)
    else:
        k = c.int(1, len(ones))
        ax = tuple(c.signed_axis(a, r) for a in c.sample(ones, k))
        if len(ax) == 1 and c.bool():
            ax = ax[0]
        fn = (lambda ns, x: ns.squeeze(x, axis=ax)) if c.bool() or r == 0 else (lambda ns, x: x.squeeze(ax))
    return Call("s:squeeze", fn, [s], desc=["squeeze", list(s), ax], feats={"fn": "squeeze", "axis": repr(ax)})


@template("s:expand_dims", "shape")
def _t_expand(c):
    s = c.shape(0, 3)
    nd = len(s) + 1
    if c.chance(1, 3):
        k = c.int(1, 2)
        tot = len(s) + k
        ax = tuple(c.signed_axis(a, tot) for a in c.sample(range(tot), k))
    else:
        ax = c.int(-nd, nd - 1)
    return Call("s:expand_dims", lambda ns, x: ns.expand_dims(x, ax), [s], desc=["expand_dims", list(s), ax],
                feats={"fn": "expand_dims", "tuple": isinstance(ax, tuple)})


@template("s:transpose", "shape", weight=2)
def _t_transpose(c):
    s = c.shape(0, 4)
    nd = len(s)
    form = c.int(0, 4)  # 0 no axes, 1 axes func, 2 .T, 3 method star, 4 method tuple
    if nd == 0:
        form = 0
    p = None
    if form in (1, 3, 4):
        p = tuple(c.signed_axis(a, nd) if c.chance(1, 3) else a for a in c.perm(nd))
    if form == 0:
        fn = lambda ns, x: ns.transpose(x)
    elif form == 1:
        fn = lambda ns, x: ns.transpose(x, p)
    elif form == 2:
        fn = lambda ns, x: x.T
    elif form == 3:
        fn = lambda ns, x: x.transpose(*p)
    else:
        fn = lambda ns, x: x.transpose(p)
    return Call("s:transpose", fn, [s], desc=["transpose", list(s), p, form],
                feats={"fn": "transpose", "form": form, "axes_neg": bool(p) and any(a < 0 for a in p), "ndim": nd})


@template("s:swapaxes", "shape")
def _t_swap(c):
    s = c.shape(1, 4)
    nd = len(s)
    a, b = c.int(-nd, nd - 1), c.int(-nd, nd - 1)
    fn = (lambda ns, x: ns.swapaxes(x, a, b)) if c.bool() else (lambda ns, x: x.swapaxes(a, b))
    return Call("s:swapaxes", fn, [s], desc=["swapaxes", list(s), a, b], feats={"fn": "swapaxes"})


@template("s:moveaxis", "shape")
def _t_move(c):
    s = c.shape(1, 4)
    nd = len(s)
    k = c.int(1, nd)
    src = [c.signed_axis(a, nd) for a in c.sample(range(nd), k)]
    dst = [c.signed_axis(a, nd) for a in c.sample(range(nd), k)]
    if k == 1 and c.bool():
        src, dst = src[0], dst[0]
    return Call("s:moveaxis", lambda ns, x: ns.moveaxis(x, src, dst), [s], desc=["moveaxis", list(s), src, dst],
                feats={"fn": "moveaxis", "k": k})


@template("s:rollaxis", "shape")
def _t_rollaxis(c):
    s = c.shape(1, 4)
    nd = len(s)
    a = c.int(-nd, nd - 1)
    st = c.int(-nd, nd)
    return Call("s:rollaxis", lambda ns, x: ns.rollaxis(x, a, st), [s], desc=["rollaxis", list(s), a, st],
                feats={"fn": "rollaxis", "axis_neg": a < 0, "start_neg": st < 0})


@template("s:roll", "shape")
def _t_roll(c):
    s = c.shape(0, 3)
    nd = len(s)
    k = c.int(0, 2) if nd else 0
    if k == 0:
        sh = c.int(-3, 3)
        return Call("s:roll", lambda ns, x: ns.roll(x, sh), [s], desc=["roll", list(s), sh, None], feats={"fn": "roll", "axis": "none"})
    if k == 1:
        a, sh = c.axis(nd), c.int(-3, 3)
        return Call("s:roll", lambda ns, x: ns.roll(x, sh, axis=a), [s], desc=["roll", list(s), sh, a], feats={"fn": "roll", "axis": "int"})
    n = c.int(1, nd)
    axs = tuple(c.signed_axis(a, nd) for a in c.sample(range(nd), n))
    shs = tuple(c.int(-2, 2) for _ in axs)
    return Call("s:roll", lambda ns, x: ns.roll(x, shs, axis=axs), [s], desc=["roll", list(s), shs, axs], feats={"fn": "roll", "axis": "tuple"})


@template("s:flip", "shape")
def _t_flip(c):
    w = c.choice(["flipud", "fliplr"])
    s = c.shape(2 if w == "fliplr" else 1, 3)
    return Call("s:flip", lambda ns, x: getattr(ns, w)(x), [s], desc=[w, list(s)], feats={"fn": w})


@template("s:rot90", "shape")
def _t_rot90(c):
    s = c.shape(2, 3)
    k = c.int(-4, 5)
    form = c.int(0, 2)
    if form == 0:
        fn = lambda ns, x: ns.rot90(x, k)
    elif form == 1:
        fn = lambda ns, x: ns.rot90(x)
    else:
        nd = len(s)
        a, b = c.sample(range(nd), 2)
        axes = (c.signed_axis(a, nd), c.signed_axis(b, nd))
        fn = lambda ns, x: ns.rot90(x, k, axes)
    return Call("s:rot90", fn, [s], desc=["rot90", list(s), k, form], feats={"fn": "rot90", "form": form, "k": k})


@template("s:repeat", "shape", weight=2)
def _t_repeat(c):
    s = c.shape(0, 3)
    nd = len(s)
    reps = c.int(1, 3)
    k = c.int(0, 2) if nd else 0
    ax = None if k == 0 else c.int(0, nd - 1) if k == 1 else c.int(-nd, -1)
    arr_reps = c.chance(1, 5)
    if arr_reps:
        n = _sz(s) if ax is None else s[ax]
        reps = [c.int(0, 2) for _ in range(n)]
    form = c.int(0, 1)
    if form == 1 and nd:
        fn = lambda ns, x: x.repeat(reps, axis=ax)
    else:
        fn = lambda ns, x: ns.repeat(x, reps, axis=ax)
    return Call("s:repeat", fn, [s], desc=["repeat", list(s), reps, ax, form],
                feats={"fn": "repeat", "axis": "none" if ax is None else ("neg" if ax < 0 else "pos"), "array_reps": arr_reps, "ndim": nd})


@template("s:tile", "shape", weight=2)
def _t_tile(c):
    s = c.shape(0, 3)
    k = c.int(0, 4)
    reps = c.int(1, 3) if k == 0 else tuple(c.int(1, 2) for _ in range(k))
    nreps = 1 if k == 0 else k
    return Call("s:tile", lambda ns, x: ns.tile(x, reps), [s], desc=["tile", list(s), reps],
                feats={"fn": "tile", "scalar_reps": k == 0, "nreps": nreps, "ndim": len(s)})


@template("s:broadcast_to", "shape")
def _t_bcast(c):
    tgt = c.shape(1, 4)
    s = c.bshape(tgt)
    if len(s) < len(tgt) and c.bool():  # extra leading dims raise in reverse mode: keep them to half of the cases
        s = (1,) * (len(tgt) - len(s)) + s
    return Call("s:broadcast_to", lambda ns, x: ns.broadcast_to(x, tgt), [s], desc=["broadcast_to", list(s), list(tgt)],
                feats={"fn": "broadcast_to", "extra_dims": len(tgt) - len(s)})


@template("s:atleast", "shape")
def _t_atleast(c):
    s = c.shape(0, 4)
    w = c.choice(["atleast_1d", "atleast_2d", "atleast_3d"])
    return Call("s:atleast", lambda ns, x: getattr(ns, w)(x), [s], desc=[w, list(s)], feats={"fn": w, "ndim": len(s)})


@template("s:diag", "shape")
def _t_diag(c):
    if c.bool():
        s = (c.int(1, 4),)
    else:
        s = (c.int(1, 3), c.int(1, 3))
    k = c.int(-2, 2)
    return Call("s:diag", lambda ns, x: ns.diag(x, k), [s], desc=["diag", list(s), k],
                feats={"fn": "diag", "ndim": len(s), "square": len(s) == 2 and s[0] == s[1], "k": k})


@template("s:diagonal", "shape", weight=2)
def _t_diagonal(c):
    s = c.shape(2, 4)
    nd = len(s)
    off = c.int(-1, 1)
    form = 4 if c.bool() else c.int(0, 3)
    if form == 4:  # the configuration the reverse rule supports
        off = 0
        fn = lambda ns, x: ns.diagonal(x, 0, -1, -2) if nd > 2 or c_kw else ns.diagonal(x, axis1=-1, axis2=-2)
        c_kw = c.bool()
        a1, a2 = -1, -2
    elif form == 0:
        fn = lambda ns, x: ns.diagonal(x)
        a1, a2 = 0, 1
    elif form == 1:
        fn = lambda ns, x: ns.diagonal(x, off)
        a1, a2 = 0, 1
    else:
        a1, a2 = c.sample(range(nd), 2)
        a1, a2 = c.signed_axis(a1, nd), c.signed_axis(a2, nd)
        if form == 2:
            fn = lambda ns, x: ns.diagonal(x, off, a1, a2)
        else:
            fn = lambda ns, x: x.diagonal(offset=off, axis1=a1, axis2=a2)
    return Call("s:diagonal", fn, [s], desc=["diagonal", list(s), off, a1, a2, form],
                feats={"fn": "diagonal", "form": form, "offset": off, "axis1": a1, "axis2": a2, "ndim": nd,
                       "square": s[a1] == s[a2]})


@template("s:make_diagonal", "shape")
def _t_make_diagonal(c):
    s = c.shape(1, 3)
    return Call("s:make_diagonal", lambda ns, x: ns.make_diagonal(x, offset=0, axis1=-1, axis2=-2), [s],
                desc=["make_diagonal", list(s)], feats={"fn": "make_diagonal"})


@template("s:trace", "shape")
def _t_trace(c):
    s = c.shape(2, 4)
    off = c.int(-1, 1)
    form = c.int(0, 3)
    if form == 0:
        fn = lambda ns, x: ns.trace(x)
    elif form == 1:
        fn = lambda ns, x: ns.trace(x, off)
    elif form == 2:
        fn = lambda ns, x: x.trace(offset=off)
    else:
        nd = len(s)
        a1, a2 = c.sample(range(nd), 2)
        fn = lambda ns, x: ns.trace(x, off, a1, a2)
    return Call("s:trace", fn, [s], desc=["trace", list(s), off, form], feats={"fn": "trace", "form": form, "ndim": len(s)})


@template("s:tri", "shape")
def _t_tri(c):
    s = c.shape(1, 3)
    k = c.int(-2, 2)
    w = c.choice(["triu", "tril"])
    fn = (lambda ns, x: getattr(ns, w)(x, k)) if c.bool() else (lambda ns, x: getattr(ns, w)(x, k=k))
    return Call("s:tri", fn, [s], desc=[w, list(s), k], feats={"fn": w, "ndim": len(s)})


@template("s:pad", "shape")
def _t_pad(c):
    s = c.shape(1, 3)
    k = c.int(0, 6)
    if k == 0:
        w = c.int(0, 2)
    elif k == 1:
        w = (c.int(0, 2), c.int(0, 2))
    elif k == 2:
        w = tuple((c.int(0, 2), c.int(0, 2)) for _ in s)
    elif k == 3:
        w = ((c.int(0, 2), c.int(0, 2)),)
    elif k == 4:
        w = (c.int(0, 2),)  # one number in a sequence: the same width before and after on every axis
    elif k == 5:
        w = [[c.int(0, 2), c.int(0, 2)] for _ in s]  # lists instead of tuples
    else:
        w = onp.array([[c.int(0, 2), c.int(0, 2)] for _ in s])  # an integer array
    mode = "constant" if not c.chance(1, 4) else c.choice(["edge", "reflect", "wrap", "symmetric", "linear_ramp", "mean", "maximum", "minimum", "median"])
    kw = {}
    if mode == "constant" and c.chance(1, 3):
        kw["constant_values"] = c.choice([0.7, (0.4, -1.1), 0])
    if mode in ("reflect", "symmetric") and c.bool():
        kw["reflect_type"] = "odd"
    if mode == "linear_ramp" and c.bool():
        kw["end_values"] = c.choice([0.7, (0.4, -1.1)])
    if mode in ("mean", "maximum", "minimum", "median") and c.bool():
        kw["stat_length"] = c.int(1, 2)
    form = c.int(0, 2)
    if form == 0:
        fn = lambda ns, x: ns.pad(x, w, mode, **kw)
    elif form == 1:
        fn = lambda ns, x: ns.pad(x, w, mode=mode, **kw)
    else:
        fn = (lambda ns, x: ns.pad(x, w, **kw)) if mode == "constant" else (lambda ns, x: ns.pad(x, pad_width=w, mode=mode, **kw))
    return Call("s:pad", fn, [s], desc=["pad", list(s), w.tolist() if isinstance(w, onp.ndarray) else w, mode, kw, form],
                feats={"fn": "pad", "wkind": k, "mode": mode, "constant_values": "constant_values" in kw, "form": form})


@template("s:split", "shape", weight=2)
def _t_split(c):
    w = c.choice(["split", "array_split", "vsplit", "hsplit", "dsplit"])
    minr = {"vsplit": 2, "hsplit": 1, "dsplit": 3}.get(w, 1)
    s = c.shape(minr, max(3, minr), max_side=4)
    nd = len(s)
    if w == "vsplit":
        ax = 0
    elif w == "hsplit":
        ax = 1 if nd > 1 else 0
    elif w == "dsplit":
        ax = 2
    else:
        ax = c.axis(nd)
    n = s[ax]
    if c.bool():
        sec = c.choice([d for d in range(1, n + 1) if n % d == 0] if w != "array_split" else list(range(1, n + 2)))
    else:
        # cut points as NumPy takes them: any order, repeated, negative or beyond the end (piece i is x[cut[i]:cut[i + 1]], so pieces may be
        # empty or overlap); half of the cases keep the everyday increasing form
        sec = [c.int(-n, n + 1) for _ in range(c.int(1, 3))]
        if c.bool():
            sec = sorted(abs(k) for k in sec)
        if c.chance(1, 4):
            sec = tuple(sec) if c.bool() else onp.array(sec)
    if w in ("split", "array_split"):
        fn = lambda ns, x: flat_parts(ns, getattr(ns, w)(x, sec, axis=ax))
    else:
        fn = lambda ns, x: flat_parts(ns, getattr(ns, w)(x, sec))
    return Call("s:split", fn, [s], desc=[w, list(s), sec if isinstance(sec, int) else [int(k) for k in sec], ax],
                feats={"fn": w, "axis_neg": ax < 0, "sec_list": not isinstance(sec, int), "sec_kind": type(sec).__name__})


@template("s:concatenate", "shape", weight=2)
def _t_concat(c):
    s = c.shape(1, 3)
    nd = len(s)
    ax = c.axis(nd)
    s2 = list(s)
    s2[ax] = c.int(1, 3)
    s2 = tuple(s2)
    const = onp.ones(s) * 0.5
    order = c.int(0, 3)
    seqs = [lambda x, y: [x, const, y, x], lambda x, y: (y, x), lambda x, y: [const, x, y], lambda x, y: [x, y, y, const]]
    mk = seqs[order]
    form = c.int(0, 2)
    if form == 0:
        fn = lambda ns, x, y: ns.concatenate(mk(x, y), axis=ax)
    elif form == 1:
        fn = lambda ns, x, y: ns.concatenate(mk(x, y), ax)
    else:
        fn = (lambda ns, x, y: ns.concatenate(mk(x, y))) if ax in (0, -nd) else (lambda ns, x, y: ns.concatenate(mk(x, y), axis=ax))
    return Call("s:concatenate", fn, [s, s2], desc=["concatenate", list(s), list(s2), ax, order, form],
                feats={"fn": "concatenate", "axis_neg": ax < 0, "order": order}, nosame=True)


@template("s:stack", "shape", weight=3)
def _t_stack(c):
    w = c.choice(["stack", "vstack", "row_stack", "hstack", "column_stack", "append", "array"])
    s = c.shape(0, 3)
    const = onp.ones(s) * 0.5
    if w == "stack":
        ax = c.int(-len(s) - 1, len(s))
        form = c.int(0, 1)
        fn = (lambda ns, x, y: ns.stack([x, y, const, x], axis=ax)) if form == 0 else (lambda ns, x, y: ns.stack((y, x), ax))
        desc = [w, list(s), ax, form]
    elif w == "append":
        ax = None if not s or c.bool() else c.axis(len(s))
        fn = lambda ns, x, y: ns.append(x, y, axis=ax)
        desc = [w, list(s), ax]
    elif w == "array":
        k = c.int(0, 2)
        if k == 0:
            fn = lambda ns, x, y: ns.array([x, y, const])
        elif k == 1:
            fn = lambda ns, x, y: ns.array([[x, y], [const, x]])
        else:
            nm = c.int(0, 4)
            fn = lambda ns, x, y: ns.array((x, y), ndmin=nm)
        desc = [w, list(s), k]
    else:
        if w == "row_stack" and not hasattr(onp, "row_stack"):
            w = "vstack"
        fn = lambda ns, x, y: getattr(ns, w)([x, const, y])
        desc = [w, list(s)]
    return Call("s:stack", fn, [s, s], desc=desc, feats={"fn": w, "ndim": len(s)})


@template("s:array1", "shape")
def _t_array1(c):
    s = c.shape(0, 3)
    nm = c.int(0, 4)
    kw = {"ndmin": nm} if nm else {}
    dt = c.choice([None, None, "complex", "float64"])  # a complex result type requested for (possibly) real input
    if dt:
        kw["dtype"] = complex if dt == "complex" else onp.float64
    wrap = c.int(0, 3)  # 0: the array itself, 1: a list holding it, 2: a tuple of it and a constant row, 3: nested lists of its rows
    if wrap == 1:
        fn = lambda ns, x: ns.array([x], **kw)
    elif wrap == 2:
        fn = lambda ns, x: ns.array((x, 0.5 * onp.ones(s)), **kw)
    elif wrap == 3 and len(s) >= 1:
        fn = lambda ns, x: ns.array([[r, r] for r in x], **kw)
    else:
        fn = lambda ns, x: ns.array(x, **kw)
    return Call("s:array1", fn, [s], desc=["array", list(s), nm, dt, wrap], feats={"fn": "array", "ndmin": nm, "ndim": len(s), "dtype": dt, "wrap": wrap},
                cplx=dt != "float64")


@template("s:r_c_", "shape")
def _t_rc(c):
    k = c.int(0, 4)
    n = c.int(1, 3)
    s = (n,)
    const = onp.linspace(0.2, 0.9, n)
    if k == 0:
        fn = lambda ns, x, y: ns.r_[x, const, y]
    elif k == 1:
        fn = lambda ns, x, y: ns.r_[x, 0:2, y]
    elif k == 2:
        fn = lambda ns, x, y: ns.c_[x, y, const]
    elif k == 3:
        fn = lambda ns, x, y: ns.r_["0,2", x, y]
    else:
        fn = lambda ns, x, y: ns.r_["-1", x, y]
    return Call("s:r_c_", fn, [s, s], desc=["r_c_", k, n], feats={"fn": "r_c_", "k": k})


@template("s:select", "shape", weight=2)
def _t_select(c):
    res = c.shape(1, 2)
    bc = c.bool()  # conditions / choices of different (broadcasting) shapes
    sa, sb = (c.bshape(res), c.bshape(res)) if bc else (res, res)

    def cond():
        sh = c.bshape(res) if bc and c.bool() else res
        n = _sz(sh)
        bits = c.int(0, 2 ** min(n, 12) - 1)
        return onp.array([(bits >> (i % 12)) & 1 for i in range(n)], dtype=bool).reshape(sh), bits

    (cond1, b1), (cond2, b2) = cond(), cond()
    k = c.int(0, 2)
    if k == 0:
        return Call("s:select", lambda ns, x, y: ns.select([cond1, cond2], [x, y], default=0.25), [sa, sb],
                    desc=["select", list(res), list(sa), list(sb), list(cond1.shape), list(cond2.shape), b1, b2], feats={"fn": "select", "broadcast": bc, "form": "xy"})
    if k == 1:
        return Call("s:select", lambda ns, x: ns.select((cond1, cond2), (x, 1.5)), [sa],
                    desc=["select", list(res), list(sa), "k", list(cond1.shape), list(cond2.shape), b1, b2], feats={"fn": "select", "broadcast": bc, "form": "xk"})
    return Call("s:select", lambda ns, x: ns.select([cond1, cond2, ~cond1], [x, 2.0 * x, x * x], 0.0), [sa],
                desc=["select", list(res), list(sa), "xxx", list(cond1.shape), list(cond2.shape), b1, b2], feats={"fn": "select", "broadcast": bc, "form": "xxx"})


@template("s:where", "shape", weight=2)
def _t_where(c):
    res = c.shape(0, 3)
    sa, sb = c.bshape(res), c.bshape(res)
    n = _sz(res)
    bits = c.int(0, 2 ** min(n, 12) - 1)
    cond = onp.array([(bits >> (i % 12)) & 1 for i in range(n)], dtype=bool).reshape(res)
    if c.chance(1, 4):  # the condition itself has a smaller, broadcasting shape
        sc = c.bshape(res)
        cond = cond.ravel()[:_sz(sc)].reshape(sc)
    k = c.int(0, 3)  # 0 both arrays differentiated, 1 y python scalar, 2 x python scalar, 3 the condition itself is traced
    if k == 3:
        # a float array used as its own mask: it sits in the non-differentiable slot and in a differentiable one
        return Call("s:where", lambda ns, x, y: ns.where(x, x * 0.5, y), [sa, sb], dom=(0.3, 2.0),
                    desc=["where", list(res), "cond=x", list(sa), list(sb)],
                    feats={"fn": "where", "a_shape": list(sa), "b_shape": list(sb), "res_shape": list(res), "const": "cond"})
    if k == 0:
        return Call("s:where", lambda ns, x, y: ns.where(cond, x, y), [sa, sb], desc=["where", list(res), list(sa), list(sb), bits, list(cond.shape)],
                    feats={"fn": "where", "a_shape": list(sa), "b_shape": list(sb), "res_shape": list(res), "const": None})
    if k == 1:
        return Call("s:where", lambda ns, x: ns.where(cond, x, 0.3), [sa], desc=["where", list(res), list(sa), "k", bits, list(cond.shape)],
                    feats={"fn": "where", "a_shape": list(sa), "res_shape": list(res), "const": "y"})
    return Call("s:where", lambda ns, y: ns.where(cond, 0.3, y), [sb], desc=["where", list(res), "k", list(sb), bits, list(cond.shape)],
                feats={"fn": "where", "a_shape": list(sb), "res_shape": list(res), "const": "x"})


@template("s:clip", "shape", has_kink=True, weight=2)
def _t_clip(c):
    LO, HI = (-0.7, -0.3), (0.6, 0.9)
    if c.chance(1, 2):
        s = c.shape(0, 3)
        lo, hi = c.choice([(-0.7, 0.9), (-0.3, 0.6), (None, 0.6), (-0.7, None)])
        bk = "scalar"
    else:
        # array bounds (constants): same shape, lower rank, or larger than x - NumPy broadcasts x against them
        res = c.shape(1, 3)
        s = c.bshape(res) if c.bool() else res
        def bound(vals):
            k = c.int(0, 3)
            if k == 0:
                return None
            if k == 1:
                return vals[c.int(0, 1)]
            sh = c.bshape(res) if k == 2 else res
            n = _sz(sh)
            bits = c.int(0, 2 ** min(n, 10) - 1)
            return onp.array([vals[(bits >> (i % 10)) & 1] for i in range(n)]).reshape(sh)
        lo, hi = bound(LO), bound(HI)
        if lo is None and hi is None:
            hi = onp.full(res, HI[1])
        bk = "array"
    form = c.int(0, 2)
    if form == 0 or not s:
        fn = lambda ns, x: ns.clip(x, lo, hi)
    elif form == 1:
        fn = lambda ns, x: x.clip(lo, hi)
    else:
        fn = lambda ns, x: ns.clip(x, a_min=lo, a_max=hi)
    show = lambda b_: b_.tolist() if isinstance(b_, onp.ndarray) else b_
    return Call("s:clip", fn, [s], avoid=LO + HI, desc=["clip", list(s), show(lo), show(hi), form],
                feats={"fn": "clip", "lo": show(lo) if bk == "scalar" else None, "hi": show(hi) if bk == "scalar" else None, "form": form, "bounds": bk,
                       "bound_rank": max(onp.ndim(lo) if lo is not None else 0, onp.ndim(hi) if hi is not None else 0), "x_rank": len(s)}, cplx=False)


@template("s:full", "shape")
def _t_full(c):
    s = c.shape(0, 2)
    lead = c.shape(0, 2)
    tgt = lead + s if c.bool() or not s else lead + tuple(d for d in s)
    if isinstance(tgt, tuple) and len(tgt) == 1 and c.bool():
        tgt = tgt[0]
    return Call("s:full", lambda ns, x: ns.full(tgt, x), [s], desc=["full", list(s), tgt],
                feats={"fn": "full", "fill_ndim": len(s)})


@template("s:linspace", "shape")
def _t_linspace(c):
    res = c.shape(0, 2)
    s, s2 = c.bshape(res), c.bshape(res)
    n = c.int(1, 5)
    form = c.int(0, 1)
    fn = (lambda ns, x, y: ns.linspace(x, y, n)) if form == 0 else (lambda ns, x, y: ns.linspace(x, y, num=n))
    return Call("s:linspace", fn, [s, s2], desc=["linspace", list(s), list(s2), n, form],
                feats={"fn": "linspace", "ndim": len(s), "form": form, "broadcast": s != s2})


@template("s:diff", "shape")
def _t_diff(c):
    s = c.shape(1, 3, max_side=4)
    nd = len(s)
    ax = c.axis(nd)
    n = c.int(0, 3)
    form = c.int(0, 3)
    if form == 0:
        fn = lambda ns, x: ns.diff(x, n, ax)
    elif form == 1:
        fn = lambda ns, x: ns.diff(x, n=n, axis=ax)
    elif form == 3:
        # constant boundary values joined on before differencing (affine in x: the constants must not reach the derivative)
        kw = {}
        edge = list(s)
        edge[ax] = 1
        for name_ in ("prepend", "append"):
            k_ = c.int(0, 2)
            if k_ == 1:
                kw[name_] = 0.7
            elif k_ == 2:
                kw[name_] = onp.full(edge, -1.3)
        if not kw:
            kw["prepend"] = 0.7
        n = max(n, 1)
        fn = lambda ns, x: ns.diff(x, n=n, axis=ax, **kw)
    else:
        fn = (lambda ns, x: ns.diff(x)) if True else None
        n, ax = 1, -1
    return Call("s:diff", fn, [s], desc=["diff", list(s), n, ax, form],
                feats={"fn": "diff", "n": n, "len": s[ax], "n_ge_len": n >= s[ax], "axis_neg": ax < 0})


@template("s:gradient", "shape")
def _t_gradient(c):
    s = c.shape(1, 3, max_side=5, min_side=2 if c.chance(1, 4) else 3)
    nd = len(s)
    k = c.int(0, 2)
    if k == 0:
        fn = lambda ns, x: ns.stack(ns.gradient(x)) if nd > 1 else ns.gradient(x)
        ax = None
    elif k == 1:
        ax = c.axis(nd)
        fn = lambda ns, x: ns.gradient(x, axis=ax)
    else:
        n = c.int(1, nd)
        ax = tuple(c.signed_axis(a, nd) for a in c.sample(range(nd), n))
        if len(ax) > 1 and c.bool():
            ax = ax[::-1]  # the axes in any order (NumPy returns one array per entry, in the order written)
        fn = lambda ns, x: ns.stack(ns.gradient(x, axis=ax)) if len(ax) > 1 else ns.gradient(x, axis=ax)
    return Call("s:gradient", fn, [s], desc=["gradient", list(s), ax], feats={"fn": "gradient", "axis_kind": k})


@template("s:sort", "shape", weight=2)
def _t_sort(c):
    s = c.shape(1, 3, max_side=4)
    nd = len(s)
    w = c.choice(["sort", "partition"])
    ak = c.int(0, 4)  # axis: absent / int keyword / int positional / None keyword / None positional
    ax = c.axis(nd) if ak in (1, 2) else (None if ak >= 3 else -1)
    kw = {"axis": ax} if ak in (1, 3) else {}
    pos = (ax,) if ak in (2, 4) else ()
    if c.chance(1, 5):
        kw["kind"] = c.choice(["stable", "quicksort", None]) if w == "sort" else "introselect"
    feats = {"fn": w, "ndim": nd, "axis_form": ["absent", "int_kw", "int_pos", "none_kw", "none_pos"][ak]}
    if w == "sort":
        return Call("s:sort", lambda ns, x: ns.sort(x, *pos, **kw), [s], desc=["sort", list(s), ak, ax, kw.get("kind", "-")], feats=feats)
    n = int(onp.prod(s)) if ax is None else s[ax]
    k = c.int(-n, n - 1)
    return Call("s:sort", lambda ns, x: ns.partition(x, k, *pos, **kw), [s], desc=["partition", list(s), k, ak, ax], feats=feats)


@template("s:astype", "shape")
def _t_astype(c):
    s = c.shape(1, 3)
    dt = c.choice(["float64", "complex128"])
    k = c.int(0, 3)
    if k == 0 and len(s) >= 2:
        # followed by a read in memory order: the result of astype keeps the layout of its operand (order='K' is its default)
        fn = lambda ns, x: ns.ravel(x.astype(dt), order="K")
    elif k == 1:
        fn = lambda ns, x: x.astype(dt, order="C")
    elif k == 2 and len(s) >= 2:
        fn = lambda ns, x: ns.ravel(x.astype(dt, "F"), order="A")
    else:
        fn = lambda ns, x: x.astype(dt)
    return Call("s:astype", fn, [s], desc=["astype", list(s), dt, k], feats={"fn": "astype", "dtype": dt, "form": k}, cplx=dt == "complex128")


@template("s:getitem", "shape", weight=2)
def _t_getitem(c):
    """A light indexing template (the full index grammar is exercised by C11)."""
    s = c.shape(1, 3, max_side=4)
    idx = []
    for d in s:
        k = c.int(0, 4)
        if k == 0:
            idx.append(slice(None))
        elif k == 1:
            idx.append(c.int(-d, d - 1))
        elif k == 2:
            idx.append(slice(c.int(0, d - 1), None, c.choice([1, 2, -1])))
        elif k == 3:
            idx.append([c.int(-d, d - 1) for _ in range(c.int(1, 3))])
            break
        else:
            idx.append(None)
            idx.append(slice(None))
    idx = tuple(idx)
    return Call("s:getitem", lambda ns, x: x[idx], [s], desc=["getitem", list(s), repr(idx)], feats={"fn": "getitem"})
