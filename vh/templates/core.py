"""Call templates: one way of calling one exported function, with its configuration drawn from a Case.

A template's draw function returns a `Call`:
    fn(ns, *xs)   applies the function taken from namespace `ns` (NP = raw NumPy, AG = autograd.numpy)
    shapes        shapes of the differentiable arguments (values are built by values.generic)
    dom / doms    smooth, well-scaled domain (shared grid) or per-argument domains
    prep(xs)      optional raw-NumPy post-processing of the drawn values (conditioning of matrices, ...)
    feats         feature dictionary (used by known-finding `when` expressions and distinctness keys)
"""
import numpy as onp

from .. import env, values


class NS:
    """Namespace proxy: attribute access falls through to the wrapped numpy-like module."""

    def __init__(self, mod, **extra):
        self._mod = mod
        self.__dict__.update(extra)

    def __getattr__(self, k):
        return getattr(self._mod, k)


_NS = {}


def namespaces():
    if not _NS:
        env.load_autograd()
        import autograd.numpy as anp

        sig = env.load_signal()
        _NS["NP"] = NS(onp, is_ag=False, sig_convolve=sig.convolve.fun, make_diagonal=anp.make_diagonal.fun)
        _NS["AG"] = NS(anp, is_ag=True, sig_convolve=sig.convolve, make_diagonal=anp.make_diagonal)
    return _NS["NP"], _NS["AG"]


class Call:
    def __init__(self, name, fn, shapes, dom=(-2.0, 2.0), doms=None, desc=None, feats=None, avoid=(), prep=None,
                 cplx=True, margin=0.08, nosame=False, kink=None, cdom=None):
        self.name = name
        self.fn = fn
        self.shapes = [tuple(s) for s in shapes]
        self.dom = dom
        self.doms = doms
        self.desc = desc
        self.feats = dict(feats or {})
        self.avoid = tuple(avoid)
        self.prep = prep
        self.cplx = cplx  # may its differentiable arguments be complex (for C09)?
        self.margin = margin
        self.nosame = nosame
        self.kink = kink  # callable(xs, case) -> xs at an explicitly handled non-smooth point
        self.cdom = cdom  # real-part domain of COMPLEX arguments (their imaginary parts stay 0.3 away from the real axis)


class TemplateDef:
    def __init__(self, name, draw, family, weight=1, has_kink=False):
        self.name = name
        self.draw = draw
        self.family = family
        self.weight = weight
        self.has_kink = has_kink


TEMPLATES = {}


def complex_capable(tdef, tries=12):
    """Can this template draw a Call whose differentiable arguments may be complex?  (probed with fixed choice streams)"""
    from ..case import ReplayCase

    class Probe(ReplayCase):
        def __init__(self, k):
            super().__init__([])
            self._k = k
            self._n = 0

        def _draw(self, lo, hi):
            self._n += 1
            return lo + (self._k * 7919 + self._n * 104729) % (hi - lo + 1)

    for k in range(tries):
        try:
            if tdef.draw(Probe(k)).cplx:
                return True
        except Exception:
            continue
    return False


def binary_complex_capable(tdef, tries=12):
    """Does this template mostly draw complex-capable Calls with at least two differentiable arguments (a partner operand)?"""
    from ..case import ReplayCase

    class Probe(ReplayCase):
        def __init__(self, k):
            super().__init__([])
            self._k = k
            self._n = 0

        def _draw(self, lo, hi):
            self._n += 1
            return lo + (self._k * 7919 + self._n * 104729) % (hi - lo + 1)

    good = drawn = 0
    for k in range(tries):
        try:
            call = tdef.draw(Probe(k))
        except Exception:
            continue
        drawn += 1
        good += bool(call.cplx and len(call.shapes) >= 2)
    return drawn > 0 and 2 * good >= drawn


def template(name, family, weight=1, has_kink=False):
    def deco(fn):
        TEMPLATES[name] = TemplateDef(name, fn, family, weight, has_kink)
        return fn

    return deco


CARRIERS = ["array0d", "pyfloat", "npfloat"]


def carry(val, kind):
    """Wrap a 0-d value in the chosen carrier kind."""
    a = onp.asarray(val)
    if kind == "pyfloat":
        return complex(a) if a.dtype.kind == "c" else float(a)
    if kind == "npfloat":
        return onp.complex128(a) if a.dtype.kind == "c" else onp.float64(a)
    return a


class Inst:
    """A concrete, fully built case of a template: values, differentiated position, carriers."""

    def __init__(self, call, xs, argsel, sep, vseed, carriers, cmask):
        self.call = call
        self.xs = xs
        self.argsel = argsel  # int, or tuple of positions bound to the same value
        self.sep = sep
        self.vseed = vseed
        self.carriers = carriers
        self.cmask = cmask
        self.h0 = min(0.02, sep / 4)

    @property
    def x(self):
        a = self.argsel if isinstance(self.argsel, int) else self.argsel[0]
        return self.xs[a]

    def _args(self, x):
        pos = (self.argsel,) if isinstance(self.argsel, int) else self.argsel
        return [x if i in pos else self.xs[i] for i in range(len(self.xs))]

    def f(self, ns):
        if getattr(ns, "is_ag", False):
            return lambda x: self.call.fn(ns, *self._args(x))
        # raw-NumPy side (oracles evaluate it at perturbed points): every point gets the memory layout of the case's own argument,
        # so that layout-dependent options (order='A' / 'K') mean the same function at x and at x + t v
        a = self.argsel if isinstance(self.argsel, int) else self.argsel[0]
        key = values.layout_key(self.vseed, 900, a)
        return lambda x: self.call.fn(ns, *self._args(values.relayout(x, key) if isinstance(x, onp.ndarray) else x))

    def x_carried(self):
        a = self.argsel if isinstance(self.argsel, int) else self.argsel[0]
        return carry(self.x, self.carriers[a]) if onp.ndim(self.x) == 0 else self.x

    def describe(self):
        return {
            "template": self.call.name, "desc": self.call.desc, "shapes": [list(s) for s in self.call.shapes],
            "argsel": self.argsel, "carriers": self.carriers, "complex": self.cmask, "vseed": self.vseed,
        }


def instantiate(case, call, allow_complex=False, force_complex=False):
    """Draw differentiated position, carriers, complex mask and values for a Call."""
    n = len(call.shapes)
    opts = list(range(n))
    if n >= 2 and call.shapes[0] == call.shapes[1] and not call.nosame:
        opts.append((0, 1))
    argsel = opts[case.int(0, len(opts) - 1)]
    carriers = []
    for s in call.shapes:
        carriers.append(CARRIERS[case.int(0, len(CARRIERS) - 1)] if len(s) == 0 else "ndarray")
    cmask = [False] * n
    if allow_complex and call.cplx:
        cmask = [case.bool() for _ in range(n)]
        if force_complex and not any(cmask):
            cmask[case.int(0, n - 1)] = True
        if isinstance(argsel, tuple):
            cmask[argsel[1]] = cmask[argsel[0]]
    vseed = case.seed()
    xs, sep = build_values(call, vseed, cmask)
    xs = [carry(x, k) if onp.ndim(x) == 0 and k != "array0d" else x for x, k in zip(xs, carriers)]
    for x in xs:
        if isinstance(x, onp.ndarray):
            x.flags.writeable = False
    case.features.update(call.feats)
    a0 = argsel if isinstance(argsel, int) else argsel[0]
    case.features.update(
        template=call.name, argnum=a0, same=isinstance(argsel, tuple), nargs=n,
        x_ndim=len(call.shapes[a0]), x_shape=list(call.shapes[a0]), carrier=carriers[a0],
        x_complex=cmask[a0], any_complex=any(cmask),
    )
    return Inst(call, xs, argsel, sep, vseed, carriers, cmask)


def build_values(call, vseed, cmask=None):
    n = len(call.shapes)
    cmask = cmask or [False] * n
    if call.doms is None:
        xs, sep = values.generic(vseed, call.shapes, call.dom[0], call.dom[1], avoid=call.avoid, margin=call.margin)
    else:
        xs, sep = [], 1.0
        for i, (s, d) in enumerate(zip(call.shapes, call.doms)):
            v, sp = values.generic(vseed, [s], d[0], d[1], stream=10 + i, avoid=call.avoid, margin=call.margin)
            xs.append(v[0])
            sep = min(sep, sp)
    if any(cmask):
        ims, _ = values.generic(vseed, call.shapes, -1.5, 1.5, stream=7, avoid=(0.0,), margin=0.3)
        if call.cdom is not None:
            res, _ = values.generic(vseed, call.shapes, call.cdom[0], call.cdom[1], stream=8, avoid=(0.0,), margin=0.3)
            xs = [re if c else x for x, re, c in zip(xs, res, cmask)]
        xs = [x + 1j * im if c else x for x, im, c in zip(xs, ims, cmask)]
    if call.prep is not None:
        xs = list(call.prep(xs))
    # same values, drawn memory layout (C / Fortran / strided view / negative stride / transposed storage)
    xs = [values.relayout(onp.asarray(x), values.layout_key(vseed, 900, i)) if onp.ndim(x) else x for i, x in enumerate(xs)]
    return xs, sep
