"""Unary / binary elementwise templates, operators, reductions and scans."""
import numpy as onp

from .core import Call, template

# name -> (domain, avoid points, complex capable)
UNARY = {
    "negative": ((-2, 2), (), True), "abs": ((-2, 2), (0.0,), True), "absolute": ((-2, 2), (0.0,), True),
    "fabs": ((-2, 2), (0.0,), False), "reciprocal": ((0.4, 2.5), (), True), "exp": ((-2, 2), (), True),
    "exp2": ((-2, 2), (), True), "expm1": ((-1.5, 1.5), (), True), "log": ((0.3, 3), (), True),
    "log2": ((0.3, 3), (), True), "log10": ((0.3, 3), (), True), "log1p": ((-0.5, 2), (), True),
    "sin": ((-2, 2), (), True), "cos": ((-2, 2), (), True), "tan": ((-1.2, 1.2), (), True),
    "arcsin": ((-0.8, 0.8), (), True), "arccos": ((-0.8, 0.8), (), True), "arctan": ((-2, 2), (), True),
    "sinh": ((-2, 2), (), True), "cosh": ((-2, 2), (), True), "tanh": ((-2, 2), (), True),
    "arcsinh": ((-2, 2), (), True), "arccosh": ((1.3, 3), (), True), "arctanh": ((-0.8, 0.8), (), True),
    "rad2deg": ((-2, 2), (), False), "degrees": ((-2, 2), (), False), "deg2rad": ((-2, 2), (), False),
    "radians": ((-2, 2), (), False), "square": ((-2, 2), (), True), "sqrt": ((0.3, 3), (), True),
    "sinc": ((-1.8, 1.8), (0.0,), True), "real": ((-2, 2), (), True), "imag": ((-2, 2), (), True),
    "conj": ((-2, 2), (), True), "conjugate": ((-2, 2), (), True), "angle": ((0.3, 2), (), True),
    "real_if_close": ((-2, 2), (), True), "nan_to_num": ((-2, 2), (), False),
}


LARGE_UNARY = {"tanh": (15.0, 25.0), "expm1": (-40.0, -30.0), "sinh": (20.0, 22.0), "cosh": (20.0, 22.0), "exp": (300.0, 302.0)}


def _mk_unary(name, dom, avoid, cplx):
    def draw(c):
        s = c.shape(0, 4)
        if name in LARGE_UNARY and c.chance(1, 6):
            d2 = LARGE_UNARY[name]
            return Call("u:" + name, lambda ns, x: getattr(ns, name)(x), [s], dom=d2, cplx=False, desc=[name, list(s), "large"],
                        feats={"fn": name, "scale": "large"})
        # complex arguments: anywhere in the plane at a distance from both axes (every branch cut and pole of these functions lies on an
        # axis), not only above the function's real domain
        return Call("u:" + name, lambda ns, x: getattr(ns, name)(x), [s], dom=dom, avoid=avoid, cplx=cplx, cdom=(-2.0, 2.0),
                    desc=[name, list(s)], feats={"fn": name})

    template("u:" + name, "unary", has_kink=name in ("abs", "absolute", "fabs"))(draw)


for _n, (_d, _a, _c) in UNARY.items():
    _mk_unary(_n, _d, _a, _c)


@template("u:op_neg_abs", "unary")
def _t_opneg(c):
    s = c.shape(0, 3)
    w = c.int(0, 1)
    fn = (lambda ns, x: -x) if w == 0 else (lambda ns, x: abs(x))
    return Call("u:op_neg_abs", fn, [s], avoid=(0.0,), desc=[["neg", "abs"][w], list(s)], feats={"op": ["neg", "abs"][w]})


# ---------------------------------------------------------------------------------------------
BINARY = {
    "add": ((-2, 2), True), "subtract": ((-2, 2), True), "multiply": ((-2, 2), True),
    "divide": ((0.4, 2.5), True), "true_divide": ((0.4, 2.5), True), "maximum": ((-2, 2), True),
    "minimum": ((-2, 2), True), "fmax": ((-2, 2), True), "fmin": ((-2, 2), True),
    "logaddexp": ((-2, 2), False), "logaddexp2": ((-2, 2), False), "power": ((0.4, 2.5), True),
    "arctan2": ((0.4, 2.5), False), "hypot": ((0.4, 2.5), False),
}


def _bshapes(c):
    res = c.shape(0, 3)
    sa, sb = c.bshape(res), c.bshape(res)
    return res, sa, sb


def _bfeats(name, sa, sb):
    return {
        "fn": name, "a_shape": list(sa), "b_shape": list(sb), "a_ndim": len(sa), "b_ndim": len(sb),
        "broadcast": sa != sb, "ones": (1 in sa) or (1 in sb),
    }


# large-magnitude regular points (a rule written with exp(x)/exp(ans) instead of exp(x - ans) overflows there although the
# derivative is a sigmoid); only domains where the oracle's absolute finite-difference step is still meaningful
LARGE = {"logaddexp": [(700.0, 712.0), (-800.0, -780.0), (-4.0, 4.0)], "logaddexp2": [(1000.0, 1030.0), (-1060.0, -1040.0), (-4.0, 4.0)]}


def _mk_binary(name, dom, cplx):
    def draw(c):
        res, sa, sb = _bshapes(c)
        if name in LARGE and c.chance(1, 3):
            # the two operands on the same large scale, or on far-apart scales (saturation: the smaller one no longer matters)
            hi, lo, mid = LARGE[name]
            d2, d3 = [(hi, hi), (lo, lo), (lo, mid), (mid, lo), (lo, hi), (hi, lo)][c.int(0, 5)]
            return Call("b:" + name, lambda ns, x, y: getattr(ns, name)(x, y), [sa, sb], doms=[d2, d3], cplx=False,
                        desc=[name, list(sa), list(sb), "large", list(d2), list(d3)],
                        feats=dict(_bfeats(name, sa, sb), scale="large", saturated=d2 != d3))
        if name == "power" and c.chance(1, 4):
            # a negative real base: only meaningful with a complex exponent (NumPy then promotes and the value is finite)
            return Call("b:" + name, lambda ns, x, y: getattr(ns, name)(x, y), [sa, sb], doms=[(-2.5, -0.4), (0.4, 2.5)], cplx=True, cdom=(-2.0, 2.0),
                        desc=[name, list(sa), list(sb), "negative base"], feats=dict(_bfeats(name, sa, sb), negative_base=True))
        return Call("b:" + name, lambda ns, x, y: getattr(ns, name)(x, y), [sa, sb], dom=dom, cplx=cplx, cdom=(-2.0, 2.0) if cplx else None,
                    desc=[name, list(sa), list(sb)], feats=_bfeats(name, sa, sb))

    template("b:" + name, "binary", has_kink=name in ("maximum", "minimum", "fmax", "fmin", "power"))(draw)


for _n, (_d, _c) in BINARY.items():
    _mk_binary(_n, _d, _c)


def _mk_mod(name):
    def draw(c):
        res, sa, sb = _bshapes(c)
        negx, negy = c.bool(), c.bool()

        def prep(xs):
            x, y = xs
            return [(-x if negx else x), (-y if negy else y)]

        return Call("b:" + name, lambda ns, x, y: getattr(ns, name)(x, y), [sa, sb],
                    doms=[(2.1, 2.3), (0.8, 0.95)], prep=prep, cplx=False,
                    desc=[name, list(sa), list(sb), negx, negy], feats=dict(_bfeats(name, sa, sb), negx=negx, negy=negy))

    template("b:" + name, "binary")(draw)


_mk_mod("mod")
_mk_mod("remainder")

OPS = {
    "add": lambda a, b: a + b, "sub": lambda a, b: a - b, "mul": lambda a, b: a * b, "truediv": lambda a, b: a / b,
    "pow": lambda a, b: a ** b,
}


@template("op:binary", "binary", weight=3)
def _t_op(c):
    """Python operators, including reflected forms with a plain ndarray / python scalar on the left."""
    name = c.choice(sorted(OPS))
    res, sa, sb = _bshapes(c)
    op = OPS[name]
    form = c.int(0, 2)  # 0: x op y (both args), 1: const op x (reflected), 2: x op const
    dom = (0.4, 2.5) if name in ("truediv", "pow") else (-2, 2)
    if form == 0:
        return Call("op:binary", lambda ns, x, y: op(x, y), [sa, sb], dom=dom, desc=[name, "xy", list(sa), list(sb)],
                    feats=dict(_bfeats(name, sa, sb), form="xy"))
    ck = c.int(0, 2)  # constant kind: ndarray, python float, np.float64

    def const(shape):
        k = onp.linspace(0.6, 1.9, int(onp.prod(shape)) or 1).reshape(shape) if shape else onp.array(1.3)
        if ck == 1 or (ck == 2 and shape):
            return 1.3 if shape == () or True else k
        if ck == 2:
            return onp.float64(1.3)
        return k

    if ck == 0:
        k = onp.linspace(0.6, 1.9, int(onp.prod(sb)) if sb else 1).reshape(sb)
    elif ck == 1:
        k = 1.3
    else:
        k = onp.float64(1.3)
    if form == 1:
        return Call("op:binary", lambda ns, x: op(k, x), [sa], dom=dom, desc=[name, "kx", list(sa), list(onp.shape(k)), ck],
                    feats={"fn": name, "form": "kx", "ck": ck, "a_shape": list(sa), "b_shape": list(onp.shape(k))})
    return Call("op:binary", lambda ns, x: op(x, k), [sa], dom=dom, desc=[name, "xk", list(sa), list(onp.shape(k)), ck],
                feats={"fn": name, "form": "xk", "ck": ck, "a_shape": list(sa), "b_shape": list(onp.shape(k))})


@template("op:mod", "binary")
def _t_opmod(c):
    res, sa, sb = _bshapes(c)
    form = c.int(0, 1)
    if form == 0:
        return Call("op:mod", lambda ns, x, y: x % y, [sa, sb], doms=[(2.1, 2.3), (0.8, 0.95)], cplx=False,
                    desc=["mod", "xy", list(sa), list(sb)], feats=dict(_bfeats("mod", sa, sb), form="xy"))
    return Call("op:mod", lambda ns, y: 2.2 % y, [sb], dom=(0.8, 0.95), cplx=False, desc=["mod", "ky", list(sb)],
                feats={"fn": "mod", "form": "ky"})


@template("op:matmul", "contract")
def _t_opmatmul(c):
    a, b = _matmul_shapes(c)
    form = c.int(0, 2)
    if form == 0:
        return Call("op:matmul", lambda ns, x, y: x @ y, [a, b], desc=["@", list(a), list(b)],
                    feats={"fn": "matmul", "a_ndim": len(a), "b_ndim": len(b), "form": "xy"})
    k = onp.linspace(-1.0, 1.5, int(onp.prod(a))).reshape(a)
    if form == 1:
        return Call("op:matmul", lambda ns, y: k @ y, [b], desc=["@", "k", list(a), list(b)],
                    feats={"fn": "matmul", "a_ndim": len(a), "b_ndim": len(b), "form": "ky"})
    k2 = onp.linspace(-1.0, 1.5, int(onp.prod(b))).reshape(b)
    return Call("op:matmul", lambda ns, x: x @ k2, [a], desc=["@", list(a), "k", list(b)],
                feats={"fn": "matmul", "a_ndim": len(a), "b_ndim": len(b), "form": "xk"})


def _matmul_shapes(c):
    """Operand shapes NumPy's matmul accepts: vector / matrix / stacked matrices with independently broadcasting stack axes
    (missing leading axes, length-one axes on either side)."""
    k = c.int(1, 3)
    ar = c.int(1, 4)
    br = c.int(1, 4)
    if ar <= 2 and br <= 2:
        a = (k,) if ar == 1 else (c.int(1, 3), k)
        b = (k,) if br == 1 else (k, c.int(1, 3))
        return a, b
    res = tuple(c.int(1, 3) for _ in range(max(ar, br) - 2))  # stack shape of the result
    a = ((k,) if ar == 1 else tuple(1 if c.chance(1, 4) else d for d in res[len(res) - max(ar - 2, 0):]) + (c.int(1, 3), k))
    b = ((k,) if br == 1 else tuple(1 if c.chance(1, 4) else d for d in res[len(res) - max(br - 2, 0):]) + (k, c.int(1, 3)))
    return a, b


# ---------------------------------------------------------------------------------------------
REDUCTIONS = ["sum", "mean", "prod", "var", "std", "max", "min", "amax", "amin"]


def draw_axis_kw(c, nd, allow_tuple=True, allow_empty=False):
    """axis in {absent, None, int (either sign), tuple of distinct ints of mixed sign, ()}."""
    k = c.int(0, 4 if allow_tuple else 2)
    if nd == 0:
        k = min(k, 1)
    if k == 0:
        return "absent", None
    if k == 1:
        return "none", None
    if k == 2:
        return "int", c.axis(nd)  # (Case.signed_axis spells one axis in four as a NumPy integer)
    if k == 3:
        n = c.int(1, nd)
        axs = c.sample(range(nd), n)
        return "tuple", tuple(c.signed_axis(a, nd) for a in axs)
    return ("empty", ()) if allow_empty else ("int", c.axis(nd))


def _mk_reduction(name):
    def draw(c):
        s = c.shape(0, 4)
        nd = len(s)
        akind, ax = draw_axis_kw(c, nd, allow_tuple=True, allow_empty=name in ("sum", "mean"))
        kw = {}
        if akind != "absent":
            kw["axis"] = ax
        kd = c.int(0, 2)
        if kd:
            kw["keepdims"] = kd == 2
        if name in ("var", "std") and c.bool():
            kw["ddof"] = 1
        form = c.int(0, 5)  # 0 function+kwargs, 1 method, 2 positional axis, 3 positional axis and dtype (NumPy's order), 4 dtype keyword, 5 initial=
        if form == 5:
            if name in ("sum", "prod", "max", "min", "amax", "amin"):
                kw["initial"] = 0.7 if name in ("sum", "prod") else (-9.0 if name in ("max", "amax") else 9.0)
            form = 0
        has_method = name in ("sum", "mean", "prod", "var", "std", "max", "min")
        has_dtype = name in ("sum", "mean", "prod", "var", "std")
        if form == 1 and not has_method:
            form = 0
        if form in (2, 3) and ("axis" not in kw or "ddof" in kw):
            form = 0
        if form in (3, 4) and not has_dtype:
            form = 0
        cdt = False
        if form == 4:
            cdt = c.bool()  # a complex accumulator / result type requested (also for real input)
            kw["dtype"] = complex if cdt else onp.float64
        if form == 3:
            kw2 = {k: v for k, v in kw.items() if k != "axis"}
            meth = c.bool()
            fn = lambda ns, x: (getattr(x, name)(kw["axis"], onp.float64, **kw2) if meth and hasattr(x, name)
                                else getattr(ns, name)(x, kw["axis"], onp.float64, **kw2))
        elif form == 1:
            fn = lambda ns, x: getattr(x, name)(**kw) if hasattr(x, name) else getattr(ns, name)(x, **kw)
        elif form == 2:
            kw2 = {k: v for k, v in kw.items() if k != "axis"}
            fn = lambda ns, x: getattr(ns, name)(x, kw["axis"], **kw2)
        else:
            fn = lambda ns, x: getattr(ns, name)(x, **kw)
        dom = (0.5, 2.0) if name == "prod" else (-2, 2)
        neg = isinstance(ax, int) and ax < 0 or (isinstance(ax, tuple) and any(a < 0 for a in ax))
        # (a real dtype request on complex input makes NumPy discard the imaginary part with a ComplexWarning: not drawn)
        return Call("r:" + name, fn, [s], dom=dom, cplx=name in ("sum", "mean", "prod", "var", "std") and (form not in (3, 4) or cdt),
                    desc=[name, list(s), {k: (list(v) if isinstance(v, tuple) else v) for k, v in kw.items() if k != "dtype"}, form, "complex" if cdt else None],
                    feats={"fn": name, "axis_kind": akind, "axis_neg": bool(neg), "keepdims": kw.get("keepdims"),
                           "ddof": kw.get("ddof", 0), "form": ["func", "method", "positional", "positional_dtype", "dtype_kw"][form], "ndim": nd,
                           "naxes": len(ax) if isinstance(ax, tuple) else None})

    template("r:" + name, "reduction", has_kink=name in ("max", "min", "amax", "amin"))(draw)


for _n in REDUCTIONS:
    _mk_reduction(_n)


@template("r:cumsum", "reduction")
def _t_cumsum(c):
    s = c.shape(0, 4)
    nd = len(s)
    akind, ax = draw_axis_kw(c, nd, allow_tuple=False)
    form = c.int(0, 1)
    if akind == "absent":
        fn = (lambda ns, x: ns.cumsum(x)) if form == 0 or nd == 0 else (lambda ns, x: x.cumsum())
    else:
        fn = (lambda ns, x: ns.cumsum(x, axis=ax)) if form == 0 or nd == 0 else (lambda ns, x: x.cumsum(ax))
    return Call("r:cumsum", fn, [s], desc=["cumsum", list(s), ax, form],
                feats={"fn": "cumsum", "axis_kind": akind, "axis_neg": isinstance(ax, int) and ax < 0, "ndim": nd})


@template("r:numpy_positional", "reduction", weight=2)
def _t_numpy_positional(c):
    """Reductions and cumulative functions called with NumPy's own positional argument order (axis, dtype, out, ...), where
    autograd's derivative rules declare their parameters in a different order."""
    name = c.choice(["sum", "mean", "prod", "var", "std", "max", "min", "cumsum", "sum", "mean", "prod"])
    r = c.int(1, 3)
    side = c.int(2, 3)
    s = tuple(side if c.chance(2, 3) else c.int(1, 3) for _ in range(r))  # mostly equal sides: a misplaced axis stays shape-legal
    nd = len(s)
    ax = c.axis(nd)
    if name in ("sum", "mean", "prod") and c.chance(1, 4):
        ax = tuple(c.signed_axis(a, nd) for a in c.sample(range(nd), c.int(1, nd)))
    meth = c.bool()
    dt = c.choice([onp.float64, float, None])
    nargs = c.int(1, 4)  # how many of NumPy's positional parameters after `a` are given
    if name in ("sum", "mean", "prod"):
        pos = [ax, dt, None, c.bool()][:nargs]  # axis, dtype, out, keepdims
    elif name in ("var", "std"):
        pos = [ax, dt, None, c.int(0, 1)][:nargs]  # axis, dtype, out, ddof
    elif name in ("max", "min"):
        pos = [ax, None, c.bool()][:min(nargs, 3)]  # axis, out, keepdims
    else:
        pos = [ax, dt][:min(nargs, 2)]  # axis, dtype

    def fn(ns, x):
        if meth and hasattr(x, name):
            return getattr(x, name)(*pos)
        return getattr(ns, name)(x, *pos)

    dom = (0.5, 2.0) if name == "prod" else (-2, 2)
    show = [p if not isinstance(p, type) else p.__name__ for p in pos]
    return Call("r:numpy_positional", fn, [s], dom=dom, cplx=False, desc=[name, list(s), [list(p) if isinstance(p, tuple) else p for p in show], meth],
                feats={"fn": name, "npos": len(pos), "method": meth, "ndim": nd, "square": len(set(s)) == 1,
                       "axis_neg": isinstance(ax, int) and ax < 0, "dtype_given": len(pos) >= 2 and name not in ("max", "min")},
                kink=None)
