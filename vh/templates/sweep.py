"""Namespace sweep: every callable exported by autograd.numpy / .linalg / .fft, called in a handful of generic forms.

The hand-written templates cover the configuration space of the functions they name; this template covers the *names*: a function
that has (or acquires) a derivative rule but no template is still held to "right or raises".  The table of (namespace, name, form)
is derived from the namespaces at first use: a form is kept when raw NumPy accepts it on a probe input and returns a floating or
complex array.  Whether autograd can differentiate the call is not known here - raising is an allowed outcome.
"""
import numpy as onp

from .core import Call, template

# forms: how the drawn arguments are passed
FORMS = ["x", "x_int", "x_kwaxis", "x_y", "x_y_bcast", "x_pair", "x_sq", "x_sq_int"]

# never called: uninitialised / random / in-place / I-O / non-numeric results
SKIP = {"empty", "empty_like", "frombuffer", "fromfile", "fromfunction", "fromiter", "fromstring", "fromregex", "loadtxt", "genfromtxt",
        "load", "save", "savetxt", "savez", "savez_compressed", "copyto", "put", "place", "putmask", "put_along_axis", "fill_diagonal",
        "shuffle", "seterr", "seterrcall", "setbufsize", "set_printoptions", "info", "show_config", "source", "lookfor", "who",
        "test", "disp", "safe_eval", "printoptions", "errstate", "memmap", "nditer", "nested_iters", "busdaycalendar", "ndindex",
        "ndenumerate", "broadcast", "vectorize", "frompyfunc", "poly1d", "piecewise", "apply_along_axis", "apply_over_axes",
        "wrap_namespace", "wrap_intdtype", "wrap_if_boxes_inside", "primitive", "notrace_primitive", "get_include", "deprecate",
        "deprecate_with_doc", "array2string", "array_repr", "array_str", "format_float_positional", "format_float_scientific",
        "base_repr", "binary_repr", "typename", "mintypecode", "isdtype", "issubdtype", "result_type", "promote_types", "can_cast",
        "min_scalar_type", "common_type", "iterable", "may_share_memory", "shares_memory", "byte_bounds", "require",
        "asarray_chkfinite", "from_dlpack", "get_printoptions", "geterr", "geterrcall", "getbufsize", "show_runtime", "unwrap",
        # read one triangle of their argument only: a finite-difference oracle on a general matrix is not their derivative on the
        # symmetric matrices they are defined for (their templates compose them with a symmetrising map)
        "cholesky", "eigh", "eigvalsh",
        # functions of the floating-point representation: identity-like for a finite-difference oracle, constants by declaration
        "nextafter", "spacing"}
# (name, form) pairs left out: rounding to k decimals is piecewise constant on a scale far below the oracle's step
SKIP_FORMS = {(n, f) for n in ("around", "round") for f in ("x_int", "x_sq_int", "x_pair", "x_kwaxis")}

_TABLE = []


def _spaces():
    from .core import namespaces

    NP, AG = namespaces()
    return [("", NP._mod, AG._mod), ("linalg", NP._mod.linalg, AG._mod.linalg), ("fft", NP._mod.fft, AG._mod.fft)]


def _apply(mod, name, form, xs, k, kk):
    f = getattr(mod, name)
    if form == "x" or form == "x_sq":
        y = f(xs[0])
    elif form == "x_int" or form == "x_sq_int":
        y = f(xs[0], k)
    elif form == "x_kwaxis":
        y = f(xs[0], axis=k)
    elif form in ("x_y", "x_y_bcast"):
        y = f(xs[0], xs[1])
    else:  # x_pair
        y = f(xs[0], (k, kk))
    v = y
    while hasattr(v, "_value"):  # a traced list / tuple of results
        v = v._value
    if isinstance(v, (tuple, list)):  # several results: the first array among them
        y = y[0]
    return y


def _probe_shapes(form):
    if form in ("x_sq", "x_sq_int"):
        return [(3, 3)]
    if form == "x_y":
        return [(2, 3), (2, 3)]
    if form == "x_y_bcast":
        return [(2, 3), (3,)]
    return [(2, 3)]


def table():
    """[(space, name, form)] accepted by raw NumPy on a probe (deterministic: sorted names, fixed probes)."""
    if _TABLE:
        return _TABLE
    import warnings

    rs = onp.random.RandomState(7)
    for space, np_mod, ag_mod in _spaces():
        for name in sorted(dir(ag_mod)):
            if name.startswith("_") or name in SKIP:
                continue
            f = getattr(ag_mod, name, None)
            g = getattr(np_mod, name, None)
            if g is None or not callable(f) or isinstance(f, type) or isinstance(g, type):
                continue
            for form in FORMS:
                if (name, form) in SKIP_FORMS:
                    continue
                shapes = _probe_shapes(form)
                ok = False
                for k, kk in ((1, 0), (-1, -2), (0, 1), (2, 3)):
                    xs = [rs.uniform(0.4, 1.6, s) for s in shapes]
                    if form.startswith("x_sq"):
                        xs[0] = xs[0] + 2.0 * onp.eye(3)
                    for x in xs:
                        x.flags.writeable = False
                    try:
                        with warnings.catch_warnings():
                            warnings.simplefilter("ignore")
                            y = onp.asarray(_apply(np_mod, name, form, xs, k, kk))
                    except Exception:
                        continue
                    if y.dtype.kind in "fc" and y.size > 0 and onp.all(onp.isfinite(y)):
                        ok = True
                        break
                    if form in ("x", "x_sq", "x_y", "x_y_bcast"):
                        break
                if ok:
                    _TABLE.append((space, name, form))
    return _TABLE


_REST = []


def rest_table():
    """The entries of table() whose function no hand-written template mentions (by name, in the template sources)."""
    if _REST:
        return _REST
    import os
    import re

    here = os.path.dirname(os.path.abspath(__file__))
    src = "".join(open(os.path.join(here, f + ".py")).read() for f in ("elementwise", "shape", "contract", "linalg"))
    named = set(re.findall(r"\bns\.(?:linalg\.|fft\.)?(\w+)", src)) | set(re.findall(r"[\"'](\w+)[\"']", src))
    _REST.extend(e for e in table() if e[1] not in named)
    return _REST


@template("x:sweep", "sweep", weight=6)
def _t_sweep(c):
    return _draw(c, table(), "x:sweep")


@template("x:sweep_rest", "sweep", weight=30)
def _t_sweep_rest(c):
    return _draw(c, rest_table(), "x:sweep_rest")


def _draw(c, tab, tname):
    space, name, form = tab[c.int(0, len(tab) - 1)]
    k = c.int(-3, 3)
    kk = c.int(-3, 3)
    if form in ("x_sq", "x_sq_int"):
        n = c.int(1, 3)
        shapes = [((2,) if c.chance(1, 4) else ()) + (n, n)]
    elif form == "x_y":
        s = c.shape(0, 3)
        shapes = [s, s]
    elif form == "x_y_bcast":
        s = c.shape(1, 3)
        shapes = [s, s[c.int(1, len(s)):] if len(s) > 1 else ()]
        if c.bool():
            shapes = shapes[::-1]
    else:
        shapes = [c.shape(0, 3, max_side=4)]
    which = {"": 0, "linalg": 1, "fft": 2}[space]

    def fn(ns, *xs):
        import warnings

        mod = ns._mod if which == 0 else getattr(ns._mod, space)
        with warnings.catch_warnings():
            warnings.simplefilter("ignore", DeprecationWarning)
            return _apply(mod, name, form, xs, k, kk)

    prep = None
    if form.startswith("x_sq"):
        # well-conditioned, non-symmetric, positive diagonal: inside the smooth domain of inv / det / solve-like functions
        prep = lambda xs: [xs[0] * 0.4 + 1.5 * onp.eye(xs[0].shape[-1])]
    ints = {"x_int": [k], "x_sq_int": [k], "x_kwaxis": [k], "x_pair": [k, kk]}.get(form, [])
    return Call(tname, fn, shapes, dom=(0.35, 2.4), avoid=(1.0, 2.0), prep=prep, cplx=False, margin=0.06,
                desc=[space, name, form, [list(s) for s in shapes]] + ints,
                feats={"fn": (space + "." if space else "") + name, "form": form, "ints": ints})


# ---------------------------------------------------------------------------------------------------------------------------
# keyword sweep: every (function, keyword, value) that raw NumPy accepts on a probe - "rarely used keyword arguments" as a generated
# dimension.  A rule that ignores a keyword NumPy honours (or honours it differently) is a wrong derivative; raising is allowed.
def _kw_values():
    m23 = onp.array([[True, False, True], [False, True, True]])
    return {
        "axis": [0, -1, 1, (0, 1), (-1, 0), None],
        "keepdims": [True],
        "ddof": [1],
        "initial": [0.5],
        "k": [1, -1, 2],
        "offset": [1, -1],
        "axis1": [1, -1],
        "axis2": [0, -2],
        "axes": [(1, 0), (-1, -2)],
        "order": ["F", "A", "K", "C"],
        "UPLO": ["L", "U", "l", "u"],
        "ord": [1, 2, 3, onp.inf, -onp.inf, "fro", "nuc", 0.5],
        "n": [3, 4, 6],
        "s": [(2, 4), (3, 2)],
        "norm": ["ortho", "forward", "backward"],
        "endpoint": [False],
        "num": [4],
        "prepend": [0.5],
        "append": [0.25],
        "edge_order": [2],
        "rowvar": [False],
        "bias": [True],
        "nan": [0.5],
        "posinf": [7.0],
        "neginf": [-7.0],
        "copy": [True, False],
        "ndmin": [2, 3],
        "shift": [1, -2],
        "repeats": [2],
        "reps": [2, (2, 1)],
        "indices_or_sections": [1],
        "min": [0.6],
        "max": [1.4],
        "a_min": [0.6],
        "a_max": [1.4],
        "mode": ["constant", "edge", "reflect", "wrap", "full", "valid", "same"],
        "pad_width": [1, (1, 2)],
        "constant_values": [0.5],
        "weights": ["ones_like_x"],
        "where": [m23],
        "hermitian": [True],
        "rcond": [1e-3],
        "full_matrices": [False, True],
        "compute_uv": [False],
        "source": [0],
        "destination": [-1],
        "start": [1],
        "newshape": [(-1,)],
        "shape": [(-1,), (3, 2)],
        "fill_value": [0.5],
        "sorter": [],
        "kind": ["stable"],
        "kth": [1],
        "x1": [], "x2": [],
        "total_repeat_length": [],
        "correction": [1],
        "mean": [],
        "subok": [True],
        "like": [],
    }


# keywords with `where`-like semantics are only meaningful for reductions (for a ufunc, where= leaves unselected outputs uninitialised)
_WHERE_OK = {"sum", "prod", "mean", "var", "std", "max", "min", "amax", "amin", "nansum", "nanprod", "nanmean", "nanvar", "nanstd", "nanmax", "nanmin"}
_KW_TABLE = []


def _kw_apply(mod, name, x, kws):
    f = getattr(mod, name)
    kws = {k: (onp.ones_like(onp.asarray(getattr(x, "_value", x), dtype=float)) if isinstance(v, str) and v == "ones_like_x" else v) for k, v in kws.items()}
    y = f(x, **kws)
    v = y
    while hasattr(v, "_value"):
        v = v._value
    if isinstance(v, (tuple, list)):
        y = y[0]
    return y


def kw_table():
    """[(space, name, kw, value index, probe shape kind)] accepted by raw NumPy (deterministic)."""
    if _KW_TABLE:
        return _KW_TABLE
    import warnings

    KW = _kw_values()
    rs = onp.random.RandomState(11)
    probes = {"m23": rs.uniform(0.4, 0.9, (2, 3)), "sq": rs.uniform(0.4, 0.9, (3, 3)) + 2.0 * onp.eye(3), "v4": rs.uniform(0.4, 0.9, (4,))}
    for p_ in probes.values():
        p_.flags.writeable = False
    for space, np_mod, ag_mod in _spaces():
        for name in sorted(dir(ag_mod)):
            if name.startswith("_") or name in SKIP or name in ("around", "round"):
                continue
            f = getattr(ag_mod, name, None)
            g = getattr(np_mod, name, None)
            if g is None or not callable(f) or isinstance(f, type) or isinstance(g, type):
                continue
            for kw in sorted(KW):
                if kw == "where" and name not in _WHERE_OK:
                    continue
                for vi, val in enumerate(KW[kw]):
                    for pk in ("m23", "sq", "v4"):
                        if kw == "where" and pk != "m23":
                            continue
                        try:
                            with warnings.catch_warnings():
                                warnings.simplefilter("ignore")
                                y = onp.asarray(_kw_apply(np_mod, name, probes[pk], {kw: val}))
                        except Exception:
                            continue
                        if y.dtype.kind in "fc" and y.size > 0 and onp.all(onp.isfinite(y)):
                            _KW_TABLE.append((space, name, kw, vi, pk))
                            break
    return _KW_TABLE


@template("x:sweep_kw", "sweep", weight=20)
def _t_sweep_kw(c):
    tab = kw_table()
    space, name, kw, vi, pk = tab[c.int(0, len(tab) - 1)]
    KW = _kw_values()
    kws = {kw: KW[kw][vi]}
    # sometimes a second keyword of the same function (axis with keepdims / ddof / where ..., offset with axis1 ...)
    if c.chance(1, 3):
        mates = [e for e in tab if e[0] == space and e[1] == name and e[2] != kw and e[4] == pk]
        if mates:
            m_ = mates[c.int(0, len(mates) - 1)]
            kws[m_[2]] = KW[m_[2]][m_[3]]
    if pk == "m23":
        shape = (2, 3)
    elif pk == "sq":
        shape = (3, 3) if c.bool() else (2, 3, 3)
    else:
        shape = (4,)
    if pk == "m23" and "where" not in kws and c.chance(1, 3):
        shape = (2, 3, 2) if c.bool() else (3,)
    which = {"": 0, "linalg": 1, "fft": 2}[space]

    def fn(ns, x):
        import warnings

        mod = ns._mod if which == 0 else getattr(ns._mod, space)
        with warnings.catch_warnings():
            warnings.simplefilter("ignore", DeprecationWarning)
            return _kw_apply(mod, name, x, kws)

    prep = (lambda xs: [xs[0] * 0.4 + 1.5 * onp.eye(xs[0].shape[-1])]) if pk == "sq" else None
    kdesc = {k: (v.tolist() if isinstance(v, onp.ndarray) else (list(v) if isinstance(v, tuple) else (repr(v) if isinstance(v, float) and not onp.isfinite(v) else v)))
             for k, v in kws.items()}
    return Call("x:sweep_kw", fn, [shape], dom=(0.35, 2.4), avoid=(1.0, 2.0, 0.6, 1.4, 0.5, 0.25), prep=prep, cplx=False, margin=0.06,
                desc=[space, name, kdesc, list(shape)], feats={"fn": (space + "." if space else "") + name, "kw": sorted(kws), "kwargs": kdesc})
