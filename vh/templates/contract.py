"""Contractions: dot, matmul, inner, outer, tensordot, einsum, kron, cross, scipy.signal.convolve."""
import numpy as onp

from .core import Call, template
from .elementwise import _matmul_shapes


def _cf(name, a, b, **kw):
    d = {"fn": name, "a_shape": list(a), "b_shape": list(b), "a_ndim": len(a), "b_ndim": len(b)}
    d.update(kw)
    return d


@template("c:dot", "contract", weight=2)
def _t_dot(c):
    a = c.shape(0, 3)
    b = c.shape(0, 3)
    if a and b:
        if len(b) == 1:
            b = (a[-1],)
        else:
            b = b[:-2] + (a[-1],) + b[-1:]
    form = c.int(0, 1)
    fn = (lambda ns, x, y: ns.dot(x, y)) if form == 0 or not a else (lambda ns, x, y: ns.dot(x, y) if isinstance(x, (onp.ndarray, float, onp.floating)) else x.dot(y))
    return Call("c:dot", fn, [a, b], desc=["dot", list(a), list(b), form], feats=_cf("dot", a, b))


@template("c:dot_2d", "contract", weight=3)
def _t_dot_2d(c):
    """The everyday matrix / vector products only (ranks 1-2 on both sides), so that every kind combination of them is dense."""
    k = c.int(1, 3)
    a = (k,) if c.bool() else (c.int(1, 3), k)
    b = (k,) if c.bool() else (k, c.int(1, 3))
    form = c.int(0, 2)
    if form == 0:
        fn = lambda ns, x, y: ns.dot(x, y)
    elif form == 1:
        fn = lambda ns, x, y: x @ y
    else:
        fn = lambda ns, x, y: ns.matmul(x, y)
    return Call("c:dot_2d", fn, [a, b], desc=["dot_2d", list(a), list(b), form], feats=_cf(["dot", "matmul_op", "matmul"][form], a, b))


@template("c:matmul", "contract", weight=2)
def _t_matmul(c):
    a, b = _matmul_shapes(c)
    return Call("c:matmul", lambda ns, x, y: ns.matmul(x, y), [a, b], desc=["matmul", list(a), list(b)], feats=_cf("matmul", a, b))


@template("c:inner", "contract")
def _t_inner(c):
    a = c.shape(0, 3)
    b = c.shape(0, 3)
    if a and b:
        b = b[:-1] + (a[-1],)
    return Call("c:inner", lambda ns, x, y: ns.inner(x, y), [a, b], desc=["inner", list(a), list(b)], feats=_cf("inner", a, b))


@template("c:outer", "contract")
def _t_outer(c):
    a = c.shape(0, 2)
    b = c.shape(0, 2)
    return Call("c:outer", lambda ns, x, y: ns.outer(x, y), [a, b], desc=["outer", list(a), list(b)], feats=_cf("outer", a, b))


@template("c:tensordot", "contract", weight=2)
def _t_tensordot(c):
    a = c.shape(1, 3)
    k = c.int(0, 2)
    if k == 0:  # integer axes
        n = c.int(0, len(a))
        b = a[len(a) - n:] + c.shape(0, 2)
        axes = n
        form = c.int(0, 2)
        if form == 0:
            fn = lambda ns, x, y: ns.tensordot(x, y, n)
        elif form == 1:
            fn = lambda ns, x, y: ns.tensordot(x, y, axes=n)
        else:
            if n != 2 or len(b) < 2:
                fn = lambda ns, x, y: ns.tensordot(x, y, n)
            else:
                fn = lambda ns, x, y: ns.tensordot(x, y)
    else:  # pair of axis lists (possibly negative), or pair of ints
        n = c.int(1, len(a))
        ia = c.sample(range(len(a)), n)
        extra = c.shape(0, 2)
        nb = n + len(extra)
        pos = c.sample(range(nb), n)
        bl = [None] * nb
        for p, i in zip(pos, ia):
            bl[p] = a[i]
        ex = list(extra)
        for p in range(nb):
            if bl[p] is None:
                bl[p] = ex.pop(0)
        b = tuple(bl)
        ia = [c.signed_axis(i, len(a)) for i in ia]
        pos = [c.signed_axis(p, nb) for p in pos]
        axes = (ia, pos)
        if n == 1 and k == 2:
            axes = (ia[0], pos[0])
        fn = lambda ns, x, y: ns.tensordot(x, y, axes)
    return Call("c:tensordot", fn, [a, b], desc=["tensordot", list(a), list(b), axes],
                feats=_cf("tensordot", a, b, axes_kind=k))


EINSUMS = [
    ("ij,jk->ik", [(2, 3), (3, 2)]), ("ij,jk", [(2, 3), (3, 2)]), ("ij->ji", [(2, 3)]), ("ii->i", [(3, 3)]),
    ("ii", [(3, 3)]), ("ij->", [(2, 3)]), ("ij->j", [(2, 3)]), ("i,i", [(3,), (3,)]), ("i,j->ij", [(2,), (3,)]),
    ("...ij,...jk->...ik", [(2, 2, 3), (2, 3, 2)]), ("...ij,...jk->...ik", [(2, 3), (2, 3, 2)]),
    ("...ij,...jk->...ik", [(1, 2, 3), (2, 3, 2)]), ("ij...,jk...->ik...", [(2, 3, 2), (3, 2, 2)]),
    ("i...j,j->i...", [(2, 2, 3), (3,)]), ("ijk,ijl->kl", [(2, 3, 2), (2, 3, 3)]), ("ij,ij,ij->i", [(2, 3), (2, 3), (2, 3)]),
    ("ij,kj,k->i", [(2, 3), (2, 3), (2,)]), ("...,...->...", [(2, 3), (2, 3)]), ("ij,j->i", [(2, 3), (3,)]),
    ("iij->j", [(2, 2, 3)]), ("ijj->ij", [(2, 3, 3)]), ("i->", [(3,)]), ("...->...", [(2, 3)]), ("...i->...", [(2, 3)]),
    ("ij,ij->", [(2, 3), (2, 3)]), ("ab,cb->ac", [(2, 3), (2, 3)]), ("...a,a...->...", [(2, 3), (3, 2)]),
    ("ij,jk->ik", [(1, 3), (3, 2)]), ("bi,bi->b", [(2, 3), (1, 3)]), ("i,->i", [(3,), ()]),
    ("i...,i...->...", [(2, 3, 2), (2, 2)]), ("i...,i...->i...", [(2, 3, 2), (2, 1)]), ("...i,...i->...", [(2, 3, 2), (3, 2)]),
    ("i...j,i...j->i...j", [(2, 3, 2), (2, 2)]), ("i...j,jk->i...k", [(2, 3, 2), (2, 3)]), ("...,...", [(2, 3), (3,)]),
    ("...,...->...", [(2, 1), (2, 2, 3)]), ("i...->...", [(2, 3, 2)]), ("...ii->...", [(2, 3, 3)]), ("i...,...i->...", [(2, 3, 2), (2, 2)]),
]


@template("c:einsum", "contract", weight=3)
def _t_einsum(c):
    i = c.int(0, len(EINSUMS) - 1)
    sub, shapes = EINSUMS[i]
    n = len(shapes)
    if n == 1:
        fn = lambda ns, x: ns.einsum(sub, x)
    elif n == 2:
        fn = lambda ns, x, y: ns.einsum(sub, x, y)
    else:
        fn = lambda ns, x, y, z: ns.einsum(sub, x, y, z)
    return Call("c:einsum", fn, shapes, desc=["einsum", sub, [list(s) for s in shapes]],
                feats={"fn": "einsum", "sub": sub, "ellipsis": "..." in sub, "implicit": "->" not in sub}, nosame=n > 2)


EINSUM_LISTS = [
    ([[0, 1], [1, 2]], [0, 2], [(2, 3), (3, 2)]),
    ([[0, 1], [1, 2]], None, [(2, 3), (3, 2)]),
    ([[0, 1]], [1, 0], [(2, 3)]),
    ([[0, 0]], [0], [(3, 3)]),
    ([[Ellipsis, 0, 1], [Ellipsis, 1, 2]], [Ellipsis, 0, 2], [(2, 2, 3), (2, 3, 2)]),
    ([[Ellipsis, 0, 1], [Ellipsis, 1, 2]], [Ellipsis, 0, 2], [(2, 3), (2, 3, 2)]),
    ([[0, Ellipsis], [0, Ellipsis]], [Ellipsis], [(2, 3), (2, 3)]),
    ([[0, 1], [0, 1]], [], [(2, 3), (2, 3)]),
    # operands whose "..." blocks have different ranks (NumPy right-aligns them), Ellipsis first / last / in the middle
    ([[0, Ellipsis], [0, Ellipsis]], [Ellipsis], [(2, 3, 2), (2, 2)]),
    ([[0, Ellipsis], [0, Ellipsis]], [0, Ellipsis], [(2, 3, 2), (2, 2)]),
    ([[0, Ellipsis], [0, Ellipsis]], [0, Ellipsis], [(2, 3, 2), (2, 1)]),
    ([[Ellipsis, 0], [Ellipsis, 0]], [Ellipsis], [(2, 3, 2), (3, 2)]),
    ([[Ellipsis, 0], [Ellipsis, 0]], [Ellipsis, 0], [(2, 3, 2), (2,)]),
    ([[0, Ellipsis, 1], [0, Ellipsis, 1]], [0, Ellipsis, 1], [(2, 3, 2), (2, 2)]),
    ([[0, Ellipsis, 1], [0, Ellipsis, 1]], [Ellipsis], [(2, 3, 2), (2, 1, 2)]),
    ([[0, Ellipsis, 1], [1, 2]], [0, Ellipsis, 2], [(2, 3, 2), (2, 3)]),
    ([[0, Ellipsis], [Ellipsis, 0]], [Ellipsis], [(2, 3, 2), (2, 2)]),
    ([[Ellipsis], [Ellipsis]], [Ellipsis], [(2, 3), (3,)]),
    ([[Ellipsis], [Ellipsis]], [Ellipsis], [(2, 1), (2, 2, 3)]),
    ([[0, Ellipsis]], [Ellipsis], [(2, 3, 2)]),
    ([[Ellipsis, 0, 0]], [Ellipsis], [(2, 3, 3)]),
]


@template("c:einsum_list", "contract", weight=2)
def _t_einsum_list(c):
    i = c.int(0, len(EINSUM_LISTS) - 1)
    subs, out, shapes = EINSUM_LISTS[i]

    def fn(ns, *xs):
        args = []
        for x, s in zip(xs, subs):
            args += [x, s]
        if out is not None:
            args.append(out)
        return ns.einsum(*args)

    return Call("c:einsum_list", fn, shapes, desc=["einsum_list", i], feats={"fn": "einsum_list", "has_out": out is not None, "idx": i})


@template("c:kron", "contract")
def _t_kron(c):
    a = c.shape(0, 3, max_side=2)
    b = c.shape(0, 3, max_side=2)
    return Call("c:kron", lambda ns, x, y: ns.kron(x, y), [a, b], desc=["kron", list(a), list(b)], feats=_cf("kron", a, b))


@template("c:cross", "contract", weight=2)
def _t_cross(c):
    res = c.shape(0, 2)
    k = c.int(0, 4)
    if k == 4:  # the vector axes anywhere AND batch axes that broadcast (lower rank / length one on either side)
        ba, bb = c.bshape(res), c.bshape(res)
        aa, ab = c.int(0, len(ba)), c.int(0, len(bb))
        sa, sb = list(ba), list(bb)
        sa.insert(aa, 3)
        sb.insert(ab, 3)
        a, b = tuple(sa), tuple(sb)
        nres = len(onp.broadcast_shapes(ba, bb)) + 1
        kw = {"axisa": c.signed_axis(aa, len(a)), "axisb": c.signed_axis(ab, len(b))}
        if c.bool():
            kw["axisc"] = c.signed_axis(c.int(0, nres - 1), nres)
        fn = lambda ns, x, y: ns.cross(x, y, **kw)
        return Call("c:cross", fn, [a, b], desc=["cross", list(a), list(b), kw], feats=_cf("cross", a, b, kind=k, broadcast=ba != bb))
    if k == 0:  # plain, last axis, possibly broadcasting
        a = c.bshape(res) + (3,)
        b = c.bshape(res) + (3,)
        fn = lambda ns, x, y: ns.cross(x, y)
        kw = None
    elif k == 1:  # no broadcasting, 3-vectors
        a = b = res + (3,)
        fn = lambda ns, x, y: ns.cross(x, y)
        kw = None
    elif k == 2:  # axis keyword
        nd = len(res) + 1
        ax = c.int(0, nd - 1)
        sh = list(res)
        sh.insert(ax, 3)
        a = b = tuple(sh)
        axs = c.signed_axis(ax, nd)
        fn = lambda ns, x, y: ns.cross(x, y, axis=axs)
        kw = {"axis": axs}
    else:  # axisa/axisb/axisc
        nd = len(res) + 1
        aa, ab, ac = c.int(0, nd - 1), c.int(0, nd - 1), c.int(0, nd - 1)
        sa, sb = list(res), list(res)
        sa.insert(aa, 3)
        sb.insert(ab, 3)
        a, b = tuple(sa), tuple(sb)
        kw = {"axisa": c.signed_axis(aa, nd), "axisb": c.signed_axis(ab, nd), "axisc": c.signed_axis(ac, nd)}
        fn = lambda ns, x, y: ns.cross(x, y, **kw)
    return Call("c:cross", fn, [a, b], desc=["cross", list(a), list(b), kw],
                feats=_cf("cross", a, b, kind=k, broadcast=a != b))


@template("c:convolve", "contract")
def _t_convolve(c):
    k = c.int(0, 2)
    mode = c.choice(["full", "valid"])
    if k == 0:  # 1-D
        a, b = (c.int(1, 5),), (c.int(1, 4),)
        kw = {"mode": mode}
    elif k == 1:  # 2-D
        a, b = (c.int(1, 4), c.int(1, 4)), (c.int(1, 3), c.int(1, 3))
        kw = {"mode": mode}
    else:  # axes + dot_axes
        n = c.int(1, 3)
        a, b = (n, c.int(2, 4)), (n, c.int(1, 3))
        kw = {"mode": mode, "axes": ([1], [1]), "dot_axes": ([0], [0])}
    if mode == "valid":
        # 'valid' needs one operand at least as large in every convolved dim
        big = tuple(max(x, y) for x, y in zip(a, b))
        if k == 2:
            a = (a[0], max(a[1], b[1]))
        else:
            a = big
    return Call("c:convolve", lambda ns, x, y: ns.sig_convolve(x, y, **kw), [a, b], desc=["convolve", list(a), list(b), kw],
                feats=_cf("convolve", a, b, mode=mode, kind=k), cplx=False)


@template("c:einsum_gen", "contract", weight=3)
def _t_einsum_gen(c):
    """Generated einsum specifications (string and sublist conventions from one spec): 1-3 operands over labels with sizes 1-3,
    repeated labels inside an operand, size-1 axes broadcasting against a labelled axis, '...' blocks of different ranks (first,
    last, middle), implicit or explicit output with summed-out or kept labels.  NumPy decides validity (invalid ones are counted
    as rejected by NumPy)."""
    labels = "ijkl"
    sizes = {lab: c.int(1, 3) for lab in labels}
    n_ops = c.choice([1, 2, 2, 2, 3])
    use_ell = c.chance(2, 5)
    batch = tuple(c.int(1, 3) for _ in range(c.int(1, 2))) if use_ell else ()
    subs, shapes = [], []
    for _ in range(n_ops):
        k = c.int(0, 3 if not use_ell else 2)
        labs = [labels[c.int(0, 3)] for _ in range(k)]
        shape = [sizes[lab] if not c.chance(1, 8) else 1 for lab in labs]
        if use_ell and c.chance(4, 5):
            pos = c.choice([0, len(labs), c.int(0, len(labs))])
            own = batch[c.int(0, len(batch)):]  # a suffix of the full batch shape (NumPy right-aligns the '...' blocks)
            own = tuple(1 if c.chance(1, 6) else d for d in own)
            labs = labs[:pos] + [Ellipsis] + labs[pos:]
            shape = shape[:pos] + list(own) + shape[pos:]
        subs.append(labs)
        shapes.append(tuple(shape))
    seen = [lab for s_ in subs for lab in s_ if lab is not Ellipsis]
    uniq = sorted(set(seen))
    out = None
    if c.chance(2, 3):
        keep = [lab for lab in uniq if c.chance(2, 3)]
        keep = c.sample(keep, len(keep))
        out = list(keep)
        if any(Ellipsis in s_ for s_ in subs) and c.chance(5, 6):
            p_ = c.choice([0, len(out)])
            out = out[:p_] + [Ellipsis] + out[p_:]
    listform = c.chance(1, 3)

    def tostr(s_):
        return "".join("..." if x is Ellipsis else x for x in s_)

    if listform:
        num = {lab: i for i, lab in enumerate(labels)}

        def fn(ns, *xs):
            args = []
            for x, s_ in zip(xs, subs):
                args += [x, [Ellipsis if lab is Ellipsis else num[lab] for lab in s_]]
            if out is not None:
                args.append([Ellipsis if lab is Ellipsis else num[lab] for lab in out])
            return ns.einsum(*args)
    else:
        spec = ",".join(tostr(s_) for s_ in subs) + ("" if out is None else "->" + tostr(out))

        def fn(ns, *xs):
            return ns.einsum(spec, *xs)

    desc = ["einsum_gen", ",".join(tostr(s_) for s_ in subs) + ("" if out is None else "->" + tostr(out)), [list(s_) for s_ in shapes], "list" if listform else "str"]
    ranks = [sum(1 for x in s_ if x is Ellipsis) for s_ in subs]
    return Call("c:einsum_gen", fn, shapes, desc=desc, nosame=n_ops > 2,
                feats={"fn": "einsum", "n_ops": n_ops, "ellipsis": use_ell and any(ranks), "implicit": out is None, "list_form": listform,
                       "repeated_label": any(len([x for x in s_ if x is not Ellipsis]) != len({x for x in s_ if x is not Ellipsis}) for s_ in subs)})
