"""linalg and fft templates.

Domain conventions follow the callers in tests/test_linalg.py: cholesky/eigh are composed with a
symmetrising map, eigenvector / singular-vector outputs are reduced to gauge-invariant quantities,
spectra are well separated by construction.
"""
import numpy as onp

from .core import Call, template


def _batch(c, maxb=2):
    nb = c.int(0, maxb)
    return tuple(c.int(1, 2) for _ in range(nb))


def _T(ns, x):
    return ns.swapaxes(x, -1, -2)


def _shift_prep(n, amount=2.0, idx=0):
    def prep(xs):
        xs = list(xs)
        xs[idx] = xs[idx] + amount * onp.eye(n)
        return xs

    return prep


@template("l:det", "linalg")
def _t_det(c):
    b = _batch(c)
    n = c.int(1, 3)
    w = c.choice(["det", "slogdet"])
    if w == "det":
        fn = lambda ns, x: ns.linalg.det(x)
    else:
        k = c.int(0, 1)
        fn = (lambda ns, x: ns.linalg.slogdet(x)[1]) if k == 0 else (lambda ns, x: (lambda r: r[0] * r[1])(ns.linalg.slogdet(x)))
    return Call("l:det", fn, [b + (n, n)], dom=(-1, 1), prep=_shift_prep(n), desc=[w, list(b), n], feats={"fn": w, "batch": len(b), "n": n})


@template("l:inv", "linalg")
def _t_inv(c):
    b = _batch(c)
    n = c.int(1, 3)
    return Call("l:inv", lambda ns, x: ns.linalg.inv(x), [b + (n, n)], dom=(-1, 1), prep=_shift_prep(n),
                desc=["inv", list(b), n], feats={"fn": "inv", "batch": len(b), "n": n})


@template("l:pinv", "linalg")
def _t_pinv(c):
    b = _batch(c, 1)
    m, n = c.int(1, 3), c.int(1, 3)

    def prep(xs):
        x = xs[0]
        k = min(m, n)
        e = onp.zeros((m, n))
        e[onp.arange(k), onp.arange(k)] = 2.0
        return [x + e]

    return Call("l:pinv", lambda ns, x: ns.linalg.pinv(x), [b + (m, n)], dom=(-1, 1), prep=prep,
                desc=["pinv", list(b), m, n], feats={"fn": "pinv", "batch": len(b), "m": m, "n": n, "square": m == n})


@template("l:solve", "linalg", weight=2)
def _t_solve(c):
    b = _batch(c, 1)
    n = c.int(1, 3)
    k = c.int(0, 2)  # rhs: 0 vector (with stacked matrices NumPy >= 2 broadcasts an exactly 1-D rhs as one vector), 1 matrix, 2 batched matrix with broadcast
    if k == 0:
        rhs = (n,)
    elif k == 1:
        rhs = b + (n, c.int(1, 2))
    else:
        rhs = (c.int(1, 2),) * (0 if b else 1) + b + (n, c.int(1, 2))
    return Call("l:solve", lambda ns, a, r: ns.linalg.solve(a, r), [b + (n, n), rhs], dom=(-1, 1), prep=_shift_prep(n),
                desc=["solve", list(b), n, list(rhs)], feats={"fn": "solve", "batch": len(b), "rhs_ndim": len(rhs), "a_ndim": len(b) + 2},
                nosame=True)


VEC_ORDS = [None, 2, 3, 1.5, 4, onp.inf, 1, 0, -1, -onp.inf, 2.5]
MAT_ORDS = [None, "fro", "nuc", 2, 1, -1, onp.inf, -2]


@template("l:norm_vec", "linalg", weight=2)
def _t_norm_vec(c):
    """Vector norms: axis absent/None on 1-D input, or an int axis on any rank."""
    s = c.shape(1, 3)
    nd = len(s)
    o = c.choice(VEC_ORDS)
    kw = {}
    k = c.int(0, 2)
    if nd > 1 and k < 2:
        k = 2 if c.bool() else k  # absent/None on rank>1 means Frobenius / matrix norm: keep some of those too
    if k == 1:
        kw["axis"] = None
    elif k == 2:
        kw["axis"] = c.axis(nd)
    if o is not None or c.bool():
        kw["ord"] = o
    pos = c.chance(1, 4) and "ord" in kw and "axis" in kw
    if c.chance(1, 6):
        kw["keepdims"] = True
    if pos and "keepdims" not in kw:
        fn = lambda ns, x: ns.linalg.norm(x, kw["ord"], kw["axis"])
    else:
        fn = lambda ns, x: ns.linalg.norm(x, **kw)
    return Call("l:norm_vec", fn, [s], dom=(0.3, 2.0) if o in (0, -1, -onp.inf) else (-2, 2), avoid=(0.0,),
                desc=["norm", list(s), {k_: repr(v) for k_, v in kw.items()}, pos],
                feats={"fn": "norm", "ord": repr(o), "axis_kind": k, "ndim": nd, "keepdims": "keepdims" in kw,
                       "axis_neg": isinstance(kw.get("axis"), int) and kw["axis"] < 0})


@template("l:norm_mat", "linalg", weight=3)
def _t_norm_mat(c):
    """Matrix norms: 2-D input with axis absent/None, or an axis pair (any signs) on rank 2-4."""
    s = c.shape(2, 4)
    nd = len(s)
    o = c.choice(MAT_ORDS)
    kw = {}
    k = c.int(0, 2) if nd == 2 else 2
    if k == 1:
        kw["axis"] = None
    elif k == 2:
        a, b_ = c.sample(range(nd), 2)
        kw["axis"] = (c.signed_axis(a, nd), c.signed_axis(b_, nd))
    if o is not None or c.bool():
        kw["ord"] = o
    if c.chance(1, 6):
        kw["keepdims"] = True
    ax = kw.get("axis")
    return Call("l:norm_mat", lambda ns, x: ns.linalg.norm(x, **kw), [s], avoid=(0.0,),
                desc=["norm", list(s), {k_: repr(v) for k_, v in kw.items()}],
                feats={"fn": "norm", "ord": repr(o), "axis_kind": k, "ndim": nd, "keepdims": "keepdims" in kw,
                       "axis_mixed_sign": isinstance(ax, tuple) and (ax[0] < 0) != (ax[1] < 0),
                       "axis_neg": isinstance(ax, tuple) and any(a < 0 for a in ax)})


def _sym_spectrum_prep(n, pd=False):
    """x -> Q diag(lam) Q^T with separated spectrum (per batch element)."""

    def prep(xs):
        x = onp.array(xs[0])
        flat = x.reshape((-1, n, n))
        out = onp.empty_like(flat)
        for i, m in enumerate(flat):
            q, _ = onp.linalg.qr(m + 2.0 * onp.eye(n))
            lam = (0.7 if pd else -1.0) + 0.9 * onp.arange(n) + 0.3 * onp.tanh(onp.real(onp.diag(m)))
            out[i] = (q * lam) @ onp.conj(q.T)  # Hermitian for complex draws
        return [out.reshape(x.shape)]

    return prep


@template("l:eigh", "linalg", weight=2)
def _t_eigh(c):
    b = _batch(c, 1)
    n = c.int(1, 3)
    uplo = c.choice([None, "L", "U", "l", "u"])  # (NumPy upper-cases the letter)
    out = c.int(0, 2)  # 0 eigenvalues, 1 |v|^2 (gauge invariant), 2 reconstruction
    raw = c.chance(1, 4)  # eigh applied to the matrix itself: a function of one triangle only (as the repository's tests use it)

    def fn(ns, x):
        cx = ns.iscomplexobj(x)
        xs = x if raw else ((x + ns.conj(_T(ns, x))) / 2 if cx else (x + _T(ns, x)) / 2)
        w, v = ns.linalg.eigh(xs, uplo) if uplo else ns.linalg.eigh(xs)
        if out == 0:
            return w
        if out == 1:
            return ns.real(v * ns.conj(v)) if cx else v * v
        return ns.einsum("...ij,...j,...kj->...ik", v, w, ns.conj(v) if cx else v)

    return Call("l:eigh", fn, [b + (n, n)], dom=(-1, 1), prep=_sym_spectrum_prep(n), desc=["eigh", list(b), n, uplo, out, raw],
                feats={"fn": "eigh", "batch": len(b), "n": n, "uplo": uplo, "out": out, "raw": raw})


@template("l:cholesky", "linalg")
def _t_cholesky(c):
    b = _batch(c, 2)
    n = c.int(1, 3)

    def fn(ns, x):
        if ns.iscomplexobj(x):  # Hermitian positive definite: A = L L^H with a real positive diagonal (no gauge freedom)
            return ns.linalg.cholesky((x + ns.conj(_T(ns, x))) / 2)
        return ns.linalg.cholesky((x + _T(ns, x)) / 2)

    return Call("l:cholesky", fn, [b + (n, n)], dom=(-1, 1), prep=_sym_spectrum_prep(n, pd=True), desc=["cholesky", list(b), n],
                feats={"fn": "cholesky", "batch": len(b), "n": n})


def _eig_prep(n):
    def prep(xs):
        x = onp.array(xs[0])
        flat = x.reshape((-1, n, n))
        out = onp.empty_like(flat)
        for i, m in enumerate(flat):
            p = onp.eye(n) + 0.3 * m
            lam = -1.0 + 0.9 * onp.arange(n) + 0.3 * onp.tanh(onp.real(onp.diag(m))) + 0.3j * onp.tanh(onp.imag(onp.diag(m)))
            if not onp.iscomplexobj(m):
                lam = onp.real(lam)
            out[i] = p @ onp.diag(lam) @ onp.linalg.inv(p)
        return [out.reshape(x.shape)]

    return prep


@template("l:eig", "linalg")
def _t_eig(c):
    b = _batch(c, 1)
    n = c.int(1, 3)
    out = c.int(0, 1)

    def fn(ns, x):
        w, v = ns.linalg.eig(x)
        if out == 0:
            return w if ns.iscomplexobj(x) else ns.real(w)
        return ns.real(v * ns.conj(v))

    return Call("l:eig", fn, [b + (n, n)], dom=(-1, 1), prep=_eig_prep(n), desc=["eig", list(b), n, out],
                feats={"fn": "eig", "batch": len(b), "n": n, "out": out})


def _svd_prep(m, n):
    def prep(xs):
        x = onp.array(xs[0])
        flat = x.reshape((-1, m, n))
        out = onp.empty_like(flat)
        k = min(m, n)
        for i, a in enumerate(flat):
            u, _ = onp.linalg.qr(a @ onp.conj(a.T) + 2.0 * onp.eye(m))
            v, _ = onp.linalg.qr(onp.conj(a.T) @ a + 2.0 * onp.eye(n))
            s = 0.6 + 0.8 * onp.arange(k)[::-1] + 0.2 * onp.tanh(onp.real(a.ravel()[:k]))
            out[i] = (u[:, :k] * s) @ onp.conj(v[:, :k].T)
        return [out.reshape(x.shape)]

    return prep


@template("l:svd", "linalg", weight=2)
def _t_svd(c):
    b = _batch(c, 1)
    m, n = c.int(1, 3), c.int(1, 3)
    out = c.int(0, 3)  # 0 s only (compute_uv=False), 1 s from full, 2 reconstruction, 3 |u|^2,|v|^2
    fm = c.chance(1, 5)

    def fn(ns, x):
        if out == 0:
            return ns.linalg.svd(x, compute_uv=False)
        u, s, vt = ns.linalg.svd(x, full_matrices=fm)
        if out == 1:
            return s
        if out == 2 and not fm:
            return ns.einsum("...ij,...j,...jk->...ik", u, s, vt)
        k = min(m, n)
        if ns.iscomplexobj(x):  # singular vectors are defined up to a phase: |.|^2 is gauge invariant
            u, vt = u[..., :, :k], vt[..., :k, :]
            return ns.concatenate([ns.ravel(ns.real(u * ns.conj(u))), ns.ravel(ns.real(vt * ns.conj(vt))), ns.ravel(s)])
        return ns.concatenate([ns.ravel(u[..., :, :k] ** 2), ns.ravel(vt[..., :k, :] ** 2), ns.ravel(s)])

    return Call("l:svd", fn, [b + (m, n)], dom=(-1, 1), prep=_svd_prep(m, n), desc=["svd", list(b), m, n, out, fm],
                feats={"fn": "svd", "batch": len(b), "m": m, "n": n, "out": out, "full_matrices": fm})


# ---------------------------------------------------------------------------------------------------
# fft

NORMS = [None, "ortho", "backward", "forward"]


@template("f:fft1", "fft", weight=3)
def _t_fft1(c):
    w = c.choice(["fft", "ifft", "rfft", "irfft"])
    s = c.shape(1, 3, max_side=4)
    nd = len(s)
    kw = {}
    ax = -1
    if c.bool():
        ax = c.axis(nd)
        kw["axis"] = ax
    k = c.int(0, 2)  # n: absent / smaller-equal / larger
    if k:
        base = s[ax] if w != "irfft" else 2 * (s[ax] - 1)
        n = max(1, base - c.int(0, 2)) if k == 1 else base + c.int(1, 3)
        kw["n"] = n
    nm = c.choice(NORMS)
    if nm is not None or c.chance(1, 4):
        kw["norm"] = nm
    cplx_in = w in ("fft", "ifft", "irfft")
    return Call("f:fft1", lambda ns, x: getattr(ns.fft, w)(x, **kw), [s], desc=[w, list(s), kw],
                feats={"fn": w, "n_kind": k, "norm": nm, "axis_neg": ax < 0 and "axis" in kw, "real_fft": w in ("rfft", "irfft")}, cplx=cplx_in)


@template("f:fftn", "fft", weight=3)
def _t_fftn(c):
    w = c.choice(["fft2", "ifft2", "fftn", "ifftn", "rfft2", "irfft2", "rfftn", "irfftn"])
    s = c.shape(2, 3, max_side=4)
    nd = len(s)
    kw = {}
    axes = None
    if c.bool():
        k = c.int(1, nd) if w.endswith("n") else 2
        if c.chance(1, 5):
            a0 = c.int(0, nd - 1)
            axes = tuple(c.signed_axis(a0, nd) for _ in range(k))  # repeated axes, each occurrence in either spelling (a or a - ndim)
        else:
            axes = tuple(c.signed_axis(a, nd) for a in c.sample(range(nd), k))
        kw["axes"] = axes
    if c.chance(1, 3):
        eff = axes if axes is not None else (tuple(range(nd)) if w.endswith("n") else (-2, -1))
        kw["s"] = tuple(max(1, s[a] + c.int(-1, 2)) for a in eff)
        if c.chance(1, 3):  # NumPy >= 2: an entry -1 means "the whole axis, no padding or trimming"
            j = c.int(0, len(eff) - 1)
            kw["s"] = tuple(-1 if i == j else n for i, n in enumerate(kw["s"]))
        if axes is None and w.endswith("n"):
            kw["axes"] = eff  # numpy 2 requires axes with s
    nm = c.choice(NORMS)
    if nm is not None:
        kw["norm"] = nm
    real = w.startswith("r") or w.startswith("ir")
    return Call("f:fftn", lambda ns, x: getattr(ns.fft, w)(x, **kw), [s], desc=[w, list(s), {k_: v for k_, v in kw.items()}],
                feats={"fn": w, "has_s": "s" in kw, "norm": nm, "repeated_axes": axes is not None and len({a_ % nd for a_ in axes}) < len(axes),
                       "real_fft": real}, cplx=not w.startswith("r"))


@template("f:shift", "fft")
def _t_shift(c):
    w = c.choice(["fftshift", "ifftshift"])
    s = c.shape(1, 3, max_side=4)
    nd = len(s)
    k = c.int(0, 2)
    if k == 0:
        fn = lambda ns, x: getattr(ns.fft, w)(x)
        axes = None
    elif k == 1:
        axes = c.axis(nd)
        fn = lambda ns, x: getattr(ns.fft, w)(x, axes=axes)
    else:
        axes = tuple(c.signed_axis(a, nd) for a in c.sample(range(nd), c.int(1, nd)))
        fn = lambda ns, x: getattr(ns.fft, w)(x, axes)
    return Call("f:shift", fn, [s], desc=[w, list(s), axes], feats={"fn": w, "axes_kind": k})
