from . import core  # noqa: F401
from . import elementwise, shape, contract, linalg, sweep  # noqa: F401  (register templates)
from .core import TEMPLATES, namespaces  # noqa: F401
