"""First-order derivative checks of one template instance against the raw-NumPy oracle (C01, C02, C09)."""
import json

import numpy as onp

from . import oracle, values
from .case import Outcome, fail, ok, raised
from .templates.core import namespaces

TOL_REL = 1e-7
MAX_BASIS_IN = 6
MAX_BASIS_OUT = 40


def primal(inst):
    """Plain NumPy call.  Returns (status, y0)."""
    NP, AG = namespaces()
    try:
        y0 = inst.call.fn(NP, *inst.xs)
    except Exception as e:
        return "numpy_rejects", f"{type(e).__name__}: {e}"[:120]
    try:
        a = onp.asarray(y0)
    except Exception as e:
        return "numpy_rejects", "ragged output"
    if a.dtype == object or a.dtype.kind not in "fc":
        return "numpy_rejects", f"non-float output {a.dtype}"
    if not onp.all(onp.isfinite(a)):
        return "numpy_rejects", "non-finite primal"
    return "ok", y0


def in_directions(inst, nmax=MAX_BASIS_IN):
    x = onp.asarray(inst.x)
    cplx = x.dtype.kind == "c"
    n = x.size
    dirs = []
    if n * (2 if cplx else 1) <= nmax and n > 0:
        for i in range(n):
            e = onp.zeros(x.shape, dtype=x.dtype)
            e.reshape(-1)[i] = 1.0
            dirs.append(e)
            if cplx:
                e2 = onp.zeros(x.shape, dtype=x.dtype)
                e2.reshape(-1)[i] = 1.0j
                dirs.append(e2)
    else:
        for k in range(3):
            dirs.append(values.cdirection(inst.vseed, x.shape, 20 + k) if cplx else values.direction(inst.vseed, x.shape, 20 + k))
    return dirs


def numeric(inst, dirs):
    NP, AG = namespaces()
    f = inst.f(NP)
    x = onp.asarray(inst.x)
    out = []
    for v in dirs:
        out.append(oracle.directional(f, x, v, inst.h0))
    return out


def key_of(inst, mode):
    return json.dumps([inst.call.name, inst.call.feats, inst.argsel, inst.carriers, inst.cmask, mode], sort_keys=True, default=repr)


def bucket_of(inst, mode, kind):
    return f"{inst.call.name}|{inst.call.feats.get('fn', '')}|{mode}|{kind}"


def _tol(a, b, err):
    scale = max(1.0, float(onp.max(onp.abs(a), initial=0.0)), float(onp.max(onp.abs(b), initial=0.0)))
    return TOL_REL * scale + 100 * err


def out_basis(y):
    """Standard basis of the output space (real pairing), as arrays shaped like y."""
    a = onp.asarray(y)
    cplx = a.dtype.kind == "c"
    dt = onp.complex128 if cplx else onp.float64
    for i in range(a.size):
        e = onp.zeros(a.shape, dtype=dt)
        e.reshape(-1)[i] = 1.0
        yield e
        if cplx:
            e = onp.zeros(a.shape, dtype=dt)
            e.reshape(-1)[i] = 1.0j
            yield e


def check_reverse(inst, y0, nums, dirs, nontrivial=True, labels=()):
    """vjp(g) against J^T g: full analytic Jacobian (rows from the output basis) applied to each direction."""
    import autograd
    from autograd.tracer import isbox

    NP, AG = namespaces()
    x = inst.x_carried()
    sample = inst.describe()
    y0a = onp.asarray(y0)
    g = values.cdirection(inst.vseed, y0a.shape, 31) if y0a.dtype.kind == "c" else values.direction(inst.vseed, y0a.shape, 31)
    try:
        vjp, y = autograd.make_vjp(inst.f(AG))(x)
        rows = None
        if 0 < y0a.size <= MAX_BASIS_OUT and onp.shape(y) == y0a.shape:
            rows = [vjp(e) for e in out_basis(y0a)]
        r = vjp(g)
    except Exception as e:
        return raised(e, "rev", labels=labels, sample=sample)
    xa = onp.asarray(inst.x)
    for cand in [r] + (rows or []):
        if isbox(cand):
            return fail("tracer_leak", "vjp returned a box", bucket_of(inst, "rev", "tracer_leak"), sample=sample)
        try:
            ca = onp.asarray(cand)
        except Exception:
            return fail("wrong_kind", f"vjp returned {type(cand).__name__}", bucket_of(inst, "rev", "wrong_kind"), sample=sample)
        if ca.dtype == object:
            return fail("wrong_kind", f"vjp returned object array / {type(cand).__name__}", bucket_of(inst, "rev", "wrong_kind"), sample=sample)
        if ca.shape != xa.shape:
            return fail("wrong_shape", f"cotangent shape {ca.shape} for argument shape {xa.shape}", bucket_of(inst, "rev", "wrong_shape"), sample=sample)
        if ca.dtype.kind == "c" and xa.dtype.kind != "c":
            return fail("wrong_kind", "complex cotangent for a real argument", bucket_of(inst, "rev", "wrong_kind"), sample=sample)
        if not onp.all(onp.isfinite(ca)):
            return fail("nonfinite", "non-finite cotangent at a regular point", bucket_of(inst, "rev", "nonfinite"), sample=sample)
    for v, (dv, err) in zip(dirs, nums):
        an = oracle.rdot(r, v)
        nu = oracle.rdot(g, dv)
        tol = TOL_REL * max(1.0, abs(an), abs(nu)) + 100 * err * float(onp.sum(onp.abs(g)))
        if not abs(an - nu) <= tol:
            return fail("wrong_value", f"<vjp(g),v>={an!r} but <g,Jv>={nu!r} (oracle err {err:.1e})",
                        bucket_of(inst, "rev", "wrong_value"), sample=sample)
        if rows is not None:
            an_vec = onp.array([oracle.rdot(ri, v) for ri in rows])
            nu_vec = onp.array([oracle.rdot(e, dv) for e in out_basis(y0a)])
            d = onp.abs(an_vec - nu_vec)
            if not onp.all(d <= _tol(an_vec, nu_vec, err)):
                i = int(onp.argmax(d))
                return fail("wrong_value", f"Jacobian row {i}: analytic {an_vec[i]!r} numeric {nu_vec[i]!r} (oracle err {err:.1e})",
                            bucket_of(inst, "rev", "wrong_value"), sample=sample)
    return ok(nontrivial=nontrivial, key=key_of(inst, "rev"), labels=labels, sample=sample)


def check_forward(inst, y0, nums, dirs, nontrivial=True, labels=()):
    import autograd
    from autograd.tracer import isbox

    NP, AG = namespaces()
    x = inst.x_carried()
    sample = inst.describe()
    y0a = onp.asarray(y0)
    xa = onp.asarray(inst.x)
    for v, (dv, err) in zip(dirs, nums):
        vv = v
        if xa.ndim == 0 and not isinstance(x, onp.ndarray):
            vv = complex(v) if xa.dtype.kind == "c" else float(v)
        try:
            y, t = autograd.make_jvp(inst.f(AG))(x)(vv)
        except Exception as e:
            return raised(e, "fwd", labels=labels, sample=sample)
        if isbox(t):
            return fail("tracer_leak", "jvp returned a box", bucket_of(inst, "fwd", "tracer_leak"), sample=sample)
        try:
            ta = onp.asarray(t)
        except Exception:
            return fail("wrong_kind", f"jvp returned {type(t).__name__}", bucket_of(inst, "fwd", "wrong_kind"), sample=sample)
        if ta.dtype == object:
            return fail("wrong_kind", f"jvp returned {type(t).__name__}", bucket_of(inst, "fwd", "wrong_kind"), sample=sample)
        if ta.shape != y0a.shape:
            return fail("wrong_shape", f"tangent shape {ta.shape} for output shape {y0a.shape}", bucket_of(inst, "fwd", "wrong_shape"), sample=sample)
        if ta.dtype.kind == "c" and y0a.dtype.kind != "c":
            return fail("wrong_kind", "complex tangent for a real output", bucket_of(inst, "fwd", "wrong_kind"), sample=sample)
        if not onp.all(onp.isfinite(ta)):
            return fail("nonfinite", "non-finite tangent at a regular point", bucket_of(inst, "fwd", "nonfinite"), sample=sample)
        d = onp.abs(ta - dv)
        if not onp.all(d <= _tol(ta, dv, err)):
            i = int(onp.argmax(d))
            return fail("wrong_value", f"tangent entry {i}: analytic {ta.reshape(-1)[i]!r} numeric {onp.asarray(dv).reshape(-1)[i]!r} (oracle err {err:.1e})",
                        bucket_of(inst, "fwd", "wrong_value"), sample=sample)
    return ok(nontrivial=nontrivial, key=key_of(inst, "fwd"), labels=labels, sample=sample)


def run_first_order(case, tdef, mode, allow_complex=False, force_complex=False):
    from .templates.core import instantiate

    call = tdef.draw(case)
    inst = instantiate(case, call, allow_complex=allow_complex, force_complex=force_complex)
    labels = _labels(inst)
    st, y0 = primal(inst)
    if st != "ok":
        return Outcome("numpy_rejects", detail=y0, labels=labels, sample=inst.describe())
    dirs = in_directions(inst)
    try:
        nums = numeric(inst, dirs)
    except oracle.Inconclusive as e:
        return Outcome("inconclusive", detail=str(e), labels=labels, sample=inst.describe())
    except Exception as e:
        return Outcome("numpy_rejects", detail=f"perturbed: {type(e).__name__}: {e}"[:120], labels=labels, sample=inst.describe())
    if mode == "rev":
        return check_reverse(inst, y0, nums, dirs, labels=labels)
    return check_forward(inst, y0, nums, dirs, labels=labels)


def _labels(inst):
    f = inst.call.feats
    labs = [f"rank={len(inst.call.shapes[inst.argsel if isinstance(inst.argsel, int) else 0])}",
            f"carrier={inst.carriers[inst.argsel if isinstance(inst.argsel, int) else 0]}",
            "argsel=same" if isinstance(inst.argsel, tuple) else f"argnum={inst.argsel}"]
    if f.get("broadcast"):
        labs.append("broadcast")
    if f.get("axis_kind"):
        labs.append(f"axis={f['axis_kind']}")
    if f.get("axis_neg") or f.get("axes_neg"):
        labs.append("axis_negative")
    if any(inst.cmask):
        labs.append("complex_arg")
    return labs
