"""Generated array programs (compositions of differentiable array operations), shared by C04, C07 and C10.

A program is a JSON-able dict: input shape, a list of statements over named values, an output selection.
Values are arrays; every op keeps shapes consistent by construction.  `run(prog, x, ns)` evaluates it with
namespace ns (raw numpy or autograd.numpy).
"""
import numpy as onp

from . import values

UNARY = ["sin", "tanh", "exp_s", "sq", "neg", "cos"]
BINARY = ["add", "sub", "mul", "div_s"]


def gen(c, max_ops=8):
    n = c.int(1, 4)  # (length-one leading axes: rank-raising broadcasts that add nothing but an axis)
    two_d = c.bool()
    shape = (n, c.int(2, 3)) if two_d else (max(n, 2),)
    stmts = []
    shapes = [shape]  # shape of each value; value 0 is the input

    def pick(shape_filter=None):
        cands = [i for i, s in enumerate(shapes) if shape_filter is None or s == shape_filter]
        return cands[c.int(0, len(cands) - 1)]

    for _ in range(max_ops):
        k = c.int(0, 12)
        if k == 12 and c.chance(1, 2):
            # one value with three consumers created in a drawn order: a non-zero contribution, an exactly-zero contribution (a saturated
            # maximum) and a pass-through contribution shared with a sibling that is still waiting for another one of its own
            a = pick()
            stmts.append(["zero_mid", a, c.perm(3), c.bool()])
            shapes.append(shapes[a])
            continue
        if k == 11 and c.chance(1, 3):
            # a value used as the (non-differentiable) CONDITION of where - as a whole or through a smaller slice of it that is broadcast
            # against the result - and, on another path, as an ordinary operand: the condition's zero contribution meets the real one
            a = pick()
            stmts.append(["wherec", a, c.int(0, 2), c.bool()])
            shapes.append(shapes[a])
            continue
        if k == 12 and c.chance(1, 3):
            # three uses of one value whose contributions arrive in a drawn order: through a function, through an index expression that selects
            # EVERY entry (a sparse contribution covering the whole value), and passed through unchanged; sums share cotangent objects
            a = pick()
            stmts.append(["widx", a, c.int(0, 2), c.perm(3)])
            shapes.append(shapes[a])
            continue
        if k == 12:
            # b = sin(a); d = a + b (one cotangent object for a and b); c_ = b[i] (indexed use of b); result c_ + d or d + c_
            a = pick()
            s_ = shapes[a]
            if len(s_) == 0:
                continue
            stmts.append(["shared", a, c.int(0, s_[0] - 1), c.bool()])
            shapes.append(s_)
            continue
        if k <= 2:
            a = pick()
            stmts.append(["u", UNARY[c.int(0, len(UNARY) - 1)], a])
            shapes.append(shapes[a])
        elif k <= 5:
            a = pick()
            b = pick(shapes[a])
            stmts.append(["b", BINARY[c.int(0, len(BINARY) - 1)], a, b])
            shapes.append(shapes[a])
        elif k == 6:  # scale by constant / add constant (pass-through style rules)
            a = pick()
            # (zero_mul / saturated_max: results whose cotangent contribution to `a` is an exactly-zero array)
            stmts.append(["k", c.choice(["addc", "mulc", "reshape_same", "subc_left", "zero_mul", "saturated_max", "half_max", "idx_ellipsis", "idx_colon", "idx_colon_ellipsis"]), a])
            shapes.append(shapes[a])
        elif k == 7:  # indexing (sparse contribution) followed by padding back via multiplication with a mask-free broadcast
            a = pick()
            s = shapes[a]
            if len(s) == 0:
                continue
            i = c.int(0, s[0] - 1)
            if c.chance(1, 3):  # a length-one slice: a view that keeps the rank (later broadcast against lower-rank values of the same row shape)
                stmts.append(["sl", a, i])
                shapes.append((1,) + tuple(s[1:]))
                continue
            stmts.append(["idx", a, i])
            shapes.append(s[1:])
        elif k == 8:  # reduction
            a = pick()
            s = shapes[a]
            if len(s) == 0:
                continue
            ax = c.int(0, len(s) - 1)
            stmts.append(["sum", a, ax])
            shapes.append(s[:ax] + s[ax + 1:])
        elif k == 9:  # dot with a constant matrix on the left (keeps shape)
            a = pick()
            s = shapes[a]
            if len(s) == 0:
                continue
            stmts.append(["dot", a, c.int(0, 2)])
            shapes.append(s)
        elif k == 10:  # broadcast a lower-rank value against a higher-rank one
            a = pick()
            cands = [i for i, s in enumerate(shapes) if len(s) < len(shapes[a]) and shapes[a][len(shapes[a]) - len(s):] == s]
            if not cands:
                continue
            b = cands[c.int(0, len(cands) - 1)]
            opn = BINARY[c.int(0, 2)]
            stmts.append(["b", opn, b, a] if c.bool() else ["b", opn, a, b])  # the lower-rank operand on either side
            shapes.append(shapes[a])
        else:  # concatenate with itself / another of the same shape along axis 0 (rank >= 1)
            a = pick()
            s = shapes[a]
            if len(s) == 0:
                continue
            b = pick(s)
            stmts.append(["cat", a, b])
            shapes.append((2 * s[0],) + s[1:])
    n_out = c.int(1, 2)
    outs = []
    for _ in range(n_out):
        idx = len(shapes) - 1 - c.int(0, min(len(shapes) - 1, 2))
        outs.append(idx)
    return {"shape": list(shape), "stmts": stmts, "out": outs}


def input_value(prog, vseed):
    x = values.generic(vseed, [tuple(prog["shape"])], -1.2, 1.2)[0][0]
    x.flags.writeable = False
    return x


def _const(shape, k):
    n = int(onp.prod(shape)) if len(shape) else 1
    return (0.4 + 0.15 * ((onp.arange(n) * (k + 3)) % 7)).reshape(shape)


def run(prog, x, ns, raw=False):
    """raw: a single selected output is returned as it is (not ravelled, not scaled), so that the caller's cotangent reaches its operation directly."""
    vals = [x]
    for st in prog["stmts"]:
        t = st[0]
        if t == "u":
            a = vals[st[2]]
            name = st[1]
            if name == "exp_s":
                r = ns.exp(0.3 * a)
            elif name == "sq":
                r = a * a
            elif name == "neg":
                r = -a
            else:
                r = getattr(ns, name)(a)
        elif t == "b":
            a, b = vals[st[2]], vals[st[3]]
            name = st[1]
            if name == "add":
                r = a + b
            elif name == "sub":
                r = a - b
            elif name == "mul":
                r = a * b
            else:
                r = a / (b * b + 1.5)
        elif t == "k":
            a = vals[st[2]]
            name = st[1]
            if name == "addc":
                r = a + 0.5
            elif name == "mulc":
                r = a * 1.5
            elif name == "subc_left":
                r = 2.0 - a
            elif name == "zero_mul":
                r = a * 0.0 + 0.25
            elif name == "saturated_max":
                r = ns.maximum(a, 1.0e6) * 1.0e-6
            elif name == "half_max":
                r = ns.maximum(a, 0.137)  # some entries pass, others are clamped (a tie has probability zero on the value grid)
            elif name == "idx_ellipsis":  # an index expression that selects every entry once: a sparse contribution covering the whole value
                r = a[...]
            elif name == "idx_colon":
                r = a[:] if len(onp.shape(a) if not hasattr(a, "shape") else a.shape) else a[...]
            elif name == "idx_colon_ellipsis":
                r = a[:, ...] if len(onp.shape(a) if not hasattr(a, "shape") else a.shape) else a[...]
            else:
                r = ns.reshape(a, onp.shape(a))
        elif t == "idx":
            r = vals[st[1]][st[2]]
        elif t == "sl":
            r = vals[st[1]][st[2]:st[2] + 1]
        elif t == "sum":
            r = ns.sum(vals[st[1]], axis=st[2])
        elif t == "dot":
            a = vals[st[1]]
            m = onp.shape(a)[0]
            form = st[2] if len(st) > 2 else 0
            K_ = _const((m, m), 1)
            r = ns.dot(K_, a) if form == 0 else (ns.matmul(K_, a) if form == 1 else K_ @ a)
        elif t == "shared":
            a = vals[st[1]]
            b = ns.sin(a)
            d = a + b
            c_ = b[st[2]]
            r = (c_ + d) if st[3] else (d + c_)
        elif t == "wherec":
            a = vals[st[1]]
            nd_ = len(onp.shape(a) if not hasattr(a, "shape") else a.shape)
            cond = a if (st[2] == 0 or nd_ == 0) else (a[0] if st[2] == 1 else a[..., :1])  # every entry is non-zero: the first branch is taken
            sel = ns.where(cond, a * 1.5, a * a)
            r = (sel + cond) if st[3] else (cond * 0.5 + sel)
        elif t == "widx":
            a = vals[st[1]]
            nd_ = len(onp.shape(a) if not hasattr(a, "shape") else a.shape)
            whole = [a[...], a[:] if nd_ else a[...], a[:, ...] if nd_ else a[...]][st[2]]
            terms = [ns.sin(a), whole, a]
            t0, t1, t2 = (terms[w] for w in st[3])
            r = (t0 + t1) + t2
        elif t == "zero_mid":
            a = vals[st[1]]
            z = ns.cos(a)
            u1 = z * z * z
            parts = {}
            for which in st[2]:
                if which == 0:
                    parts[0] = 3.0 * a * a
                elif which == 1:
                    parts[1] = ns.maximum(a, 1.0e6) * 1.0e-6
                else:
                    parts[2] = (a + z) ** 2
            t0, t1, t2 = (parts[w] for w in st[2])  # the order of summation decides the order in which the contributions arrive
            r = (u1 + t0 + t1 + t2) if st[3] else (t0 + t1 + t2 + u1)
        elif t == "cat":
            r = ns.concatenate([vals[st[1]], vals[st[2]]], axis=0)
        else:
            raise KeyError(t)
        vals.append(r)
    outs = [vals[i] for i in prog["out"]]
    if raw and len(outs) == 1:
        return outs[0]
    parts = [ns.ravel(o) * (1.0 + 0.5 * j) for j, o in enumerate(outs)]
    return ns.concatenate(parts) if len(parts) > 1 else parts[0]
