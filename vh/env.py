"""Locate the repository under test, put it first on sys.path, read VERIF_* variables.

Importing this module is the "rebuild from the working tree" step: autograd is pure
Python, so the check process imports it straight from $VERIF_REPO (default /repo).
"""
import os
import sys
import warnings

VERIF_DIR = os.path.dirname(os.path.dirname(os.path.abspath(__file__)))
REPO = os.path.abspath(os.environ.get("VERIF_REPO", "/repo"))
SEED = int(os.environ.get("VERIF_SEED", "1") or "1")
TIER = os.environ.get("VERIF_TIER", "quick") or "quick"
OUT_DIR = os.path.abspath(os.environ.get("VERIF_OUT", VERIF_DIR))  # where evidence/ and replays/ are written
NPROC = int(os.environ.get("VERIF_NPROC", "0") or "0") or min(16, os.cpu_count() or 1)

_deps = os.path.join(VERIF_DIR, ".deps")
if os.path.isdir(_deps) and _deps not in sys.path:
    sys.path.append(_deps)
if REPO in sys.path:
    sys.path.remove(REPO)
sys.path.insert(0, REPO)


class HarnessError(Exception):
    """Something is wrong with the harness or its environment (exit code 2, never a VIOLATION)."""


def load_autograd():
    warnings.simplefilter("ignore")
    import numpy

    numpy.seterr(all="ignore")
    import autograd

    here = os.path.abspath(autograd.__file__)
    if not here.startswith(REPO + os.sep):
        raise HarnessError(f"autograd imported from {here}, expected under {REPO}")
    import autograd.numpy  # noqa: F401
    import autograd.numpy.linalg  # noqa: F401
    import autograd.numpy.fft  # noqa: F401
    import autograd.numpy.random  # noqa: F401

    return autograd


def load_signal():
    """autograd.scipy.signal needs only numpy+autograd but `autograd.scipy` imports scipy; load by path."""
    import importlib.util

    name = "_vh_autograd_scipy_signal"
    if name in sys.modules:
        return sys.modules[name]
    path = os.path.join(REPO, "autograd", "scipy", "signal.py")
    spec = importlib.util.spec_from_file_location(name, path)
    mod = importlib.util.module_from_spec(spec)
    sys.modules[name] = mod
    spec.loader.exec_module(mod)
    return mod


MASK64 = (1 << 64) - 1


def mix64(*ints):
    """Fixed integer mixer (splitmix64 finaliser folded over the arguments); independent of PYTHONHASHSEED."""
    z = 0x9E3779B97F4A7C15
    for v in ints:
        z = (z + (int(v) & MASK64) + 0x9E3779B97F4A7C15) & MASK64
        z ^= z >> 30
        z = (z * 0xBF58476D1CE4E5B9) & MASK64
        z ^= z >> 27
        z = (z * 0x94D049BB133111EB) & MASK64
        z ^= z >> 31
    return z


def strhash(s):
    h = 1469598103934665603
    for ch in s.encode():
        h = ((h ^ ch) * 1099511628211) & MASK64
    return h


def _json_numpy_scalars():
    """Keys, descriptions and samples may hold NumPy scalars (e.g. an axis spelled as np.int64): serialise them as plain numbers."""
    import json

    import numpy

    orig = json.JSONEncoder.default

    def default(self, o):
        if isinstance(o, numpy.generic):
            return o.item()
        if isinstance(o, numpy.ndarray):
            return o.tolist()
        return orig(self, o)

    if getattr(json.JSONEncoder.default, "__name__", "") != "default" or json.JSONEncoder.default is orig and orig.__qualname__ == "JSONEncoder.default":
        json.JSONEncoder.default = default


_json_numpy_scalars()
