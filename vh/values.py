"""Generic-point value construction from a Hypothesis-drawn integer seed.

All real slots of a case share one stratified grid over [lo, hi]: values are pairwise separated
by at least half a cell, so max/min/sort/maximum see no ties, and the separation bounds the
finite-difference step.  Everything is a pure function of (vseed, shapes, lo, hi).
"""
import numpy as onp

_M = onp.uint64(0xFFFFFFFFFFFFFFFF)


def uniforms(vseed, n, stream=0):
    """n floats in [0,1): splitmix64 counter stream keyed by (vseed, stream)."""
    with onp.errstate(over="ignore"):
        z = (onp.arange(1, n + 1, dtype=onp.uint64) * onp.uint64(0x9E3779B97F4A7C15)
             + onp.uint64((vseed * 0x632BE59BD9B4E019 + stream * 0xD1342543DE82EF95 + 0x1234567) & 0xFFFFFFFFFFFFFFFF))
        z ^= z >> onp.uint64(30)
        z *= onp.uint64(0xBF58476D1CE4E5B9)
        z ^= z >> onp.uint64(27)
        z *= onp.uint64(0x94D049BB133111EB)
        z ^= z >> onp.uint64(31)
    return (z >> onp.uint64(11)).astype(onp.float64) / float(1 << 53)


def generic(vseed, shapes, lo=-2.0, hi=2.0, stream=0, avoid=(), margin=0.08):
    """Return (list of float64 arrays of the given shapes, separation).

    avoid: points to keep away from by at least `margin` (values are pushed to the nearer side).
    """
    sizes = [int(onp.prod(s)) if len(s) else 1 for s in shapes]
    n = max(1, sum(sizes))
    u = uniforms(vseed, 2 * n, stream)
    perm = onp.argsort(u[:n], kind="stable")
    cell = (hi - lo) / n
    vals = lo + cell * (perm + 0.5 + 0.25 * (2 * u[n:] - 1))
    sep = 0.5 * cell
    for a in avoid:
        d = vals - a
        close = onp.abs(d) < margin
        if close.any():
            # push away, keeping order of magnitudes distinct by scaling the offset into [margin, 1.5 margin]
            sgn = onp.where(d >= 0, 1.0, -1.0)
            vals = onp.where(close, a + sgn * (margin + 0.5 * onp.abs(d)), vals)
            sep = min(sep, margin / 4)
    out = []
    k = 0
    for s, m in zip(shapes, sizes):
        out.append(onp.array(vals[k:k + m], dtype=onp.float64).reshape(s))
        k += m
    return out, float(sep)


def direction(vseed, shape, stream=1):
    """Tangent/cotangent entries in [-1,1] with |entry| >= 0.1."""
    n = int(onp.prod(shape)) if len(shape) else 1
    u = uniforms(vseed, n, stream)
    v = 2 * u - 1
    v = onp.where(onp.abs(v) < 0.1, onp.where(v >= 0, 0.1 + onp.abs(v), -0.1 - onp.abs(v)), v)
    return relayout(v.reshape(shape), layout_key(vseed, stream))


def cdirection(vseed, shape, stream=1):
    return relayout(direction(vseed, shape, stream) + 1j * direction(vseed, shape, stream + 101), layout_key(vseed, stream + 50))


def layout_key(vseed, stream, idx=0):
    """0..7 from the value seed (0 for vseed 0, so shrunk cases keep plain C-contiguous arrays)."""
    if vseed == 0:
        return 0
    return int(uniforms(vseed, 1, 7919 + 31 * stream + idx)[0] * 8)


def relayout(a, key):
    """The same values and shape in another memory layout (keys 0-3: unchanged).  Derivatives are functions of values, never of
    strides; rules that reshape or accumulate in place are the ones that can tell the difference."""
    if not isinstance(a, onp.ndarray) or a.ndim == 0 or a.size == 0 or key < 4:
        return a
    if key == 4 and a.ndim >= 2:
        return onp.asfortranarray(a)
    if key == 5:  # every other element of a buffer twice as long (non-contiguous view)
        big = onp.zeros(a.shape[:-1] + (2 * a.shape[-1],), dtype=a.dtype)
        big[..., ::2] = a
        return big[..., ::2]
    if key == 6:  # negative stride along the first axis
        return onp.ascontiguousarray(a[::-1])[::-1]
    if key == 7 and a.ndim >= 2:  # last two axes stored transposed (not contiguous in either order for rank > 2)
        return onp.swapaxes(onp.ascontiguousarray(onp.swapaxes(a, -1, -2)), -1, -2)
    return a
