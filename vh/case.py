"""The draw interface every generator is written against.

A case is the sequence of bounded integer choices made while building it.  Under
Hypothesis each choice is `data.draw(st.integers(lo, hi))`, so Hypothesis owns every random
decision, shrinks the sequence, and the recorded sequence *is* the replay spec: feeding it
back through `ReplayCase` rebuilds the same arrays, programs, histories and schedules with
no Hypothesis and no randomness involved.
"""
from hypothesis import strategies as st


class StaleReplay(Exception):
    """A replay file does not fit the generator any more (exit 2, not a violation)."""


class Reject(Exception):
    """The generator decided the drawn configuration is not a valid input (counted, discarded)."""


class Case:
    def __init__(self):
        self.choices = []
        self.features = {}
        self.notes = {}

    # -- primitive draw -------------------------------------------------------------------
    def _draw(self, lo, hi):
        raise NotImplementedError

    def int(self, lo, hi):
        if hi < lo:
            raise ValueError(f"empty range {lo}..{hi}")
        v = self._draw(lo, hi)
        self.choices.append(v)
        return v

    # -- derived draws ---------------------------------------------------------------------
    def bool(self):
        return self.int(0, 1) == 1

    def chance(self, num, den):
        """True with probability num/den; shrinks to False."""
        return self.int(0, den - 1) >= den - num

    def choice(self, seq):
        seq = list(seq)
        return seq[self.int(0, len(seq) - 1)]

    def seed(self):
        return self.int(0, 2**31 - 1)

    def sample(self, seq, k):
        pool = list(seq)
        out = []
        for _ in range(k):
            out.append(pool.pop(self.int(0, len(pool) - 1)))
        return out

    def perm(self, n):
        return self.sample(range(n), n)

    def subset(self, seq, min_size=0):
        seq = list(seq)
        out = [e for e in seq if self.bool()]
        if len(out) < min_size:
            rest = [e for e in seq if e not in out]
            out += rest[: min_size - len(out)]
        return out

    def shape(self, min_rank=0, max_rank=3, max_side=3, min_side=1):
        r = self.int(min_rank, max_rank)
        return tuple(self.int(min_side, max_side) for _ in range(r))

    def signed_axis(self, a, nd):
        """Return axis a or its negative form a-nd; one time in four as a NumPy integer or 0-d integer array (what np.argmax, np.arange or shape arithmetic
        hand to user code).  The spelling is a function of the choices made so far, so it needs no draw of its own."""
        a = a - nd if self.bool() else a
        h = 0x9E3779B97F4A7C15
        for ch in self.choices[-6:]:
            h = ((h ^ (ch & 0xFFFFFFFFFFFF)) * 0xBF58476D1CE4E5B9) & 0xFFFFFFFFFFFFFFFF
        h ^= h >> 29
        if h % 4 == 0:
            import numpy as onp

            return (onp.int64, onp.int32, onp.intp, onp.array)[(h >> 8) % 4](a)  # (a 0-d integer array is an axis for NumPy too)
        return a

    def axis(self, nd):
        return self.signed_axis(self.int(0, nd - 1), nd)

    def bshape(self, res):
        """A shape that broadcasts to `res`: drop leading dims, set some dims to 1."""
        res = tuple(res)
        k = self.int(0, len(res))
        return tuple(1 if self.chance(1, 4) else d for d in res[k:])


class HypCase(Case):
    def __init__(self, data):
        super().__init__()
        self._data = data

    def _draw(self, lo, hi):
        return self._data.draw(st.integers(lo, hi))


class UniformCase(Case):
    """Every choice uniform and independent: a splitmix64 stream keyed by ONE integer that Hypothesis draws.  Hypothesis's own
    generation of many small bounded integers is far from uniform over the product space (measured: some of 16 equally likely
    configuration cells never appeared in 300 cases), which matters for the finite configuration grids the templates draw from."""

    def __init__(self, seed):
        super().__init__()
        self._state = seed & 0xFFFFFFFFFFFFFFFF

    def _draw(self, lo, hi):
        self._state = (self._state + 0x9E3779B97F4A7C15) & 0xFFFFFFFFFFFFFFFF
        z = self._state
        z = ((z ^ (z >> 30)) * 0xBF58476D1CE4E5B9) & 0xFFFFFFFFFFFFFFFF
        z = ((z ^ (z >> 27)) * 0x94D049BB133111EB) & 0xFFFFFFFFFFFFFFFF
        z ^= z >> 31
        return lo + z % (hi - lo + 1)


class ReplayCase(Case):
    def __init__(self, choices):
        super().__init__()
        self._src = list(choices)
        self._pos = 0

    def _draw(self, lo, hi):
        if self._pos >= len(self._src):
            raise StaleReplay("replay exhausted: the generator asks for more choices than were recorded")
        v = self._src[self._pos]
        self._pos += 1
        if not (isinstance(v, int) and lo <= v <= hi):
            raise StaleReplay(f"replay choice {v!r} outside {lo}..{hi} at position {self._pos - 1}")
        return v


class Outcome:
    """Classified result of one case."""

    __slots__ = ("status", "kind", "detail", "bucket", "nontrivial", "key", "labels", "sample")

    def __init__(self, status, kind=None, detail=None, bucket=None, nontrivial=False, key=None, labels=(), sample=None):
        self.status = status  # ok | raised | inconclusive | numpy_rejects | fail
        self.kind = kind  # for fail: wrong_value, wrong_shape ...; for raised: exception bucket
        self.detail = detail
        self.bucket = bucket  # root-cause bucket for fail
        self.nontrivial = nontrivial
        self.key = key  # distinctness key (string) for non-trivial counting
        self.labels = tuple(labels)
        self.sample = sample  # JSON-able description of the case


def ok(**kw):
    return Outcome("ok", **kw)


def fail(kind, detail, bucket, **kw):
    return Outcome("fail", kind=kind, detail=detail, bucket=bucket, **kw)


def raised(exc, where="", **kw):
    return Outcome("raised", kind=exc_bucket(exc, where), detail=str(exc)[:200], **kw)


def exc_bucket(exc, where=""):
    """(exception type, innermost autograd frame) — used to bucket `raised` outcomes."""
    import traceback

    frame = ""
    tb = exc.__traceback__
    for fs in reversed(traceback.extract_tb(tb)):
        if "/autograd/" in fs.filename:
            frame = f"{fs.filename.split('/autograd/')[-1]}:{fs.name}"
            break
    return f"{type(exc).__name__}@{frame or where}"


def describe_exc(e, limit=3):
    """Exception summary with the innermost autograd frames (for failure details)."""
    import traceback

    frames = [f"{fs.filename.split('/autograd/')[-1]}:{fs.lineno}:{fs.name}" for fs in traceback.extract_tb(e.__traceback__)
              if "/autograd/" in fs.filename]
    return f"{type(e).__name__}: {e} @ {' > '.join(frames[-limit:])}"[:400]


def from_autograd(e):
    """Did this exception pass through autograd code (as opposed to being raised by harness code alone)?"""
    import traceback

    return any("/autograd/" in fs.filename for fs in traceback.extract_tb(e.__traceback__))
