"""Dev tool: regenerate the table of section 7 (repaired defects) of DESIGN.md from known_findings.json."""
import json
import os
import re

HERE = os.path.dirname(os.path.abspath(__file__))


def main():
    kf = json.load(open(os.path.join(HERE, "known_findings.json")))
    rows = []
    for r in kf["fixed"]:
        pins = ", ".join("`" + p.split("/", 1)[1] + "`" for p in r["pinned"])
        rows.append(f"| {r['property']} | `{r['commit']}` | {r['what']} | {pins} |")
    p = os.path.join(HERE, "DESIGN.md")
    s = open(p).read()
    head = "| property | commit | what failed | pinned case(s) under `regress/` |\n|---|---|---|---|\n"
    i = s.index(head) + len(head)
    j = s.index("\n\n", i)
    s = s[:i] + "\n".join(rows) + s[j:]
    open(p, "w").write(s)
    print(len(rows), "rows in section 7")


if __name__ == "__main__":
    main()
