#!/bin/sh
# dev tool: validate MANIFEST.json and evidence/*.json against the schemas (uses the tooling venv's jsonschema)
cd "$(dirname "$0")"
python3-vt - <<'PY'
import json, glob, jsonschema
ms=json.load(open('/root/.vp/MANIFEST.schema.json')); es=json.load(open('/root/.vp/EVIDENCE.schema.json'))
jsonschema.validate(json.load(open('MANIFEST.json')), ms); print('MANIFEST ok')
for f in sorted(glob.glob('evidence/*.json')):
    try:
        jsonschema.validate(json.load(open(f)), es); print(f,'ok')
    except Exception as e: print(f,'INVALID',str(e)[:300])
PY
