#!/bin/sh
# offline bootstrap: make sure hypothesis and numpy import in /venv (install from the local wheelhouse if not)
cd "$(dirname "$0")" || exit 2
PY=${VERIF_PYTHON:-/venv/bin/python}
if ! PYTHONPATH=/verif/.deps "$PY" -c "import hypothesis, numpy, sortedcontainers" 2>/dev/null; then
  "$PY" -m pip install --no-index --find-links /opt/veriftools/wheels --target /verif/.deps hypothesis || exit 2
fi
PYTHONPATH=/verif/.deps "$PY" -c "import hypothesis, numpy; print('hypothesis', hypothesis.__version__, 'numpy', numpy.__version__)" || exit 2
mkdir -p evidence replays
exit 0
